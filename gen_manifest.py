#!/usr/bin/env python3
"""Regenerates MANIFEST.json from the list of built checks (kept in this file)."""
import json
props=[json.loads(l) for l in open('/verif/properties.jsonl')]
tech={
 'C01':'must-lockset dataflow + same-critical-section CFG queries + value-origin slices + buffer-alias taint + use-after-release typestate over go/ssa',
 'C02':'completion-entitlement analysis: CFG path queries (register-fact pruned) from table lookup/registration to every done()/Error site, must-lockset, interprocedural hand-off summaries',
 'C03':'flag/table rendez-vous via must-lockset + guard dominance, must-pass-through on reader/sender exits, drain-before-sweep CFG ordering; lock acquire/release balance (may/must lockset), lock discipline of the shared per-listener table',
 'C04':'exactly-one path counting by CFG reachability (at-most-once / must-pass-through) along the request path, no-retry loop check, use-after-release typestate',
 'C05':'queue-discipline lint over go/ssa: constant worker counts, guard dominance of inline vs queued dispatch, same-critical-section of read and dispatch; non-nil guard dominance of every optional scheduler',
 'C06':'failure-edge must-pass-through, error-text origin slice, buffer-alias taint, guard dominance of reply decoding; guard dominance of the ErrShutdown sentinel by the shutdown-text test',
 'C07':'writer/reader/specification table extraction from SSA constants (tags, shifts, masks, field order, thresholds), size-bound sums, capacity-guard dominance of reslices, go/types interface checks; shape check of every inlined LEB128 writer loop against the documented varint encoding and of the per-field offset advance of the code header',
 'C08':'recover-barrier dominance + trace-partitioned abstract interpretation (nil-ness / zero-Value) of the server request path over all 32 upgrade-flag bytes + teardown CFG ordering; thorough: compiler bounds-check-elimination facts; wait-group count/discount discipline (constant, dominance, deferred Done)',
 'C09':'CFG ordering (ack before handler start), self-disabling-branch check in the response reader, value-origin slices for stream routing, queue/lock discipline lint, alias taint; FIFO queue discipline of stream.events (take-head/pop in one critical section, decode on every path), message-carrying checks for events and stream writes, stability of the long-lived stream context',
 'C10':'typestate/lockset checks of the stream stop protocol, must-pass-through on reader exit, sibling effect-set comparison of the two server teardown sequences; condition-variable wiring, poll-mode teardown election (EOF edges must-pass the compare-and-swap)',
 'C11':'field-based buffer-alias taint with guard-dominated exemptions + use-after-release / ownership-transfer typestate over go/ssa',
 'C12':'sibling agreement of option-resolution signatures (guard dominance of registry vs constructor), call-graph funnel counts, header field-mapping agreement of encoder and default arms',
 'C13':'invariant by enumeration of mutation sites: must-lockset, guard dominance of every pool growth/dial, must-pass-through pairing of removals, writer table for the limit fields; handed-out connections must-pass list insertion, containers dropped only under an emptiness guard, default normalisation in the once-initialiser',
 'C14':'value-origin slices for addresses, must-pass-through of the alive re-check on every pooled hand-out path, must-pass-through of checkPersistConnErr in every call form, return-origin check for ErrDial; dial-result edge discipline (error edge returns no connection, success edge hands it out)',
 'C15':'guard dominance of closes/removals by NumCalls()==0, must-pass-through in Transport.Close, select-arm exit of housekeeping, lockset+origin check of NumCalls; guard dominance of retire/close by the KeepAlive / IdleConnTimeout tests, loop-shape checks of the drain loops',
 'C16':'must-lockset, same-critical-section of Update and of the live-list rebuild, value-origin slices of list elements and of every address handed to the RoundTripper',
 'C17':'value-origin slices of scheduled picks, must-pass-through cursor advance, dominance of heapify, guard dominance of the probe arm (numeric behaviour declared undecided); latency recorded on every path of target.Update from the measured sample',
 'C18':'flag/table rendez-vous (lockset + guard dominance) for waiters, select-arm analysis with timer origin, must-pass-through wake-ups, return-origin checks of error forms',
 'C19':'select-arm CFG analysis of CallWithContext, recycle typestate, capacity-guard dominance, parameter-origin check of ctx forwarding',
 'C20':'must-pass-through pairing of scheduler.New/Close, loop-exit reachability of goroutine bodies, CAS guard dominance of close(ch), return-origin checks of Close results; lock balance, shared-table lock discipline, done channel closed on the winning non-nil edge',
}
built=sorted(tech)
checks=[]
for p in props:
    if p['id'] in tech:
        checks.append({
          "property_id":p['id'],
          "quick_cmd":"./check.sh %s quick"%p['id'],
          "thorough_cmd":"./check.sh %s thorough"%p['id'],
          "evidence_file":"/verif/evidence/%s.json"%p['id'],
          "replay_cmd_template":"bin/rpcverif explain {path}",
          "engine":"rpcverif",
          "level_claimed":{"category":"other","text":"Static structural necessary conditions of the property, decided for all feasible CFG paths of all functions of package rpc on every run; not a proof of the behaviour (what is not decided is stated in evidence.coverage.not_decided and DESIGN.md).","design_ref":"DESIGN.md §3 "+p['id']},
          "level_note":"Trusted: go/types + go/ssa, lock identity by (struct,field), dependency behaviour, frozen rule tables (DESIGN.md §2).",
          "technique":"static analysis: "+tech[p['id']]+"; plus source-level Go-semantics rules armed on the functions the property's anchors name (inner re-declaration read-after-scope on go/cfg, loop-variable capture by escaping closures on go/ssa)"})
na=[{"property_id":p['id'],"reason":"check not yet built in this commit (work in progress; see DESIGN.md §3 for the planned static rules)"} for p in props if p['id'] not in tech]
m={"version":1,
 "setup_cmd":"cd tool && GOFLAGS=-mod=mod GOPROXY=off GOSUMDB=off GOTOOLCHAIN=local GOWORK=off go build -o ../bin/rpcverif .",
 "hooks":{"guard":"verif","enable":"no hooks: static analysis needs no instrumentation; nothing in /repo is guarded","baseline_off_cmd":"cd /repo && GOFLAGS=-mod=mod GOPROXY=off GOSUMDB=off go test -vet=off -count=1 -timeout 25m ./...","source_commits":[],"add_only":True},
 "engines":[{"name":"rpcverif","path":"tool/","serves_properties":built,"kind_free_text":"repository-specific static analyzer over go/packages + go/ssa (lockset, CFG path queries with register facts, value origins, alias taint, use-after-release typestate)"}],
 "checks":checks,
 "not_applicable":na,
 "notes":"All checks are static: they load and type-check /repo on every run and never execute it. controls/run.py is the seeded-mutant self-test of the checker."}
if not na: del m["not_applicable"]
json.dump(m,open('/verif/MANIFEST.json','w'),indent=1)
print(len(checks),"checks")
