#!/bin/sh
# usage: ./check.sh <property> <quick|thorough>
# Builds the analyzer if needed (offline) and runs one property check against
# /repo's current working tree. Exit 0 = property's static rules hold; exit 1 =
# VIOLATION line(s) printed.
cd "$(dirname "$0")" || exit 2
export GOFLAGS=-mod=mod GOPROXY=off GOSUMDB=off GOTOOLCHAIN=local GOWORK=off
unset GOARCH GOOS
if [ ! -x bin/rpcverif ] || [ -n "$(find tool -newer bin/rpcverif -name '*.go' 2>/dev/null | head -1)" ]; then
  (cd tool && go build -o ../bin/rpcverif .) || { echo "cannot build rpcverif"; exit 2; }
fi
REPO="${VERIF_REPO:-/repo}"
exec bin/rpcverif check -prop "$1" -tier "${2:-quick}" -repo "$REPO" -verif "$(pwd)"
