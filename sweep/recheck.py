#!/usr/bin/env python3
"""Re-run the current checks on selected sweep mutants: recheck.py <id> [<id>...] | --survivors results.jsonl"""
import json,os,shutil,subprocess,sys,tempfile,concurrent.futures as cf
VERIF=os.path.dirname(os.path.dirname(os.path.abspath(__file__)))
ENV=dict(os.environ,GOFLAGS="-mod=mod",GOPROXY="off",GOSUMDB="off",GOTOOLCHAIN="local",GOWORK="off")
def one(i):
    d=tempfile.mkdtemp(prefix="rpcverif-rechk-")
    try:
        for f in os.listdir('/repo'):
            if (f.endswith('.go') and not f.endswith('_test.go')) or f in('go.mod','go.sum'):
                shutil.copy('/repo/'+f,d)
        r=subprocess.run([VERIF+'/bin/mutate','-dir','/repo','-apply',str(i),'-out',d],capture_output=True,text=True)
        if r.returncode!=0: return i,None,'apply-error'
        m=json.loads(r.stdout)
        b=subprocess.run(['go','build','.'],cwd=d,env=ENV,capture_output=True,text=True)
        if b.returncode!=0: return i,m,'no-compile'
        c=subprocess.run([VERIF+'/bin/rpcverif','sweep','-repo',d],env=ENV,capture_output=True,text=True)
        return i,m,c.stdout.strip()
    finally:
        shutil.rmtree(d,ignore_errors=True)
ids=[]
if sys.argv[1]=='--survivors':
    for l in open(sys.argv[2]):
        r=json.loads(l)
        if r.get('status')=='compiled' and r.get('tests')=='pass' and not any(r.get('fired',{}).values()): ids.append(r['id'])
else:
    ids=[int(x) for x in sys.argv[1:]]
with cf.ThreadPoolExecutor(max_workers=8) as ex:
    for i,m,out in ex.map(one,ids):
        print(i, (m or {}).get('file'), (m or {}).get('line'), (m or {}).get('op'), ((m or {}).get('desc') or '')[:80], '=>', out)
