#!/usr/bin/env python3
"""Summarise a mutation sweep: usage summary.py [results.jsonl] [--md OUT]"""
import json,sys,collections
path = sys.argv[1] if len(sys.argv)>1 and not sys.argv[1].startswith('--') else '/verif/sweep/results.jsonl'
rs=[json.loads(l) for l in open(path)]
comp=[r for r in rs if r.get('status')=='compiled']
def fired(r): return {k:v for k,v in r.get('fired',{}).items() if v}
cat=collections.Counter()
surv=[]
for r in comp:
    f=bool(fired(r)); t=r.get('tests','?')
    cat[(t,'reported' if f else 'silent')]+=1
    if t=='pass' and not f: surv.append(r)
out=[]
out.append("mutants generated: %d, compiled: %d"%(len(rs),len(comp)))
for k in sorted(cat): out.append("  suite %-8s checks %-8s : %d"%(k[0],k[1],cat[k]))
tp=[r for r in comp if r.get('tests')=='pass']
if tp:
    out.append("mutants the repository's own suite does NOT catch: %d; reported by at least one static check: %d (%.0f%%)"%(len(tp),sum(1 for r in tp if fired(r)),100.0*sum(1 for r in tp if fired(r))/len(tp)))
byprop=collections.Counter()
for r in comp:
    for k in fired(r): byprop[k]+=1
out.append("reports per property check: "+", ".join("%s:%d"%(k,v) for k,v in sorted(byprop.items())))
out.append("survivors (suite passes, every check silent) by file/op:")
c2=collections.Counter((r['file'],r['op']) for r in surv)
for k,v in sorted(c2.items()): out.append("  %-18s %-10s %d"%(k[0],k[1],v))
print("\n".join(out))
if '--list' in sys.argv:
    for r in surv: print(r['id'],r['file'],r['line'],r['func'],r['op'],r['desc'][:110])
