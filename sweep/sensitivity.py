#!/usr/bin/env python3
"""Mutation sensitivity of ONE property's check (thorough tier extra).

Samples (deterministically from VERIF_SEED) up to N single-site syntactic
mutants of the files the property is anchored in, builds each in a scratch copy
outside /repo and /verif and runs only that property's rules on it.  Prints a
JSON summary {mutants, compiled, reported, by_rule, by_op}.  It never prints a
VIOLATION line and always exits 0: it measures the checker, not the repository.
usage: sensitivity.py <prop> [--repo /repo] [-n 160] [-j 8]
"""
import json, os, random, shutil, subprocess, sys, tempfile, collections, concurrent.futures as cf
VERIF = os.path.dirname(os.path.dirname(os.path.abspath(__file__)))
ENV = dict(os.environ, GOFLAGS="-mod=mod", GOPROXY="off", GOSUMDB="off", GOTOOLCHAIN="local", GOWORK="off")
def main():
    args = sys.argv[1:]
    prop = args.pop(0)
    repo, n, jobs = "/repo", 160, 8
    while args:
        a = args.pop(0)
        if a == "--repo": repo = args.pop(0)
        elif a == "-n": n = int(args.pop(0))
        elif a == "-j": jobs = int(args.pop(0))
    anchors = None
    for l in open(os.path.join(VERIF, "properties.jsonl")):
        p = json.loads(l)
        if p["id"] == prop:
            anchors = set(p["anchors"]["files"])
    mut = os.path.join(VERIF, "bin", "mutate")
    if not os.path.exists(mut):
        subprocess.run(["go", "build", "-o", mut, "./cmd/mutate"], cwd=os.path.join(VERIF, "tool"), env=ENV)
    ms = json.loads(subprocess.run([mut, "-dir", repo], capture_output=True, text=True).stdout)
    ms = [m for m in ms if m["file"] in anchors]
    rnd = random.Random(int(os.environ.get("VERIF_SEED", "0") or 0))
    rnd.shuffle(ms)
    ms = ms[:n]
    def one(m):
        d = tempfile.mkdtemp(prefix="rpcverif-sens-")
        try:
            for f in os.listdir(repo):
                if (f.endswith(".go") and not f.endswith("_test.go")) or f in ("go.mod", "go.sum"):
                    shutil.copy(os.path.join(repo, f), d)
            if subprocess.run([mut, "-dir", repo, "-apply", str(m["id"]), "-out", d], capture_output=True).returncode != 0:
                return m, "apply-error", []
            if subprocess.run(["go", "build", "."], cwd=d, env=ENV, capture_output=True).returncode != 0:
                return m, "no-compile", []
            c = subprocess.run([os.path.join(VERIF, "bin", "rpcverif"), "sweep", "-repo", d], env=ENV, capture_output=True, text=True, errors="replace")
            try:
                fired = json.loads(c.stdout.strip().splitlines()[-1]).get(prop, [])
            except Exception:
                fired = ["error"]
            return m, "compiled", fired
        finally:
            shutil.rmtree(d, ignore_errors=True)
    by_rule, by_op, comp, rep = collections.Counter(), collections.Counter(), 0, 0
    surv = []
    with cf.ThreadPoolExecutor(max_workers=jobs) as ex:
        for m, st, fired in ex.map(one, ms):
            if st != "compiled": continue
            comp += 1
            if fired:
                rep += 1
                for r in fired: by_rule[r] += 1
                by_op[m["op"]] += 1
            elif len(surv) < 12:
                surv.append("%s:%d %s %s" % (m["file"], m["line"], m["op"], m["desc"][:70]))
    print(json.dumps({"mutants_sampled": len(ms), "compiled": comp, "reported_by_this_check": rep, "by_rule": dict(by_rule), "reported_by_operator": dict(by_op), "sample_not_reported": surv,
                      "note": "single-site syntactic mutants of the property's anchor files; many are behaviour-preserving or break other properties, so this is a sensitivity measure, not a detection rate"}))
if __name__ == "__main__":
    main()
