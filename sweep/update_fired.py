#!/usr/bin/env python3
"""Re-run the CURRENT checks on the suite-passing mutants of sweep/results.jsonl that no check reported
when the sweep ran, and rewrite their `fired` field (the suite status is kept). usage: update_fired.py [-j N]"""
import json,os,shutil,subprocess,sys,tempfile,concurrent.futures as cf
VERIF=os.path.dirname(os.path.dirname(os.path.abspath(__file__)))
ENV=dict(os.environ,GOFLAGS="-mod=mod",GOPROXY="off",GOSUMDB="off",GOTOOLCHAIN="local",GOWORK="off")
def one(r):
    d=tempfile.mkdtemp(prefix="rpcverif-upd-")
    try:
        for f in os.listdir('/repo'):
            if (f.endswith('.go') and not f.endswith('_test.go')) or f in('go.mod','go.sum'):
                shutil.copy('/repo/'+f,d)
        a=subprocess.run([VERIF+'/bin/mutate','-dir','/repo','-apply',str(r['id']),'-out',d],capture_output=True,text=True)
        if a.returncode!=0: return r['id'],None
        c=subprocess.run([VERIF+'/bin/rpcverif','sweep','-repo',d],env=ENV,capture_output=True,text=True,timeout=600)
        try: return r['id'],json.loads(c.stdout.strip().splitlines()[-1])
        except Exception: return r['id'],None
    finally:
        shutil.rmtree(d,ignore_errors=True)
j=8
if len(sys.argv)>2 and sys.argv[1]=='-j': j=int(sys.argv[2])
path=VERIF+'/sweep/results.jsonl'
rs=[json.loads(l) for l in open(path)]
todo=[r for r in rs if r.get('status')=='compiled' and r.get('tests')=='pass' and not any(r.get('fired',{}).values())]
print(len(todo),'to re-check',flush=True)
new={}
with cf.ThreadPoolExecutor(max_workers=j) as ex:
    for n,(i,f) in enumerate(ex.map(one,todo)):
        if f is not None: new[i]=f
        if n%100==0: print(n,flush=True)
for r in rs:
    if r['id'] in new: r['fired']=new[r['id']]
with open(path,'w') as o:
    for r in rs: o.write(json.dumps(r)+'\n')
print('now reported:',sum(1 for r in rs if r.get('status')=='compiled' and r.get('tests')=='pass' and any(r.get('fired',{}).values())))
