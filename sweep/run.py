#!/usr/bin/env python3
"""Mutation sweep: how sensitive are the static checks to small behavioural edits?

For every generic syntactic mutation of /repo's non-test sources (bin/mutate:
delete a call / assignment / defer, negate a condition, flip a comparison or
&&/||, swap adjacent statements, tweak small integer literals, run a goroutine
synchronously): build the mutant in a scratch copy outside /repo and /verif, run
ALL static checks against it (rpcverif sweep), and run the repository's own test
suite (private network namespace) to learn whether the tests would have caught
it. Results go to sweep/results.jsonl; summarise with sweep/summary.py.

usage: run.py [-j N] [--repo /repo] [--ids a-b] [--no-tests]
"""
import json, os, shutil, subprocess, sys, tempfile, concurrent.futures as cf
VERIF = os.path.dirname(os.path.dirname(os.path.abspath(__file__)))
ENV = dict(os.environ, GOFLAGS="-mod=mod", GOPROXY="off", GOSUMDB="off", GOTOOLCHAIN="local", GOWORK="off")
BIN = os.environ.get("SWEEP_BIN", os.path.join(VERIF, "bin"))

def one(m, repo, tests):
    try:
        return one_(m, repo, tests)
    except Exception as e:
        return dict(m, status="harness-error", error=str(e)[:200])

def one_(m, repo, tests):
    d = tempfile.mkdtemp(prefix="rpcverif-sweep-")
    try:
        for f in os.listdir(repo):
            if f.endswith(".go") or f in ("go.mod", "go.sum"):
                shutil.copy(os.path.join(repo, f), d)
        # the tests import the example service packages
        if tests and os.path.isdir(os.path.join(repo, "examples")):
            shutil.copytree(os.path.join(repo, "examples"), os.path.join(d, "examples"))
        r = subprocess.run([os.path.join(BIN, "mutate"), "-dir", repo, "-apply", str(m["id"]), "-out", d], capture_output=True, text=True)
        if r.returncode != 0:
            return dict(m, status="apply-error")
        b = subprocess.run(["go", "build", "."], cwd=d, env=ENV, capture_output=True, text=True)
        if b.returncode != 0:
            return dict(m, status="no-compile")
        v = subprocess.run(["go", "vet", "-vettool=/bin/true", "."], cwd=d, env=ENV, capture_output=True, text=True) if False else None
        # checks look at non-test files only
        cd = tempfile.mkdtemp(prefix="rpcverif-sweepc-")
        try:
            for f in os.listdir(d):
                if not f.endswith("_test.go") and os.path.isfile(os.path.join(d, f)):
                    shutil.copy(os.path.join(d, f), cd)
            c = subprocess.run([os.path.join(BIN, "rpcverif"), "sweep", "-repo", cd], env=ENV, capture_output=True, text=True, timeout=300)
            try:
                fired = json.loads(c.stdout.strip().splitlines()[-1])
            except Exception:
                fired = {"error": [c.stdout[-200:] + c.stderr[-200:]]}
        finally:
            shutil.rmtree(cd, ignore_errors=True)
        res = dict(m, status="compiled", fired=fired)
        if tests:
            try:
                t = subprocess.run("unshare -rn sh -c 'ip link set lo up; go test -vet=off -count=1 -timeout 120s . 2>&1 | tail -30'", shell=True, cwd=d, env=ENV, capture_output=True, text=True, errors="replace", timeout=200)
                ok = "\nok  \t" in ("\n" + t.stdout) or t.stdout.startswith("ok  \t")
                res["tests"] = "pass" if ok else "fail"
            except subprocess.TimeoutExpired:
                res["tests"] = "timeout"
        return res
    finally:
        shutil.rmtree(d, ignore_errors=True)

def main():
    args = sys.argv[1:]
    jobs, repo, lo, hi, tests = 12, "/repo", 0, 10**9, True
    idset = None
    while args:
        a = args.pop(0)
        if a == "-j": jobs = int(args.pop(0))
        elif a == "--repo": repo = args.pop(0)
        elif a == "--ids":
            lo, hi = [int(x) for x in args.pop(0).split("-")]
        elif a == "--no-tests": tests = False
        elif a == "--idfile":
            idset = set(int(x) for x in open(args.pop(0)).read().split())
    ms = json.loads(subprocess.run([os.path.join(BIN, "mutate"), "-dir", repo], capture_output=True, text=True).stdout)
    ms = [m for m in ms if lo <= m["id"] <= hi and (idset is None or m["id"] in idset)]
    out = open(os.path.join(os.environ.get("SWEEP_OUT", os.path.join(VERIF, "sweep")), "results.jsonl"), "a")
    n = 0
    with cf.ThreadPoolExecutor(max_workers=jobs) as ex:
        for r in ex.map(lambda m: one(m, repo, tests), ms):
            out.write(json.dumps(r) + "\n"); out.flush()
            n += 1
            if n % 50 == 0:
                print(n, "/", len(ms), flush=True)
    print("done", n)

if __name__ == "__main__":
    main()
