#!/usr/bin/env python3
"""Seeded-mutant self-test of the checker (controls).

For every mutant in controls/<prop>.json: copy /repo's package sources to a
scratch directory outside /repo and /verif, apply the textual rewrite, make
sure the mutant still compiles, run the property check against the scratch
copy and require that the named rule reports a violation.  A rewrite whose
`old` text is absent in the current tree is skipped (not failed).

usage: run.py [-j N] [--repo /repo] C01 [C02 ...] | all
Never prints a VIOLATION line; exit 0 iff every applicable mutant is detected
(and the unmutated scratch copy is clean).
"""
import json, os, shutil, subprocess, sys, tempfile, concurrent.futures as cf

VERIF = os.path.dirname(os.path.dirname(os.path.abspath(__file__)))
ENV = dict(os.environ, GOFLAGS="-mod=mod", GOPROXY="off", GOSUMDB="off", GOTOOLCHAIN="local", GOWORK="off")

def scratch_copy(repo):
    d = tempfile.mkdtemp(prefix="rpcverif-ctl-")
    r = os.path.join(d, "repo")
    os.makedirs(r)
    for f in os.listdir(repo):
        if (f.endswith(".go") and not f.endswith("_test.go")) or f in ("go.mod", "go.sum"):
            shutil.copy(os.path.join(repo, f), r)
    v = os.path.join(d, "verif")
    os.makedirs(v)
    kf = os.path.join(VERIF, "known_findings.txt")
    if os.path.exists(kf):
        shutil.copy(kf, v)
    return d, r, v

def run_one(prop, m, repo):
    d, r, v = scratch_copy(repo)
    try:
        edits = m.get("edits") or [m]
        for e in edits:
            path = os.path.join(r, e["file"])
            s = open(path).read()
            if e["old"] not in s:
                return (m["name"], "skipped", "old text not present in " + e["file"])
            s = s.replace(e["old"], e["new"], 1)
            open(path, "w").write(s)
        b = subprocess.run(["go", "build", "."], cwd=r, env=ENV, capture_output=True, text=True)
        if b.returncode != 0:
            return (m["name"], "broken", "mutant does not compile: " + b.stderr[-400:])
        c = subprocess.run([os.path.join(VERIF, "bin", "rpcverif"), "check", "-prop", prop, "-repo", r, "-verif", v],
                           env=ENV, capture_output=True, text=True)
        out = c.stdout + c.stderr
        want = m["expect"]
        hit = [l for l in out.splitlines() if l.strip().startswith("rule " + want + " violated")]
        if c.returncode == 1 and hit:
            return (m["name"], "detected", hit[0].strip()[:300])
        if c.returncode == 1:
            return (m["name"], "detected-other", "exit 1 but rule %s silent: %s" % (want, out[-600:]))
        return (m["name"], "MISSED", out[-300:])
    finally:
        shutil.rmtree(d, ignore_errors=True)

def main():
    args = sys.argv[1:]
    repo = "/repo"
    jobs = 8
    while args and args[0].startswith("-"):
        if args[0] == "-j":
            jobs = int(args[1]); args = args[2:]
        elif args[0] == "--repo":
            repo = args[1]; args = args[2:]
        else:
            break
    if args == ["all"] or not args:
        args = sorted(f[:-5] for f in os.listdir(os.path.join(VERIF, "controls")) if f.endswith(".json"))
    ok = True
    summary = {}
    for prop in args:
        ms = json.load(open(os.path.join(VERIF, "controls", prop + ".json")))
        with cf.ThreadPoolExecutor(max_workers=jobs) as ex:
            res = list(ex.map(lambda m: run_one(prop, m, repo), ms))
        det = sum(1 for r in res if r[1] == "detected")
        app = sum(1 for r in res if r[1] not in ("skipped",))
        summary[prop] = {"applicable": app, "detected": det, "results": res}
        for r in res:
            print("%s %-40s %-14s %s" % (prop, r[0], r[1], r[2] if r[1] != "detected" else ""))
            if r[1] in ("MISSED", "broken", "detected-other"):
                ok = False
        print("%s: %d/%d applicable mutants detected" % (prop, det, app))
    out = os.environ.get("CONTROLS_JSON")
    if out:
        json.dump(summary, open(out, "w"), indent=1)
    sys.exit(0 if ok else 1)

if __name__ == "__main__":
    main()
