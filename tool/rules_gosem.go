package main

// Go-semantics slips, armed per property.
//
// The property rules read the program in SSA form, where a variable that was
// re-declared by `:=` in an inner scope, or a loop variable shared by all
// iterations, is just another value: the rule sees a store of "an error" or a
// call on "a stream" and is satisfied, although the value never reaches the
// variable the rest of the function goes on to read, or is not the value of
// the iteration that created the closure. These rules decide the two source-
// level conditions the SSA reading silently assumes. They are armed, for each
// property, on the functions that property's own obligations lie in (the
// functions its mechanism lives in) — not on the whole package — and a report
// names the function, the variable and the two positions.

import (
	"fmt"
	"go/ast"
	"go/importer"
	"go/parser"
	"go/token"
	"go/types"
	"os"
	"sort"
	"strings"

	"golang.org/x/tools/go/analysis"
	"golang.org/x/tools/go/analysis/passes/inspect"
	"golang.org/x/tools/go/analysis/passes/shadow"
	"golang.org/x/tools/go/ast/inspector"
	"golang.org/x/tools/go/cfg"
	"golang.org/x/tools/go/ssa"
)

// runProp runs the property's own rules and then the Go-semantics rules on the
// functions those rules produced obligations in.
func runProp(d *propDef, c *Check, a *Analysis) {
	d.Run(c, a)
	ruleGoSemantics(c, a)
}

// ownedFunctions: top-level functions (fname style) that (a) the property's own obligations were
// generated in and (b) the property's anchors in properties.jsonl name (owners_gen.go): the
// functions the property's mechanism lives in, by the property's own account.
func ownedFunctions(c *Check) map[string]bool {
	out := map[string]bool{}
	for _, o := range c.Obs {
		s := o.Site
		if i := strings.Index(s, "#"); i >= 0 {
			s = s[:i]
		}
		if i := strings.Index(s, "$"); i >= 0 {
			s = s[:i]
		}
		s = strings.TrimSpace(s)
		if s == "" || c.P == nil {
			continue
		}
		fn := c.P.byName[s]
		if fn == nil {
			continue
		}
		file := c.P.Fset.Position(fn.Pos()).Filename
		if i := strings.LastIndex(file, "/"); i >= 0 {
			file = file[i+1:]
		}
		for _, pr := range anchorOwners[file+":"+fn.Name()] {
			if pr == c.Prop {
				out[s] = true
			}
		}
	}
	return out
}

// obligationInRegion: the property has an obligation of its own positioned in file between the lines
// lo and hi — the slip changes the meaning of code one of its rules reads.
func obligationInRegion(c *Check, file string, lo, hi int) bool {
	for _, o := range c.Obs {
		if strings.HasPrefix(o.Rule, "R-GO-") {
			continue
		}
		parts := strings.Split(o.Pos, ":")
		if len(parts) < 2 {
			continue
		}
		f := parts[0]
		if i := strings.LastIndex(f, "/"); i >= 0 {
			f = f[i+1:]
		}
		ln := 0
		fmt.Sscanf(parts[1], "%d", &ln)
		if f == file && ln >= lo && ln <= hi {
			return true
		}
	}
	return false
}

func baseName(f string) string {
	if i := strings.LastIndex(f, "/"); i >= 0 {
		return f[i+1:]
	}
	return f
}

type shadowReport struct {
	pos token.Pos
	msg string
}

// shadowReports runs the shadowing test (x/tools go/analysis/passes/shadow, non-strict: an inner
// declaration is reported only when the outer variable is mentioned again after it) over files.
func shadowReports(fset *token.FileSet, files []*ast.File, pkg *types.Package, info *types.Info) ([]shadowReport, error) {
	var out []shadowReport
	pass := &analysis.Pass{
		Analyzer:  shadow.Analyzer,
		Fset:      fset,
		Files:     files,
		Pkg:       pkg,
		TypesInfo: info,
		ResultOf:  map[*analysis.Analyzer]interface{}{inspect.Analyzer: inspector.New(files)},
		Report: func(d analysis.Diagnostic) {
			out = append(out, shadowReport{d.Pos, d.Message})
		},
	}
	if _, err := shadow.Analyzer.Run(pass); err != nil {
		return nil, err
	}
	sort.Slice(out, func(i, j int) bool { return out[i].pos < out[j].pos })
	return out, nil
}

// the positive example every run must match (a rule whose expected count is zero passes vacuously
// for ever otherwise): the inner err never reaches the err that is returned.
const shadowSelfTest = `package p

func g() (int, error) { return 0, nil }

func f() (n int, err error) {
	for i := 0; i < 2; i++ {
		n, err := g()
		if err != nil {
			break
		}
		_ = n
	}
	return n, err
}
`

func shadowSelfTestOK() bool {
	fset := token.NewFileSet()
	f, err := parser.ParseFile(fset, "selftest.go", shadowSelfTest, 0)
	if err != nil {
		return false
	}
	info := &types.Info{Defs: map[*ast.Ident]types.Object{}, Uses: map[*ast.Ident]types.Object{}, Implicits: map[ast.Node]types.Object{}, Types: map[ast.Expr]types.TypeAndValue{}, Scopes: map[ast.Node]*types.Scope{}}
	conf := types.Config{Importer: importer.Default()}
	pkg, err := conf.Check("p", fset, []*ast.File{f}, info)
	if err != nil {
		return false
	}
	rs, err := shadowReports(fset, []*ast.File{f}, pkg, info)
	return err == nil && len(rs) >= 1
}

// enclosingFuncName returns the fname-style name of the top-level function declaration containing pos.
func enclosingFuncName(files []*ast.File, pos token.Pos) string {
	for _, f := range files {
		if pos < f.Pos() || pos > f.End() {
			continue
		}
		for _, d := range f.Decls {
			fd, ok := d.(*ast.FuncDecl)
			if !ok || pos < fd.Pos() || pos > fd.End() {
				continue
			}
			if fd.Recv == nil || len(fd.Recv.List) == 0 {
				return fd.Name.Name
			}
			t := fd.Recv.List[0].Type
			ptr := false
			if st, ok := t.(*ast.StarExpr); ok {
				ptr = true
				t = st.X
			}
			name := ""
			if id, ok := t.(*ast.Ident); ok {
				name = canonTypeName(id.Name)
			}
			if ptr {
				return "(*" + name + ")." + fd.Name.Name
			}
			return "(" + name + ")." + fd.Name.Name
		}
	}
	return ""
}

func ruleGoSemantics(c *Check, a *Analysis) {
	p := c.P
	if p == nil || p.Root == nil {
		return
	}
	owned := ownedFunctions(c)
	// ---- R-GO-SHADOW
	const rs = "R-GO-SHADOW"
	c.Rule(rs, "in the functions this property's obligations lie in, no `:=` (or var) in an inner scope re-declares a variable of an enclosing scope of the same function such that some path leaves the inner scope and then READS the outer variable (a bare return counts as a read of the named results) before assigning it: the value assigned in the inner scope (an error, a connection, a result) never reaches the variable the rest of the function goes on to use", 1)
	if !shadowSelfTestOK() {
		c.Undecided(rs, "the embedded positive example was not reported")
	} else {
		c.Ob(rs, "self-test#embedded positive example is reported", token.NoPos, true, "")
	}
	reps, err := shadowReports(p.Fset, p.Root.Syntax, p.Root.Types, p.Root.TypesInfo)
	if err != nil {
		c.Undecided(rs, "shadow pass failed: "+err.Error())
	}
	// instances: the inner-scope declarations examined in owned functions
	nDecl := 0
	for _, f := range p.Root.Syntax {
		for _, d := range f.Decls {
			fd, ok := d.(*ast.FuncDecl)
			if !ok || fd.Body == nil || !owned[enclosingFuncName(p.Root.Syntax, fd.Pos())] {
				continue
			}
			ast.Inspect(fd.Body, func(n ast.Node) bool {
				if as, ok := n.(*ast.AssignStmt); ok && as.Tok == token.DEFINE {
					nDecl++
				}
				return true
			})
		}
	}
	c.extra("go_shadow_declarations_examined", nDecl)
	sc := siteCounter{}
	nHarmless := 0
	defer func() { c.extra("go_shadow_harmless_redeclarations", nHarmless) }()
	for _, r := range reps {
		fnName := enclosingFuncName(p.Root.Syntax, r.pos)
		if !owned[fnName] {
			continue
		}
		fn := p.byName[fnName]
		// the region whose meaning changes: from the inner declaration to the last mention of
		// the hidden variable (the end of the function for a result variable: bare returns)
		lo := p.Fset.Position(r.pos).Line
		hi := lo
		file := baseName(p.Fset.Position(r.pos).Filename)
		for id, obj := range p.Root.TypesInfo.Defs {
			if id.Pos() != r.pos || obj == nil || obj.Parent() == nil || obj.Parent().Parent() == nil {
				continue
			}
			_, outer := obj.Parent().Parent().LookupParent(obj.Name(), r.pos)
			if outer == nil {
				continue
			}
			for uid, uobj := range p.Root.TypesInfo.Uses {
				if uobj == outer {
					if l := p.Fset.Position(uid.Pos()).Line; l > hi {
						hi = l
					}
				}
			}
			if fn != nil && fn.Signature.Results() != nil {
				for i := 0; i < fn.Signature.Results().Len(); i++ {
					if fn.Signature.Results().At(i) == outer {
						if syn := fn.Syntax(); syn != nil {
							hi = p.Fset.Position(syn.End()).Line
						}
					}
				}
			}
		}
		if !obligationInRegion(c, file, lo, hi) {
			continue
		}
		if !shadowIsHarmful(p, r.pos) {
			nHarmless++
			continue
		}
		varName := r.msg
		if i := strings.Index(r.msg, "\""); i >= 0 {
			if j := strings.Index(r.msg[i+1:], "\""); j >= 0 {
				varName = r.msg[i+1 : i+1+j]
			}
		}
		c.Ob(rs, sc.key(fn, "inner declaration of "+varName+" hides the outer one"), r.pos, false, r.msg+": what is assigned here does not reach the variable of that name which "+fnName+" reads again further down (or returns)")
	}

	// ---- R-GO-LOOPVAR
	const rl = "R-GO-LOOPVAR"
	c.Rule(rl, "in the functions this property's obligations lie in, a closure created inside a loop that captures a variable which the loop re-assigns on every iteration (go.mod < 1.22: one variable for the whole loop) does not outlive its iteration — it is not started with go, deferred, handed to a queue or stored", 0)
	nCl := 0
	sc2 := siteCounter{}
	for name := range owned {
		top := p.byName[name]
		if top == nil {
			continue
		}
		for _, fn := range withClosuresLocal(top) {
			eachInstrLocal(fn, func(in ssa.Instruction) {
				mc, ok := in.(*ssa.MakeClosure)
				if !ok || !p.inLoop(in) {
					return
				}
				nCl++
				loop := p.loopBlocksOf(in.Block())
				for _, b := range mc.Bindings {
					al, ok := b.(*ssa.Alloc)
					if !ok || loop[al.Block()] {
						continue // declared inside the loop body: one variable per iteration
					}
					// re-assigned inside the loop?
					var st *ssa.Store
					if al.Referrers() != nil {
						for _, r := range *al.Referrers() {
							if s, ok := r.(*ssa.Store); ok && loop[s.Block()] {
								st = s
							}
						}
					}
					if st == nil {
						continue
					}
					how := escapesIteration(p, mc)
					if how == "" {
						continue
					}
					lo, hi := 1<<30, 0
					for lb := range loop {
						for _, li := range lb.Instrs {
							if li.Pos().IsValid() {
								if l := p.Fset.Position(li.Pos()).Line; l > 0 {
									if l < lo {
										lo = l
									}
									if l > hi {
										hi = l
									}
								}
							}
						}
					}
					if cl, ok := mc.Fn.(*ssa.Function); ok && cl.Syntax() != nil {
						if l := p.Fset.Position(cl.Syntax().End()).Line; l > hi {
							hi = l
						}
					}
					if os.Getenv("GOSEM_DEBUG") != "" {
						fmt.Fprintln(os.Stderr, "loopvar", c.Prop, name, baseName(p.Fset.Position(top.Pos()).Filename), lo, hi)
					}
					if !obligationInRegion(c, baseName(p.Fset.Position(top.Pos()).Filename), lo, hi) {
						continue
					}
					vn := al.Comment
					c.Ob(rl, sc2.key(top, "closure over "+vn+" outlives its iteration"), closurePos(mc), false, fmt.Sprintf("the closure created at %s captures %s, which the loop re-assigns at %s, and is %s: when it runs it sees the value of a later iteration (usually the last), so one element is handled several times and the others never", p.At(in), vn, p.At(st), how))
				}
			})
		}
	}
	c.extra("go_loop_closures_examined", nCl)
}

// escapesIteration tells how a closure value leaves the loop iteration that made it ("" if it does not).
func escapesIteration(p *Prog, mc *ssa.MakeClosure) string {
	if mc.Referrers() == nil {
		return ""
	}
	for _, r := range *mc.Referrers() {
		switch x := r.(type) {
		case *ssa.Go:
			return "started with go"
		case *ssa.Defer:
			return "deferred to the end of the function"
		case *ssa.Call:
			if x.Common().Value == ssa.Value(mc) {
				continue // called on the spot
			}
			if h := p.calleeOf(x); h != nil && p.isPlainHelper(h) {
				all := true
				for i, arg := range x.Common().Args {
					if arg == ssa.Value(mc) && i < len(h.Params) && !p.calledOnly(h.Params[i]) {
						all = false
					}
				}
				if all {
					continue // a helper that only calls it
				}
			}
			if x.Common().IsInvoke() && x.Common().Method.Name() == "Do" {
				continue // sync.Once.Do runs it before returning
			}
			if cal := x.Common().StaticCallee(); cal != nil && cal.Name() == "Do" && strings.Contains(cal.String(), "sync.Once") {
				continue
			}
			return "handed to " + calleeName(x) + ", which runs it later"
		case *ssa.Store:
			// a local function variable: look at the uses of the variable
			if cell, ok := x.Addr.(*ssa.Alloc); ok && cell.Referrers() != nil {
				esc := ""
				for _, u := range *cell.Referrers() {
					ld, ok := u.(*ssa.UnOp)
					if !ok || ld.Referrers() == nil {
						continue
					}
					for _, lr := range *ld.Referrers() {
						switch y := lr.(type) {
						case *ssa.Go:
							esc = "started with go"
						case *ssa.Defer:
							esc = "deferred to the end of the function"
						case *ssa.Call:
							if y.Common().Value != ssa.Value(ld) {
								esc = "handed to " + calleeName(y) + ", which runs it later"
							}
						}
					}
				}
				if esc != "" {
					return esc
				}
				continue
			}
			return "stored"
		case *ssa.MakeInterface:
			return "stored"
		}
	}
	return ""
}

// loopBlocksOf returns the blocks of the innermost cycle through b (b included), or nil.
func (p *Prog) loopBlocksOf(b *ssa.BasicBlock) map[*ssa.BasicBlock]bool {
	// blocks reachable from b that can reach b
	fwd := map[*ssa.BasicBlock]bool{}
	var f func(x *ssa.BasicBlock)
	f = func(x *ssa.BasicBlock) {
		for _, s := range x.Succs {
			if !fwd[s] {
				fwd[s] = true
				f(s)
			}
		}
	}
	f(b)
	if !fwd[b] {
		return nil
	}
	bwd := map[*ssa.BasicBlock]bool{}
	var g func(x *ssa.BasicBlock)
	g = func(x *ssa.BasicBlock) {
		for _, s := range x.Preds {
			if !bwd[s] {
				bwd[s] = true
				g(s)
			}
		}
	}
	g(b)
	out := map[*ssa.BasicBlock]bool{b: true}
	for x := range fwd {
		if bwd[x] {
			out[x] = true
		}
	}
	return out
}

func closurePos(mc *ssa.MakeClosure) token.Pos {
	if mc.Pos().IsValid() {
		return mc.Pos()
	}
	if cl, ok := mc.Fn.(*ssa.Function); ok {
		return cl.Pos()
	}
	return token.NoPos
}

// shadowIsHarmful decides whether the inner declaration at pos hides an outer variable in a way that
// matters: on the control-flow graph of the enclosing function body (go/cfg), some path that starts
// behind the inner declaration leaves the inner variable's scope and then reads the outer variable —
// or returns bare while it is a named result — before any plain assignment to it. A re-declaration
// whose scope ends in explicit returns, or whose outer variable is overwritten before its next read,
// is a deliberate temporary.
func shadowIsHarmful(p *Prog, pos token.Pos) bool {
	info := p.Root.TypesInfo
	var inner types.Object
	for id, obj := range info.Defs {
		if id.Pos() == pos && obj != nil {
			inner = obj
		}
	}
	if inner == nil || inner.Parent() == nil || inner.Parent().Parent() == nil {
		return true
	}
	_, outer := inner.Parent().Parent().LookupParent(inner.Name(), pos)
	if outer == nil {
		return true
	}
	scope := inner.Parent()
	// innermost function (declaration or literal) that contains both the inner declaration and the outer one's scope uses
	var body *ast.BlockStmt
	var ftype *ast.FuncType
	for _, f := range p.Root.Syntax {
		if pos < f.Pos() || pos > f.End() {
			continue
		}
		ast.Inspect(f, func(n ast.Node) bool {
			if n == nil || pos < n.Pos() || pos > n.End() {
				return n == nil || false
			}
			switch x := n.(type) {
			case *ast.FuncDecl:
				if x.Body != nil {
					body, ftype = x.Body, x.Type
				}
			case *ast.FuncLit:
				// only descend into the literal when the outer variable lives inside it as well
				if outer.Pos() >= x.Pos() && outer.Pos() <= x.End() {
					body, ftype = x.Body, x.Type
				}
			}
			return true
		})
	}
	if body == nil {
		return true
	}
	isResult := false
	if ftype != nil && ftype.Results != nil {
		for _, fl := range ftype.Results.List {
			for _, nm := range fl.Names {
				if info.Defs[nm] == outer {
					isResult = true
				}
			}
		}
	}
	usesOuter := func(n ast.Node) bool {
		found := false
		ast.Inspect(n, func(m ast.Node) bool {
			if id, ok := m.(*ast.Ident); ok && info.Uses[id] == outer {
				found = true
			}
			return !found
		})
		return found
	}
	// classify a CFG node lying outside the inner scope: "read", "write" (kills the path) or ""
	classify := func(n ast.Node) string {
		switch x := n.(type) {
		case *ast.ReturnStmt:
			if len(x.Results) == 0 {
				if isResult {
					return "read"
				}
				return ""
			}
			if usesOuter(x) {
				return "read"
			}
			if isResult {
				return "write"
			}
			return ""
		case *ast.AssignStmt:
			rhs := false
			for _, e := range x.Rhs {
				if usesOuter(e) {
					rhs = true
				}
			}
			lhsPlain, lhsOther := false, false
			for _, e := range x.Lhs {
				if id, ok := e.(*ast.Ident); ok && info.Uses[id] == outer {
					lhsPlain = true
				} else if usesOuter(e) {
					lhsOther = true
				}
			}
			if rhs || lhsOther || (lhsPlain && x.Tok != token.ASSIGN) {
				return "read"
			}
			if lhsPlain {
				return "write"
			}
			return ""
		}
		if usesOuter(n) {
			return "read"
		}
		return ""
	}
	g := cfg.New(body, func(*ast.CallExpr) bool { return true })
	inScope := func(n ast.Node) bool { return n.Pos() >= scope.Pos() && n.Pos() < scope.End() }
	type st struct {
		b *cfg.Block
		i int
	}
	var start *st
	for _, b := range g.Blocks {
		for i, n := range b.Nodes {
			if pos >= n.Pos() && pos < n.End() && start == nil {
				start = &st{b, i + 1}
			}
		}
	}
	if start == nil {
		return true
	}
	// `if x, err := f(); err != nil { …; return }`: the inner variable leaves its scope only as nil; if the
	// outer one cannot hold anything but its zero value at this point either (never assigned on a way
	// here, not a parameter), nothing is lost
	if innerLeavesOnlyZero(info, body, pos, inner) {
		assignedBefore := false
		if v, ok := outer.(*types.Var); ok && ftype != nil && ftype.Params != nil {
			for _, fl := range ftype.Params.List {
				for _, nm := range fl.Names {
					if info.Defs[nm] == types.Object(v) {
						assignedBefore = true
					}
				}
			}
		}
		// blocks from which the declaration is reachable
		reach := map[*cfg.Block]bool{start.b: true}
		changed := true
		for changed {
			changed = false
			for _, b := range g.Blocks {
				if reach[b] {
					continue
				}
				for _, nb := range b.Succs {
					if reach[nb] {
						reach[b] = true
						changed = true
						break
					}
				}
			}
		}
		for _, b := range g.Blocks {
			if !reach[b] {
				continue
			}
			for i, n := range b.Nodes {
				if b == start.b && i >= start.i-1 {
					// same block, behind the declaration: only counts if the block lies on a cycle
					onCycle := false
					for _, nb := range b.Succs {
						if reach[nb] {
							onCycle = true
						}
					}
					if !onCycle {
						break
					}
				}
				if inScope(n) {
					continue
				}
				if as, ok := n.(*ast.AssignStmt); ok {
					for _, e := range as.Lhs {
						if id, ok := e.(*ast.Ident); ok && (info.Uses[id] == outer) {
							assignedBefore = true
						}
					}
				}
				if u, ok := n.(*ast.UnaryExpr); ok && u.Op == token.AND && usesOuter(u) {
					assignedBefore = true
				}
			}
		}
		// taking its address anywhere (or capturing it in a closure) makes it writable out of sight
		ast.Inspect(body, func(m ast.Node) bool {
			switch x := m.(type) {
			case *ast.UnaryExpr:
				if x.Op == token.AND && usesOuter(x.X) {
					assignedBefore = true
				}
			case *ast.FuncLit:
				if usesOuter(x) {
					assignedBefore = true
				}
			}
			return true
		})
		if !assignedBefore {
			return false
		}
	}
	seen := map[*cfg.Block]bool{}
	work := []st{*start}
	for len(work) > 0 {
		s := work[len(work)-1]
		work = work[:len(work)-1]
		killed := false
		for i := s.i; i < len(s.b.Nodes); i++ {
			n := s.b.Nodes[i]
			if inScope(n) {
				continue
			}
			switch classify(n) {
			case "read":
				return true
			case "write":
				killed = true
			}
			if killed {
				break
			}
		}
		if killed {
			continue
		}
		for _, nb := range s.b.Succs {
			if !seen[nb] {
				seen[nb] = true
				work = append(work, st{nb, 0})
			}
		}
	}
	return false
}

// innerLeavesOnlyZero: the declaration at pos is the init statement of `if …; inner != nil { … return }`
// (no else): control leaves the inner variable's scope other than by return only when it is nil.
func innerLeavesOnlyZero(info *types.Info, body *ast.BlockStmt, pos token.Pos, inner types.Object) bool {
	res := false
	ast.Inspect(body, func(n ast.Node) bool {
		ifs, ok := n.(*ast.IfStmt)
		if !ok || ifs.Init == nil || ifs.Else != nil || pos < ifs.Init.Pos() || pos >= ifs.Init.End() {
			return true
		}
		be, ok := ifs.Cond.(*ast.BinaryExpr)
		if !ok || be.Op != token.NEQ {
			return true
		}
		x, y := be.X, be.Y
		if id, ok := x.(*ast.Ident); ok && id.Name == "nil" {
			x, y = y, x
		}
		xi, ok1 := x.(*ast.Ident)
		yi, ok2 := y.(*ast.Ident)
		if !ok1 || !ok2 || yi.Name != "nil" || info.Uses[xi] != inner {
			return true
		}
		if len(ifs.Body.List) == 0 {
			return true
		}
		if _, isRet := ifs.Body.List[len(ifs.Body.List)-1].(*ast.ReturnStmt); isRet {
			res = true
		}
		return true
	})
	return res
}
