package main

// Rules added after the third round of independent seeded changes (seeded/C??-E, -F).

import (
	"go/token"
	"strings"

	"golang.org/x/tools/go/ssa"
)

// ruleSweepRemoves (C02/C03): in the reader's terminal section a call leaves the pending table
// only inside the loop over the table that also completes it.
func ruleSweepRemoves(c *Check, a *Analysis, rule string) {
	p := c.P
	c.Rule(rule, "in the function that sets Conn.shutdown, every removal from Conn.pending is the removal of the entry the enclosing range over Conn.pending is visiting, and is followed by done() on that entry before the next iteration (an entry removed under another table's key is dropped without ever being completed)", 1)
	sc := siteCounter{}
	n := 0
	for _, s := range p.storesToField("Conn", "shutdown") {
		fn := s.Fn
		for _, d := range p.mapOps("Conn", "pending") {
			if d.Kind != "delete" || !p.sameFn(d.Fn, fn) {
				continue
			}
			n++
			ok := false
			for _, o := range p.origins(d.Key) {
				if isRangeKeyOf(p.canon(o), "Conn", "pending", p) {
					ok = true
				}
			}
			// completion of the visited entry follows
			if ok {
				dn := false
				for _, dc := range callsIn(fn, "(*Call).done") {
					if p.canReach(d.Instr, dc.(ssa.Instruction), never) && p.inLoop(dc.(ssa.Instruction)) {
						dn = true
					}
				}
				ok = dn
			}
			c.Ob(rule, sc.key(fn, "removal of the visited pending entry, then done()"), p.InstrPos(d.Instr), ok, ifs(!ok, "the terminal sweep removes a Conn.pending entry that is not the one its loop over the table is visiting (or does not complete it): a stream open / close request in flight at the cut is dropped and its caller blocks forever"))
		}
	}
	if n == 0 {
		c.Undecided(rule, "no removal from Conn.pending in the function that sets Conn.shutdown")
	}
}

// ruleExecQueueAfterWait (C05/C10): the per-connection execution queue is closed only after the handlers are done.
func ruleExecQueueAfterWait(c *Check, a *Analysis, rule string) {
	p := c.P
	c.Rule(rule, "in every per-connection teardown the execution queue handed to ServeRequest (server pipelining) is closed only after wg.Wait() has returned (scheduler.Close runs the queued tasks in the caller: closing it while a handler is still running executes the queued requests concurrently with it)", 1)
	sr := p.Fn("(*Server).ServeRequest")
	if sr == nil {
		c.Undecided(rule, "ServeRequest not found")
		return
	}
	// index of the scheduler parameter that handleRequest tasks are queued on (the execution queue)
	execIdx := -1
	for i, prm := range sr.Params {
		if prm.Name() == "sched" || (execIdx < 0 && strings.HasSuffix(prm.Type().String(), "scheduler.Scheduler")) {
			execIdx = i
		}
	}
	// the first scheduler parameter is the execution queue, the second the stream queue
	cnt := 0
	for i, prm := range sr.Params {
		if strings.HasSuffix(prm.Type().String(), "scheduler.Scheduler") {
			if cnt == 0 {
				execIdx = i
			}
			cnt++
		}
	}
	if execIdx < 0 {
		c.Undecided(rule, "ServeRequest has no scheduler parameter")
		return
	}
	sc := siteCounter{}
	n := 0
	for _, fn := range p.Fns {
		if !strings.HasPrefix(fname(topParent(fn)), "(*Server).") {
			continue
		}
		waits := callsIn(fn, "(*sync.WaitGroup).Wait")
		if len(waits) == 0 {
			continue
		}
		var q ssa.Value
		for _, f := range withClosures(topParent(fn)) {
			for _, cs := range callsIn(f, "(*Server).ServeRequest") {
				if execIdx < len(cs.Common().Args) {
					q = p.canon(cs.Common().Args[execIdx])
				}
			}
		}
		if q == nil {
			continue
		}
		eachInstrCtx(fn, func(in, at ssa.Instruction, res func(ssa.Value) ssa.Value) {
			cc, ok := in.(*ssa.Call)
			if !ok || !cc.Common().IsInvoke() || cc.Common().Method.Name() != "Close" || !sameQueue(p, res(cc.Common().Value), q) {
				return
			}
			n++
			after := false
			for _, w := range waits {
				// a Close inside a helper happens where fn calls the helper
				if p.dominatesInstr(w.(ssa.Instruction), in) || (at != in && p.dominatesInstr(w.(ssa.Instruction), at)) {
					after = true
				}
			}
			c.Ob(rule, sc.key(fn, "execution queue closed after wg.Wait"), p.InstrPos(in), after, ifs(!after, "the execution queue is closed before wg.Wait(): its queued requests are run by the tearing-down goroutine while the worker is still inside a handler — two requests of one pipelined connection execute concurrently and answer out of order"))
		})
	}
	if n == 0 {
		c.Undecided(rule, "no Close of the execution queue found in a teardown")
	}
}

// ruleInlineReplies (C05): only control frames are answered from the decode path itself.
func ruleInlineReplies(c *Check, a *Analysis, rule string) {
	p := c.P
	c.Rule(rule, "in ServeRequest a response is sent directly (not through handleRequest on the connection's execution queue) only for heartbeat frames, stream-close frames and frames that could not be decoded; every other request is answered on the ordered path", 2)
	sr := p.Fn("(*Server).ServeRequest")
	if sr == nil {
		c.Undecided(rule, "ServeRequest not found")
		return
	}
	sc := siteCounter{}
	control := func(in ssa.Instruction) bool {
		hb, _ := p.guardedBy(in, matchFieldEqConst("upgrade", "Heartbeat", 1))
		cl, _ := p.guardedBy(in, matchFieldEqConst("upgrade", "Stream", 3))
		derr := false
		for _, h := range eventsOf(sr, "invoke ServerCodec.ReadRequestHeader") {
			if hc, ok := h.(*ssa.Call); ok {
				if g, _ := p.guardedBy(in, negate(matchValueNil(p, hc))); g {
					derr = true
				}
			}
		}
		return hb || cl || derr
	}
	// every way a sendResponse call is reached from ServeRequest (directly, or through helpers
	// that may be shared between the inline arms) is judged at the point in ServeRequest itself
	eachInstrCtx(sr, func(in, at ssa.Instruction, res func(ssa.Value) ssa.Value) {
		if !isCallTo(in, "(*Server).sendResponse") {
			return
		}
		ok := control(in) || (at != nil && at != in && control(at))
		c.Ob(rule, sc.key(sr, "inline reply only for control frames"), p.InstrPos(at), ok, ifs(!ok, "ServeRequest answers a request from the decode path itself, bypassing the connection's execution queue: with pipelining its response overtakes the responses of earlier requests that are still queued or executing"))
	})
}

// ruleReaderExitCause (C03/C06): the client reader ends only because reading a frame failed.
func ruleReaderExitCause(c *Check, a *Analysis, rule string) {
	p := c.P
	c.Rule(rule, "the error that ends the client's reader loop originates only from Messages.ReadMessage (an error *response*, or a failure while handling one frame, never terminates the reader: all other calls on the connection would fail with it)", 1)
	var recv *ssa.Function
	for _, s := range p.storesToField("Conn", "shutdown") {
		recv = s.Fn
	}
	if recv == nil {
		c.Undecided(rule, "reader function not found")
		return
	}
	sc := siteCounter{}
	n := 0
	for _, b := range recv.Blocks {
		iff, ok := b.Instrs[len(b.Instrs)-1].(*ssa.If)
		if !ok {
			continue
		}
		k, _, okf := p.condFact(iff.Cond)
		if !okf || k.c != "nil" || !strings.HasSuffix(k.v.Type().String(), "error") {
			continue
		}
		// only tests that decide the loop: inside the loop that contains ReadMessage
		inLoop := false
		for _, rm := range invokesIn(recv, "socket.Messages", "ReadMessage") {
			if rm.Parent() == recv && p.inLoop(rm.(ssa.Instruction)) && p.canReach(rm.(ssa.Instruction), iff, never) && p.canReach(iff, rm.(ssa.Instruction), never) {
				inLoop = true
			}
		}
		if !inLoop {
			continue
		}
		n++
		ok2 := true
		why := ""
		for _, o := range p.origins(k.v) {
			o = p.canon(o)
			if nilConst(o) {
				continue
			}
			if e, isE := o.(*ssa.Extract); isE {
				if cc, isC := e.Tuple.(*ssa.Call); isC && cc.Common().IsInvoke() && cc.Common().Method.Name() == "ReadMessage" {
					continue
				}
			}
			ok2 = false
			why = describe(o)
		}
		c.Ob(rule, sc.key(recv, "loop ends only on a read error"), p.InstrPos(iff), ok2, ifs(!ok2, "the reader loop's exit test also sees "+why+": a failure that concerns one response ends the reader, every outstanding call fails and the connection is dead"))
	}
	if n == 0 {
		c.Undecided(rule, "the reader loop's exit test was not found")
	}
}

// rulePBFieldsIndependent (C07): every protobuf field is emitted on its own condition.
func rulePBFieldsIndependent(c *Check, a *Analysis, rule string) {
	p := c.P
	c.Rule(rule, "in the protobuf header writers the emission of a field depends only on that field being non-empty, never on another field being empty (Error and Reply of a response are both on the wire when both are set); the decoders reject nothing on account of a field's contents (no UTF-8 validation: method names and error texts are arbitrary bytes)", 4)
	sc := siteCounter{}
	for _, spec := range []struct {
		fn, st string
		fields []string
	}{
		{"(*pbRequest).MarshalTo", "pbRequest", []string{"Upgrade", "ServiceMethod", "Args"}},
		{"(*pbResponse).MarshalTo", "pbResponse", []string{"Error", "Reply"}},
	} {
		fn := p.Fn(spec.fn)
		if fn == nil {
			c.Undecided(rule, spec.fn+" not found")
			continue
		}
		for _, f := range spec.fields {
			// the payload copy of field f
			for _, cp := range callsIn(fn, "builtin copy") {
				if !isLoadOf(p.canon(cp.Common().Args[1]), spec.st, f) {
					continue
				}
				bad := ""
				for _, other := range spec.fields {
					if other == f {
						continue
					}
					if g, _ := p.guardedBy(cp.(ssa.Instruction), matchFieldLenZero(p, spec.st, other)); g {
						bad = other
					}
				}
				c.Ob(rule, sc.key(fn, "field "+f+" emitted on its own condition"), p.InstrPos(cp), bad == "", ifs(bad != "", "field "+f+" is written only when "+bad+" is empty: a message that carries both loses "+f+" on the wire"))
			}
		}
	}
	for _, fn := range p.Fns {
		n := fname(topParent(fn))
		if !strings.Contains(n, "Unmarshal") && !strings.Contains(n, "ReadRequestHeader") && !strings.Contains(n, "ReadResponseHeader") {
			continue
		}
		eachInstr(fn, func(in ssa.Instruction) {
			if cc, ok := in.(*ssa.Call); ok && strings.Contains(calleeName(cc), "utf8.Valid") {
				c.Ob(rule, sc.key(fn, "no content validation in decoders"), p.InstrPos(in), false, "a header decoder validates the contents of a field ("+calleeName(cc)+"): texts the encoder accepts (arbitrary bytes) are rejected on the other side, the frame is dropped and its call never completes")
			}
		})
	}
}

// ruleFixedPoolSizes (C08): fixed-size buffer pools are never asked for a peer-determined size.
func ruleFixedPoolSizes(c *Check, a *Analysis, rule string) {
	p := c.P
	c.Rule(rule, "every (*buffer.Pool).GetBuffer call on a fixed-size pool asks for a constant or configured size, never for a length taken from received data (the pool slices a fixed array: a longer peer-chosen length panics outside every recover barrier)", 6)
	sc := siteCounter{}
	for _, fn := range p.Fns {
		for _, g := range callsIn(fn, "(*buffer.Pool).GetBuffer") {
			arg := g.Common().Args[1]
			ok := true
			for _, o := range p.origins(arg) {
				o = p.canon(o)
				if _, isK := o.(*ssa.Const); isK {
					continue
				}
				if fr, _, isF := fieldOfLoad(o); isF && (strings.Contains(strings.ToLower(fr.Field), "size")) {
					continue
				}
				if _, isP := o.(*ssa.Parameter); isP {
					continue
				}
				ok = false
			}
			c.Ob(rule, sc.key(fn, "fixed pool asked for a constant/configured size"), p.InstrPos(g), ok, ifs(!ok, "a fixed-size buffer pool is asked for "+describe(arg)+", a size the peer determines: a message longer than the pool's element panics in GetBuffer, outside the decoders' recover barrier"))
		}
	}
}

var _ = token.ADD

// ruleResolveTotal (C12): no path through DialWithOptions bypasses option resolution.
func ruleResolveTotal(c *Check, a *Analysis, rule string) {
	p := c.P
	c.Rule(rule, "every connection DialWithOptions returns comes from (*Conn).Dial with a codec constructor that reads the body-codec and header-encoder options (names and constructors); DefaultOptions pre-fills only constructor fields, never the name fields that take precedence over a constructor the user sets afterwards", 2)
	dw := p.Fn("DialWithOptions")
	if dw == nil {
		c.Undecided(rule, "DialWithOptions not found")
	} else {
		eachInstr(dw, func(in ssa.Instruction) {
			r, ok := in.(*ssa.Return)
			if !ok || len(r.Results) == 0 || in.Parent() != dw {
				return
			}
			for _, o := range p.origins(r.Results[0]) {
				o = p.canon(o)
				if nilConst(o) {
					continue
				}
				good := false
				why := describe(o)
				var call *ssa.Call
				if e, isE := o.(*ssa.Extract); isE {
					call, _ = e.Tuple.(*ssa.Call)
				}
				if cc, isC := o.(*ssa.Call); isC {
					call = cc
				}
				if call != nil && calleeName(call) == "(*Conn).Dial" {
					// the constructor closure reads all four resolution fields
					read := map[string]bool{}
					for _, arg := range call.Common().Args {
						if mc, isMC := p.canon(unwrap(p.canon(arg))).(*ssa.MakeClosure); isMC {
							for _, f := range withClosures(mc.Fn.(*ssa.Function)) {
								eachInstr(f, func(x ssa.Instruction) {
									if v, isV := x.(ssa.Value); isV {
										if fr, _, okf := fieldOfLoad(v); okf && fr.Struct == "Options" {
											read[fr.Field] = true
										}
									}
								})
							}
						}
					}
					good = read["Codec"] && read["NewCodec"] && read["HeaderEncoder"] && read["NewHeaderEncoder"]
					if !good {
						why = "a Dial whose codec constructor does not read Options.Codec/NewCodec/HeaderEncoder/NewHeaderEncoder"
					}
				}
				c.Ob(rule, "DialWithOptions#returned connection went through option resolution", p.InstrPos(in), good, ifs(!good, "DialWithOptions returns a connection from "+why+": some options (header encoder, buffer size) are silently dropped on that path while the server still honours them — the two ends speak different wire formats"))
			}
		})
	}
	if do := p.Fn("DefaultOptions"); do == nil {
		c.Undecided(rule, "DefaultOptions not found")
	} else {
		ok := true
		what := ""
		for _, f := range []string{"Network", "Codec", "HeaderEncoder"} {
			for _, st := range p.fieldStoresIn(do, "Options", f) {
				if k, isK := st.Val.(*ssa.Const); !isK || constStr(k) != `""` {
					ok = false
					what = f
				}
			}
		}
		c.Ob(rule, "DefaultOptions#no pre-filled names", do.Pos(), ok, ifs(!ok, "DefaultOptions pre-fills Options."+what+": a registered name wins over a constructor, so a constructor the user sets on top of the defaults is silently ignored on this end but honoured on an end configured without the defaults"))
	}
}

// ruleWaiterPool (C18): a waiter's channel is drained before it is pooled, and the candidate
// live-address list is not built inside the list it is compared with.
func ruleWaiterPool(c *Check, a *Analysis, rule string) {
	p := c.P
	if _, ok := c.rules[rule]; !ok {
		c.Rule(rule, "waiter recycling", 1)
	}
	sc := siteCounter{}
	for _, fn := range p.Fns {
		if recvName(topParent(fn)) != "Client" {
			continue
		}
		for _, put := range callsIn(fn, "(*sync.Pool).Put") {
			if !isLoadOfAddr(p, put.Common().Args[0], "Client", "donePool") {
				continue
			}
			ch := p.canon(unwrap(put.Common().Args[1]))
			drained := false
			for _, rs := range callsIn(fn, "resetWaiterDone") {
				if p.canon(rs.Common().Args[0]) == ch && p.dominatesInstr(rs.(ssa.Instruction), put.(ssa.Instruction)) {
					drained = true
				}
			}
			c.Ob(rule, sc.key(fn, "Done channel drained before pooling"), p.InstrPos(put), drained, ifs(!drained, "a waiter's Done channel goes back to the pool without being drained: a wake-up token that arrived together with the timeout stays in it and releases the next caller that parks on it at once (it fails with ErrDial, or is routed during a Fallback pause)"))
		}
	}
	// check(): the freshly collected address list must not alias Client.last
	for _, fn := range p.Fns {
		if recvName(topParent(fn)) != "Client" {
			continue
		}
		for _, st := range p.fieldStoresIn(fn, "Client", "last") {
			alias := false
			var walk func(v ssa.Value, d int)
			walk = func(v ssa.Value, d int) {
				if d == 0 || v == nil {
					return
				}
				for _, o := range p.origins(v) {
					o = p.canon(o)
					switch x := o.(type) {
					case *ssa.Slice:
						if isLoadOf(p.canon(x.X), "Client", "last") {
							alias = true
						}
						walk(x.X, d-1)
					case *ssa.Call:
						if calleeName(x) == "builtin append" {
							walk(x.Call.Args[0], d-1)
						}
					}
				}
			}
			walk(st.Val, 6)
			c.Ob(rule, sc.key(fn, "new address list does not alias Client.last"), p.InstrPos(st), !alias, ifs(alias, "the list of live addresses is collected into the backing array of Client.last and then compared with it: a change that keeps the number of live targets is not noticed, dead targets keep receiving calls and recovered ones are never used"))
		}
	}
}

func isLoadOfAddr(p *Prog, v ssa.Value, st, field string) bool {
	if fr, _, ok := fieldOfAddr(v); ok && fr.Struct == st && fr.Field == field {
		return true
	}
	return isLoadOf(p.canon(v), st, field)
}

// ruleMarkDeadExact (C14/C19): only ErrShutdown retires a pooled connection.
func ruleMarkDeadExact(c *Check, a *Analysis, rule string) {
	p := c.P
	if _, ok := c.rules[rule]; !ok {
		c.Rule(rule, "a pooled connection is marked dead (and closed) only when the error is ErrShutdown", 1)
	}
	chk := p.Fn("checkPersistConnErr")
	if chk == nil {
		return
	}
	isShut := func(cond ssa.Value) (bool, bool) {
		b, ok := cond.(*ssa.BinOp)
		if !ok || (b.Op != token.EQL && b.Op != token.NEQ) {
			return false, false
		}
		if isGlobalLoad(b.X, "ErrShutdown") || isGlobalLoad(b.Y, "ErrShutdown") {
			return true, b.Op == token.EQL
		}
		return false, false
	}
	sc := siteCounter{}
	for _, st := range p.fieldStoresIn(chk, "persistConn", "alive") {
		if k, isK := st.Val.(*ssa.Const); !isK || constStr(k) != "false" {
			continue
		}
		g, _ := p.guardedBy(st, isShut)
		c.Ob(rule, sc.key(chk, "alive=false only for ErrShutdown"), p.InstrPos(st), g, ifs(!g, "a pooled connection is marked dead and closed for an error other than ErrShutdown (for instance a call's own context deadline): every other call in flight on the shared connection fails with it"))
	}
}

// ruleAcceptExit (C20): an Accept error always ends the accept loop.
func ruleAcceptExit(c *Check, a *Analysis, rule string) {
	p := c.P
	if _, ok := c.rules[rule]; !ok {
		c.Rule(rule, "accept loop exit", 1)
	}
	lis := p.Fn("(*Server).listen")
	if lis == nil {
		return
	}
	sc := siteCounter{}
	for _, f := range withClosures(lis) {
		for _, ac := range invokesIn(f, "socket.Listener", "Accept") {
			call, ok := ac.(*ssa.Call)
			if !ok {
				continue
			}
			errEdges, n := p.guardEdges(f, negate(matchErrOf(p, call)))
			if n == 0 {
				c.Ob(rule, sc.key(f, "Accept error ends the loop"), p.InstrPos(call), false, "the error of Accept is never tested")
				continue
			}
			for e := range errEdges {
				_, tr, loops := p.reachFromBlock(f, e.to, func(x ssa.Instruction) bool { return x == ssa.Instruction(call) }, nil, nil)
				c.Ob(rule, sc.key(f, "Accept error ends the loop"), p.InstrPos(e.to.Instrs[0]), !loops, ifs(loops, "after a failed Accept the loop can call Accept again ("+p.lineTrail(tr)+"): a listener whose closure is reported by an error the loop tolerates never lets Listen return — Server.Close hangs the accept goroutine (busy-looping) and the deferred clean-up of accepted connections never runs"))
			}
		}
	}
}

// ruleRefusalValue (C14): a connection that has shut down refuses with the ErrShutdown value itself.
func ruleRefusalValue(c *Check, a *Analysis, rule string) {
	p := c.P
	if _, ok := c.rules[rule]; !ok {
		c.Rule(rule, "refusal value", 1)
	}
	sd := p.Fn("(*Conn).send")
	if sd == nil {
		return
	}
	sc := siteCounter{}
	refuse := func(cond ssa.Value) (bool, bool) {
		if isLoadOf(p.canon(cond), "Conn", "shutdown") || isLoadOf(p.canon(cond), "Conn", "closing") {
			return true, true
		}
		return false, false
	}
	edges, n := p.guardEdges(sd, refuse)
	if n == 0 {
		c.Ob(rule, sc.key(sd, "refusal stores ErrShutdown"), sd.Pos(), false, "send does not test Conn.shutdown / Conn.closing")
		return
	}
	for _, st := range p.fieldStoresIn(sd, "Call", "Error") {
		onRefusal := false
		for e := range edges {
			if _, _, found := p.reachFromBlock(sd, e.to, func(x ssa.Instruction) bool { return x == ssa.Instruction(st) }, func(x ssa.Instruction) bool {
				op, ok := lockOpOf(x)
				return ok && op.acquire
			}, nil); found {
				onRefusal = true
			}
		}
		if !onRefusal {
			continue
		}
		ok := isGlobalLoad(p.canon(st.Val), "ErrShutdown")
		c.Ob(rule, sc.key(sd, "refusal stores ErrShutdown"), p.InstrPos(st), ok, ifs(!ok, "a call refused by a shut-down connection is given "+describe(st.Val)+" instead of the ErrShutdown value: the Transport recognises a dead pooled connection only by that value, so the connection is handed out for ever"))
	}
}

// ruleFailedOpenUnregisters (C15/C03): a stream open that fails leaves nothing registered.
func ruleFailedOpenUnregisters(c *Check, a *Analysis, rule string) {
	p := c.P
	if _, ok := c.rules[rule]; !ok {
		c.Rule(rule, "failed stream open", 1)
	}
	ns := p.Fn("(*Conn).NewStream")
	if ns == nil {
		return
	}
	// the error of the open call: a load of Call.Error tested against nil
	edges, n := p.guardEdges(ns, func(cond ssa.Value) (bool, bool) {
		b, ok := cond.(*ssa.BinOp)
		if !ok || (b.Op != token.EQL && b.Op != token.NEQ) {
			return false, false
		}
		x, y := b.X, b.Y
		if nilConst(x) {
			x, y = y, x
		}
		if !nilConst(y) {
			return false, false
		}
		for _, o := range p.origins(x) {
			if isLoadOf(p.canon(o), "Call", "Error") {
				return true, b.Op == token.NEQ
			}
		}
		return false, false
	})
	if n == 0 {
		c.Ob(rule, "(*Conn).NewStream#failed open is unregistered", ns.Pos(), false, "NewStream does not test the error of the open call")
		return
	}
	for e := range edges {
		_, tr, miss := p.reachFromBlock(ns, e.to, isReturnLike, func(x ssa.Instruction) bool {
			return isCallTo(x, "(*stream).Close") || isCallTo(x, "(*Conn).closeStream")
		}, nil)
		c.Ob(rule, "(*Conn).NewStream#failed open is unregistered", p.InstrPos(e.to.Instrs[0]), !miss, ifs(miss, "a rejected stream open returns without the close round trip that removes its entries from Conn.pending and Conn.streams ("+p.lineTrail(tr)+"): NumCalls stays non-zero for ever and housekeeping never retires or closes the otherwise unused connection"))
	}
}

// ---- F12: a one-worker queue is closed only once it is idle.
//
// scheduler.Close() runs the tasks that are still queued in the CALLER's goroutine while the
// queue's worker may still be executing an earlier task: closing a queue that is not idle runs
// its tasks concurrently with, and ahead of, the running one. For the queues that are fed by a
// connection's reader this breaks the one-at-a-time, in-order guarantee at the end of the
// connection and lets two decode tasks touch the per-connection stream table at once.

// barrierBefore: before `at`, on every path, a barrier task was queued on q and awaited:
// q.Schedule(func() { close(ch) / ch <- … }) followed by <-ch.
func barrierBefore(p *Prog, fn *ssa.Function, q ssa.Value, at ssa.Instruction) bool {
	// the receives that await a barrier task queued on q
	awaits := map[ssa.Instruction]bool{}
	eachInstr(fn, func(in ssa.Instruction) {
		cc, ok := in.(*ssa.Call)
		if !ok || !cc.Common().IsInvoke() || cc.Common().Method.Name() != "Schedule" || !sameQueue(p, cc.Common().Value, q) {
			return
		}
		mc, ok := p.canon(unwrap(cc.Common().Args[0])).(*ssa.MakeClosure)
		if !ok {
			return
		}
		var chans []ssa.Value
		eachInstr(mc.Fn.(*ssa.Function), func(x ssa.Instruction) {
			switch y := x.(type) {
			case *ssa.Call:
				if calleeName(y) == "builtin close" {
					chans = append(chans, p.canon(y.Call.Args[0]))
				}
			case *ssa.Send:
				chans = append(chans, p.canon(y.Chan))
			}
		})
		eachInstr(fn, func(x ssa.Instruction) {
			u, ok := x.(*ssa.UnOp)
			if !ok || u.Op != token.ARROW {
				return
			}
			for _, ch := range chans {
				if p.canon(u.X) == ch && p.dominatesInstr(in, x) {
					awaits[x] = true
				}
			}
		})
	})
	if len(awaits) == 0 {
		return false
	}
	// every path from the entry to `at` on which the queue exists passes such a receive
	cut := map[edge]bool{}
	if fr, _, isF := fieldOfLoad(p.canon(q)); isF {
		cut, _ = p.guardEdges(fn, matchFieldNilAny(p, fr.Field))
	}
	_, _, reach := p.reachCut(fn, nil, func(x ssa.Instruction) bool { return x == at }, func(x ssa.Instruction) bool { return awaits[x] }, cut)
	return !reach
}

func ruleQuiesceBeforeClose(c *Check, a *Analysis, rule string) {
	p := c.P
	c.Rule(rule, "a one-worker queue fed by a connection's reader (the decode queue of ServeCodec, of the poll-mode callback and of the client reader; the client's completion queue and stream queue) is closed — and the client's terminal sweep is run — only after a barrier task queued on it has been awaited: scheduler.Close runs the still-queued tasks in the caller, concurrently with and ahead of the task its worker is executing", 5)
	sc := siteCounter{}
	n := 0
	check := func(fn *ssa.Function, q ssa.Value, at ssa.Instruction, what string) {
		n++
		ok := barrierBefore(p, fn, q, at)
		// a queue that exists only in some modes: the nil edge needs no barrier
		if !ok {
			if fr, _, isF := fieldOfLoad(p.canon(q)); isF {
				if g, _ := p.guardedBy(at, matchFieldNilAny(p, fr.Field)); g {
					ok = true
				}
			}
		}
		c.Ob(rule, sc.key(fn, what+": barrier awaited before Close"), p.InstrPos(at), ok, ifs(!ok, what+" is closed while tasks may still be queued behind the one its worker is running: Close runs them in this goroutine at the same time — requests of a pipelined connection execute concurrently and out of order, two decode tasks race on the connection's stream table (fatal 'concurrent map writes'), completions are signalled out of order"))
	}
	// server: decode queues
	for _, fn := range p.Fns {
		if !strings.HasPrefix(fname(topParent(fn)), "(*Server).") {
			continue
		}
		var q ssa.Value
		for _, ev := range eventsOf(fn, "(*Server).ServeRequest") {
			if cc, ok := ev.(*ssa.Call); ok && cc.Common().IsInvoke() && cc.Common().Method.Name() == "Schedule" {
				q = p.canon(cc.Common().Value)
			}
		}
		if q == nil {
			continue
		}
		// the Close of that queue, wherever in the family of the top-level function it is
		for _, f := range withClosures(topParent(fn)) {
			eachInstr(f, func(in ssa.Instruction) {
				cc, ok := in.(*ssa.Call)
				if !ok || !cc.Common().IsInvoke() || cc.Common().Method.Name() != "Close" || !sameQueue(p, cc.Common().Value, q) {
					return
				}
				if in.Parent() != f && !p.isPlainHelper(in.Parent()) {
					return
				}
				check(f, cc.Common().Value, in, "the server's decode queue")
			})
		}
	}
	// client reader
	var recv *ssa.Function
	for _, s := range p.storesToField("Conn", "shutdown") {
		recv = s.Fn
	}
	if recv == nil {
		c.Undecided(rule, "client reader not found")
		return
	}
	var q ssa.Value
	for _, ev := range eventsOf(recv, "(*Conn).read") {
		if cc, ok := ev.(*ssa.Call); ok && cc.Common().IsInvoke() && cc.Common().Method.Name() == "Schedule" {
			q = p.canon(cc.Common().Value)
		}
	}
	if q == nil {
		c.Undecided(rule, "the client reader's decode queue was not identified")
	} else {
		eachInstr(recv, func(in ssa.Instruction) {
			cc, ok := in.(*ssa.Call)
			if ok && cc.Common().IsInvoke() && cc.Common().Method.Name() == "Close" && sameQueue(p, cc.Common().Value, q) {
				check(recv, cc.Common().Value, in, "the client reader's decode queue")
			}
		})
	}
	for _, f := range []string{"readSched", "readStream"} {
		eachInstr(recv, func(in ssa.Instruction) {
			cc, ok := in.(*ssa.Call)
			if ok && cc.Common().IsInvoke() && cc.Common().Method.Name() == "Close" && isLoadOf(p.canon(cc.Common().Value), "Conn", f) {
				check(recv, cc.Common().Value, in, "Conn."+f)
			}
		})
	}
	if n < 5 {
		c.Undecided(rule, "expected five reader-fed queues closed at connection end (two server decode queues, the client's decode, completion and stream queues)")
	}
}
