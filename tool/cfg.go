package main

// Instruction-level control-flow queries over go/ssa blocks. All queries are
// over *all* CFG paths of one function (loops included); none of them
// enumerates paths. Paths are pruned by "register facts": an SSA register
// never changes after its definition, so once a path has taken the branch
// `v == c` one way, a later test of the same register against the same
// constant (the correlated-test idiom: `call != nil` under the lock, then
// `case call == nil`; boolean flags such as isStreaming) can only go the same
// way. Facts about a register are dropped when the path re-enters the block
// that defines it (loops). Pruning removes only infeasible paths.

import (
	"fmt"
	"go/token"
	"sort"
	"strings"

	"golang.org/x/tools/go/ssa"
)

type ipred func(ssa.Instruction) bool

func never(ssa.Instruction) bool { return false }

func isReturnLike(in ssa.Instruction) bool {
	_, ok := in.(*ssa.Return)
	return ok
}

type factKey struct {
	v ssa.Value
	c string
}

type facts map[factKey]bool

func (f facts) clone() facts {
	c := facts{}
	for k, v := range f {
		c[k] = v
	}
	return c
}

func (f facts) sig() string {
	if len(f) == 0 {
		return ""
	}
	s := make([]string, 0, len(f))
	for k, v := range f {
		s = append(s, fmt.Sprintf("%s=%s:%v", k.v.Name(), k.c, v))
	}
	sort.Strings(s)
	return strings.Join(s, ";")
}

func constStr(c *ssa.Const) string {
	if c.Value == nil {
		return "nil"
	}
	return c.Value.ExactString()
}

// condFact decodes a branch condition as "register == const". eq tells
// whether the condition being true means equality (false: inequality).
func (p *Prog) condFact(cond ssa.Value) (factKey, bool, bool) {
	cond, neg := stripNot(cond)
	cond = p.canon(cond)
	if c2, n2 := stripNot(cond); n2 {
		cond, neg = p.canon(c2), !neg
	}
	if b, ok := cond.(*ssa.BinOp); ok {
		x, y := b.X, b.Y
		op := b.Op
		if _, ok := x.(*ssa.Const); ok {
			x, y = y, x
			switch op {
			case token.LSS:
				op = token.GTR
			case token.GTR:
				op = token.LSS
			case token.LEQ:
				op = token.GEQ
			case token.GEQ:
				op = token.LEQ
			}
		}
		if c, ok := y.(*ssa.Const); ok {
			if _, isC := x.(*ssa.Const); !isC {
				x = p.canon(x)
				// len(v) compared with 0/1: canonical fact "len(v)==0"
				if lc, ok := x.(*ssa.Call); ok && calleeName(lc) == "builtin len" {
					if k, isInt := constInt(c); isInt {
						arg := p.canon(lc.Call.Args[0])
						var isZero, okz bool // isZero: cond true means len==0
						switch {
						case op == token.EQL && k == 0, op == token.LEQ && k == 0, op == token.LSS && k == 1:
							isZero, okz = true, true
						case op == token.NEQ && k == 0, op == token.GTR && k == 0, op == token.GEQ && k == 1:
							isZero, okz = false, true
						}
						if okz {
							if neg {
								isZero = !isZero
							}
							return factKey{arg, "len0"}, isZero, true
						}
					}
				}
				if op == token.EQL || op == token.NEQ {
					eq := op == token.EQL
					if neg {
						eq = !eq
					}
					return factKey{x, constStr(c)}, eq, true
				}
			}
		}
	}
	if _, isConst := cond.(*ssa.Const); isConst {
		return factKey{}, false, false
	}
	// a boolean register used directly
	return factKey{cond, "true"}, !neg, true
}

func definedIn(v ssa.Value, b *ssa.BasicBlock) bool {
	if in, ok := v.(ssa.Instruction); ok {
		return in.Block() == b
	}
	return false
}

// enterBlock computes the facts holding at the start of block `to` when
// arriving from `from`.
func enterBlock(f facts, from, to *ssa.BasicBlock) facts {
	n := facts{}
	for k, v := range f {
		if !definedIn(k.v, to) {
			n[k] = v
		}
	}
	pi := -1
	for i, p := range to.Preds {
		if p == from {
			pi = i
			break
		}
	}
	if pi < 0 {
		return n
	}
	for _, in := range to.Instrs {
		phi, ok := in.(*ssa.Phi)
		if !ok {
			break
		}
		e := phi.Edges[pi]
		if c, ok := e.(*ssa.Const); ok {
			if c.Value != nil && c.Value.Kind().String() == "Bool" {
				n[factKey{phi, "true"}] = constStr(c) == "true"
			} else {
				n[factKey{phi, constStr(c)}] = true
			}
			continue
		}
		for k, v := range f {
			if k.v == e {
				n[factKey{phi, k.c}] = v
			}
		}
	}
	return n
}

// branchSuccs returns the successors of b that are consistent with f, together
// with the facts established on each edge.
func (p *Prog) branchSuccs(b *ssa.BasicBlock, f facts) ([]*ssa.BasicBlock, []facts) {
	if len(b.Instrs) == 0 {
		return nil, nil
	}
	iff, ok := b.Instrs[len(b.Instrs)-1].(*ssa.If)
	if !ok {
		fs := make([]facts, len(b.Succs))
		for i := range fs {
			fs[i] = f
		}
		return b.Succs, fs
	}
	if c, ok := iff.Cond.(*ssa.Const); ok {
		if constStr(c) == "true" {
			return b.Succs[:1], []facts{f}
		}
		return b.Succs[1:2], []facts{f}
	}
	k, eq, ok := p.condFact(iff.Cond)
	if !ok {
		return b.Succs, []facts{f, f}
	}
	if known, have := f[k]; have {
		// condition true iff (known == eq)
		if known == eq {
			return b.Succs[:1], []facts{f}
		}
		return b.Succs[1:2], []facts{f}
	}
	ft := f.clone()
	ft[k] = eq
	ff := f.clone()
	ff[k] = !eq
	return b.Succs, []facts{ft, ff}
}

const maxStates = 40000

// reachFrom reports whether some feasible CFG path that starts immediately
// after `from` (or at the function entry when from == nil) reaches an
// instruction satisfying target without first executing an instruction
// satisfying avoid. target is tested before avoid. cut edges are never taken.
func (p *Prog) reachCut(fn *ssa.Function, from ssa.Instruction, target, avoid ipred, cut map[edge]bool) (ssa.Instruction, []*ssa.BasicBlock, bool) {
	return p.reachGen(fn, from, nil, target, avoid, cut)
}

// reachFromBlock starts the search at the first instruction of block b.
func (p *Prog) reachFromBlock(fn *ssa.Function, b *ssa.BasicBlock, target, avoid ipred, cut map[edge]bool) (ssa.Instruction, []*ssa.BasicBlock, bool) {
	return p.reachGen(fn, nil, b, target, avoid, cut)
}

func (p *Prog) reachGen(fn *ssa.Function, from ssa.Instruction, startBlock *ssa.BasicBlock, target, avoid ipred, cut map[edge]bool) (ssa.Instruction, []*ssa.BasicBlock, bool) {
	if avoid == nil {
		avoid = never
	}
	if len(fn.Blocks) == 0 {
		return nil, nil, false
	}
	type state struct {
		b      *ssa.BasicBlock
		i      int
		f      facts
		parent *state
	}
	var st *state
	if startBlock != nil {
		st = &state{b: startBlock, f: facts{}}
		if len(startBlock.Instrs) > 0 {
			st.f = p.factsAt(startBlock.Instrs[0])
		}
	} else if from == nil {
		st = &state{b: fn.Blocks[0], f: facts{}}
	} else {
		st = &state{b: from.Block(), i: p.idx[from] + 1, f: p.factsAt(from)}
	}
	trail := func(s *state) []*ssa.BasicBlock {
		var out []*ssa.BasicBlock
		for x := s; x != nil; x = x.parent {
			out = append([]*ssa.BasicBlock{x.b}, out...)
		}
		return out
	}
	seen := map[string]bool{}
	queue := []*state{st}
	n := 0
	for len(queue) > 0 {
		s := queue[0]
		queue = queue[1:]
		blocked := false
		for i := s.i; i < len(s.b.Instrs); i++ {
			in := s.b.Instrs[i]
			p.curFacts = s.f
			if target(in) {
				return in, trail(s), true
			}
			if avoid(in) {
				blocked = true
				break
			}
		}
		if blocked {
			continue
		}
		succs, fs := p.branchSuccs(s.b, s.f)
		for j, sb := range succs {
			if cut[edge{s.b, sb}] {
				continue
			}
			nf := enterBlock(fs[j], s.b, sb)
			key := fmt.Sprintf("%d|%s", sb.Index, nf.sig())
			if n > maxStates {
				key = fmt.Sprintf("%d|", sb.Index)
				nf = facts{}
			}
			if seen[key] {
				continue
			}
			seen[key] = true
			n++
			queue = append(queue, &state{b: sb, f: nf, parent: s})
		}
	}
	return nil, nil, false
}

// factsAt returns the facts that hold on EVERY path from the entry to in
// because of dominating branches (used to seed a query that starts in the
// middle of a function).
func (p *Prog) factsAt(in ssa.Instruction) facts {
	f := facts{}
	b := in.Block()
	// walk the dominator chain: if idom ends in an If and exactly one successor
	// dominates b (and that successor has the idom as its only predecessor),
	// the corresponding fact holds.
	for d := b; d != nil; d = d.Idom() {
		id := d.Idom()
		if id == nil {
			break
		}
		iff, ok := id.Instrs[len(id.Instrs)-1].(*ssa.If)
		if !ok {
			continue
		}
		k, eq, ok := p.condFact(iff.Cond)
		if !ok {
			continue
		}
		if definedInLoopWith(k.v, b) {
			continue
		}
		t, e := id.Succs[0], id.Succs[1]
		if t != e {
			if len(t.Preds) == 1 && t.Dominates(b) {
				if _, have := f[k]; !have {
					f[k] = eq
				}
			} else if len(e.Preds) == 1 && e.Dominates(b) {
				if _, have := f[k]; !have {
					f[k] = !eq
				}
			}
		}
	}
	return f
}

// definedInLoopWith is a conservative guard: a register defined in a block
// that can be re-entered from b (a loop containing both) may have been
// re-defined since the dominating test; this cannot happen because the
// dominating test would be re-executed too. Kept for clarity.
func definedInLoopWith(v ssa.Value, b *ssa.BasicBlock) bool { return false }

func (p *Prog) reachFrom(fn *ssa.Function, from ssa.Instruction, target, avoid ipred) (ssa.Instruction, []*ssa.BasicBlock, bool) {
	return p.reachCut(fn, from, target, avoid, nil)
}

// canReach: is `to` reachable from just after `from` avoiding avoid?
func (p *Prog) canReach(from, to ssa.Instruction, avoid ipred) bool {
	if from.Parent() != to.Parent() {
		return false
	}
	_, _, ok := p.reachFrom(from.Parent(), from, func(in ssa.Instruction) bool { return in == to }, avoid)
	return ok
}

// mustPass: every feasible path from just after `from` (or entry if nil) to a
// Return executes an instruction satisfying eff. Returns the offending exit
// and trail when violated.
func (p *Prog) mustPass(fn *ssa.Function, from ssa.Instruction, eff ipred) (ssa.Instruction, []*ssa.BasicBlock, bool) {
	w, tr, found := p.reachFrom(fn, from, isReturnLike, eff)
	return w, tr, !found
}

// edge identifies a CFG edge.
type edge struct{ from, to *ssa.BasicBlock }

// reachableCutting reports whether target is reachable from the function entry
// when the given edges are removed.
func (p *Prog) reachableCutting(fn *ssa.Function, target ssa.Instruction, cut map[edge]bool) bool {
	_, _, ok := p.reachCut(fn, nil, func(in ssa.Instruction) bool { return in == target }, nil, cut)
	return ok
}

// condMatch recognises a branch condition; holdsOnTrue tells on which edge the
// recognised predicate holds.
type condMatch func(cond ssa.Value) (matches bool, holdsOnTrue bool)

// guardEdges returns the edges of fn on which the predicate recognised by m
// holds, and the number of tests matched.
func (p *Prog) guardEdges(fn *ssa.Function, m condMatch) (map[edge]bool, int) {
	cut := map[edge]bool{}
	n := 0
	for _, b := range fn.Blocks {
		if len(b.Instrs) == 0 {
			continue
		}
		iff, ok := b.Instrs[len(b.Instrs)-1].(*ssa.If)
		if !ok {
			continue
		}
		cond, neg := stripNot(iff.Cond)
		ok, onTrue := m(cond)
		if !ok {
			continue
		}
		n++
		if neg {
			onTrue = !onTrue
		}
		if onTrue {
			cut[edge{b, b.Succs[0]}] = true
		} else {
			cut[edge{b, b.Succs[1]}] = true
		}
	}
	return cut, n
}

// guardedBy reports whether every entry→target path crosses an edge on which
// the predicate recognised by m holds. It returns the number of matching tests.
func (p *Prog) guardedBy(target ssa.Instruction, m condMatch) (bool, int) {
	fn := target.Parent()
	cut, n := p.guardEdges(fn, m)
	if n == 0 {
		return false, 0
	}
	return !p.reachableCutting(fn, target, cut), n
}

func stripNot(v ssa.Value) (ssa.Value, bool) {
	neg := false
	for {
		u, ok := v.(*ssa.UnOp)
		if !ok || u.Op != token.NOT {
			return v, neg
		}
		neg = !neg
		v = u.X
	}
}

// dominatesInstr reports whether a executes before b on every path to b.
func (p *Prog) dominatesInstr(a, b ssa.Instruction) bool {
	if a.Parent() != b.Parent() {
		return false
	}
	if a.Block() == b.Block() {
		return p.idx[a] < p.idx[b]
	}
	return a.Block().Dominates(b.Block())
}

// lineTrail renders a block trail as source positions.
func (p *Prog) lineTrail(tr []*ssa.BasicBlock) string {
	s := ""
	last := ""
	for _, b := range tr {
		for _, in := range b.Instrs {
			if in.Pos().IsValid() {
				l := p.Pos(in.Pos())
				if l != last {
					if s != "" {
						s += " -> "
					}
					s += l
					last = l
				}
				break
			}
		}
	}
	return s
}

// inLoop reports whether in lies on a CFG cycle of its function.
func (p *Prog) inLoop(in ssa.Instruction) bool {
	b := in.Block()
	seen := map[*ssa.BasicBlock]bool{}
	queue := append([]*ssa.BasicBlock{}, b.Succs...)
	for len(queue) > 0 {
		x := queue[0]
		queue = queue[1:]
		if x == b {
			return true
		}
		if seen[x] {
			continue
		}
		seen[x] = true
		queue = append(queue, x.Succs...)
	}
	return false
}

// viaCallee lifts an effect predicate across static calls: an instruction
// performs the effect if it satisfies eff itself, or is a plain call to a
// package function on every entry→return path of which the effect is
// performed (recursively, depth ≤ 3). cutFor gives the infeasible edges to
// ignore inside a callee (may be nil).
func (p *Prog) viaCallee(eff ipred, cutFor func(fn *ssa.Function) map[edge]bool) ipred {
	memo := map[*ssa.Function]int{} // 1 in progress, 2 yes, 3 no
	var lifted ipred
	var must func(fn *ssa.Function, depth int) bool
	must = func(fn *ssa.Function, depth int) bool {
		if fn == nil || fn.Blocks == nil || fn.Pkg != p.RPC || depth > 3 {
			return false
		}
		switch memo[fn] {
		case 1, 3:
			return false
		case 2:
			return true
		}
		memo[fn] = 1
		var cut map[edge]bool
		if cutFor != nil {
			cut = cutFor(fn)
		}
		_, _, miss := p.reachCut(fn, nil, isReturnLike, lifted, cut)
		if miss {
			memo[fn] = 3
		} else {
			memo[fn] = 2
		}
		return !miss
	}
	lifted = func(in ssa.Instruction) bool {
		if eff(in) {
			return true
		}
		if c, ok := in.(*ssa.Call); ok {
			if cal := c.Common().StaticCallee(); cal != nil && cal.Pkg == p.RPC {
				return must(cal, 1)
			}
		}
		return false
	}
	return lifted
}
