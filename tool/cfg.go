package main

// Instruction-level control-flow queries over go/ssa blocks. All queries are
// over *all* CFG paths of one function (loops included); none of them
// enumerates paths. Paths are pruned by "register facts": an SSA register
// never changes after its definition, so once a path has taken the branch
// `v == c` one way, a later test of the same register against the same
// constant (the correlated-test idiom: `call != nil` under the lock, then
// `case call == nil`; boolean flags such as isStreaming) can only go the same
// way. Facts about a register are dropped when the path re-enters the block
// that defines it (loops). Pruning removes only infeasible paths.

import (
	"go/types"
	"strconv"
	"reflect"
	"fmt"
	"go/token"
	"sort"
	"strings"

	"golang.org/x/tools/go/ssa"
)

type ipred func(ssa.Instruction) bool

func never(ssa.Instruction) bool { return false }

func isReturnLike(in ssa.Instruction) bool {
	_, ok := in.(*ssa.Return)
	return ok
}

type factKey struct {
	v ssa.Value
	c string
}

type facts map[factKey]bool

func (f facts) clone() facts {
	c := facts{}
	for k, v := range f {
		c[k] = v
	}
	return c
}

func (f facts) sig() string {
	if len(f) == 0 {
		return ""
	}
	s := make([]string, 0, len(f))
	for k, v := range f {
		s = append(s, fmt.Sprintf("%s=%s:%v", k.v.Name(), k.c, v))
	}
	sort.Strings(s)
	return strings.Join(s, ";")
}

func constStr(c *ssa.Const) string {
	if c.Value == nil {
		return "nil"
	}
	return c.Value.ExactString()
}

// condFact decodes a branch condition as "register == const". eq tells
// whether the condition being true means equality (false: inequality).
func (p *Prog) condFact(cond ssa.Value) (factKey, bool, bool) {
	cond, neg := stripNot(cond)
	cond = p.canon(cond)
	if c2, n2 := stripNot(cond); n2 {
		cond, neg = p.canon(c2), !neg
	}
	if b, ok := cond.(*ssa.BinOp); ok {
		x, y := b.X, b.Y
		op := b.Op
		if _, ok := x.(*ssa.Const); ok {
			x, y = y, x
			switch op {
			case token.LSS:
				op = token.GTR
			case token.GTR:
				op = token.LSS
			case token.LEQ:
				op = token.GEQ
			case token.GEQ:
				op = token.LEQ
			}
		}
		if c, ok := y.(*ssa.Const); ok {
			if _, isC := x.(*ssa.Const); !isC {
				x = p.canon(x)
				// len(v) compared with 0/1: canonical fact "len(v)==0"
				if lc, ok := x.(*ssa.Call); ok && calleeName(lc) == "builtin len" {
					if k, isInt := constInt(c); isInt {
						arg := p.canon(lc.Call.Args[0])
						var isZero, okz bool // isZero: cond true means len==0
						switch {
						case op == token.EQL && k == 0, op == token.LEQ && k == 0, op == token.LSS && k == 1:
							isZero, okz = true, true
						case op == token.NEQ && k == 0, op == token.GTR && k == 0, op == token.GEQ && k == 1:
							isZero, okz = false, true
						}
						if okz {
							if neg {
								isZero = !isZero
							}
							return factKey{arg, "len0"}, isZero, true
						}
					}
				}
				if op == token.EQL || op == token.NEQ {
					eq := op == token.EQL
					if neg {
						eq = !eq
					}
					return factKey{x, constStr(c)}, eq, true
				}
			}
		}
	}
	if _, isConst := cond.(*ssa.Const); isConst {
		return factKey{}, false, false
	}
	// a boolean register used directly
	return factKey{cond, "true"}, !neg, true
}

func definedIn(v ssa.Value, b *ssa.BasicBlock) bool {
	if in, ok := v.(ssa.Instruction); ok {
		return in.Block() == b
	}
	return false
}

// enterBlock computes the facts holding at the start of block `to` when
// arriving from `from`.
func enterBlock(f facts, from, to *ssa.BasicBlock) facts {
	n := facts{}
	for k, v := range f {
		if !definedIn(k.v, to) {
			n[k] = v
		}
	}
	pi := -1
	for i, p := range to.Preds {
		if p == from {
			pi = i
			break
		}
	}
	if pi < 0 {
		return n
	}
	for _, in := range to.Instrs {
		phi, ok := in.(*ssa.Phi)
		if !ok {
			break
		}
		e := phi.Edges[pi]
		if c, ok := e.(*ssa.Const); ok {
			if c.Value != nil && c.Value.Kind().String() == "Bool" {
				n[factKey{phi, "true"}] = constStr(c) == "true"
			} else {
				n[factKey{phi, constStr(c)}] = true
			}
			continue
		}
		for k, v := range f {
			if k.v == e {
				n[factKey{phi, k.c}] = v
			}
		}
	}
	return n
}

// branchSuccs returns the successors of b that are consistent with f, together
// with the facts established on each edge.
func (p *Prog) branchSuccs(b *ssa.BasicBlock, f facts) ([]*ssa.BasicBlock, []facts) {
	if len(b.Instrs) == 0 {
		return nil, nil
	}
	iff, ok := b.Instrs[len(b.Instrs)-1].(*ssa.If)
	if !ok {
		fs := make([]facts, len(b.Succs))
		for i := range fs {
			fs[i] = f
		}
		return b.Succs, fs
	}
	if c, ok := iff.Cond.(*ssa.Const); ok {
		if constStr(c) == "true" {
			return b.Succs[:1], []facts{f}
		}
		return b.Succs[1:2], []facts{f}
	}
	// `i < len(lit)` with i known on this path and lit a slice literal of known length (a counted
	// loop over `[]T{a, b}` runs at least once)
	if bo, isB := iff.Cond.(*ssa.BinOp); isB && bo.Op == token.LSS {
		if n, okN := literalLen(bo.Y); okN {
			x := bo.X
			var add int64
			if ab, isAdd := x.(*ssa.BinOp); isAdd && ab.Op == token.ADD {
				if k, isK := constInt(ab.Y); isK {
					x, add = ab.X, k
				}
			}
			for fk, v := range f {
				if v && fk.v == x {
					if c, err := strconv.ParseInt(fk.c, 10, 64); err == nil {
						c += add
						if c < n {
							return b.Succs[:1], []facts{f}
						}
						return b.Succs[1:2], []facts{f}
					}
				}
			}
		}
	}
	k, eq, ok := p.condFact(iff.Cond)
	if !ok {
		return b.Succs, []facts{f, f}
	}
	if known, have := f[k]; have {
		// condition true iff (known == eq)
		if known == eq {
			return b.Succs[:1], []facts{f}
		}
		return b.Succs[1:2], []facts{f}
	}
	ft := f.clone()
	ft[k] = eq
	ff := f.clone()
	ff[k] = !eq
	return b.Succs, []facts{ft, ff}
}

const maxStates = 40000

// reachFrom reports whether some feasible CFG path that starts immediately
// after `from` (or at the function entry when from == nil) reaches an
// instruction satisfying target without first executing an instruction
// satisfying avoid. target is tested before avoid. cut edges are never taken.
func (p *Prog) reachCut(fn *ssa.Function, from ssa.Instruction, target, avoid ipred, cut map[edge]bool) (ssa.Instruction, []*ssa.BasicBlock, bool) {
	return p.reachGen(fn, from, nil, target, avoid, cut)
}

// reachFromBlock starts the search at the first instruction of block b.
func (p *Prog) reachFromBlock(fn *ssa.Function, b *ssa.BasicBlock, target, avoid ipred, cut map[edge]bool) (ssa.Instruction, []*ssa.BasicBlock, bool) {
	return p.reachGen(fn, nil, b, target, avoid, cut)
}

func (p *Prog) reachGen(fn *ssa.Function, from ssa.Instruction, startBlock *ssa.BasicBlock, target, avoid ipred, cut map[edge]bool) (ssa.Instruction, []*ssa.BasicBlock, bool) {
	if avoid == nil {
		avoid = never
	}
	if len(fn.Blocks) == 0 {
		return nil, nil, false
	}
	type frame struct {
		call ssa.CallInstruction // the call being explored (nil for a closure entered through a parameter)
		b    *ssa.BasicBlock // block of the call in the caller
		i    int             // index at which to resume
		fn   *ssa.Function   // the callee being explored
		next *frame
		dep  int
		sig  string
		bind map[*ssa.Parameter]ssa.Value // the helper's parameters as passed on this call chain
	}
	dyn := p.cutMatchersOf(cut)
	savedBind := p.bind
	defer func() { p.bind = savedBind }()
	type state struct {
		b      *ssa.BasicBlock
		i      int
		f      facts
		parent *state
		stack  *frame
	}
	var st *state
	if startBlock != nil {
		st = &state{b: startBlock, f: facts{}}
		if len(startBlock.Instrs) > 0 {
			st.f = p.factsAt(startBlock.Instrs[0])
		}
	} else if from == nil {
		st = &state{b: fn.Blocks[0], f: facts{}}
	} else {
		st = &state{b: from.Block(), i: p.idx[from] + 1, f: p.factsAt(from)}
	}
	trail := func(s *state) []*ssa.BasicBlock {
		var out []*ssa.BasicBlock
		for x := s; x != nil; x = x.parent {
			out = append([]*ssa.BasicBlock{x.b}, out...)
		}
		return out
	}
	sigOf := func(fr *frame) string {
		if fr == nil {
			return ""
		}
		return fr.sig
	}
	seen := map[string]bool{}
	queue := []*state{st}
	n := 0
	for len(queue) > 0 {
		s := queue[0]
		queue = queue[1:]
		blocked := false
		for i := s.i; i < len(s.b.Instrs); i++ {
			in := s.b.Instrs[i]
			p.curFacts = s.f
			p.bind = nil
			if s.stack != nil {
				p.bind = s.stack.bind
			}
			if _, isRet := in.(*ssa.Return); isRet && s.stack != nil {
				// return from a helper explored in line: resume in the caller
				fr := s.stack
				rf := s.f
				// a helper that reports what it did: the caller's test of the result is decided by
				// which return was taken
				if ret := in.(*ssa.Return); len(ret.Results) == 1 && fr.call != nil && fr.call.Value() != nil {
					rv := ret.Results[0]
					if ld, isLd := rv.(*ssa.UnOp); isLd && ld.Op == token.MUL {
						// a function with a defer returns through a result cell
						if cell, isA := ld.X.(*ssa.Alloc); isA {
							if rs, okR := p.reachingStores(ld, cell); okR && len(rs) == 1 {
								rv = rs[0]
							}
						}
					}
					if cst, isC := rv.(*ssa.Const); isC && cst.Value != nil && cst.Value.Kind().String() == "Bool" {
						rf = s.f.clone()
						rf[factKey{fr.call.Value(), "true"}] = constStr(cst) == "true"
					}
				}
				key := fmt.Sprintf("%s>%p|%d|%d|%s", sigOf(fr.next), fr.b.Parent(), fr.b.Index, fr.i, rf.sig())
				if !seen[key] {
					seen[key] = true
					n++
					queue = append(queue, &state{b: fr.b, i: fr.i, f: rf, parent: s, stack: fr.next})
				}
				blocked = true
				break
			}
			if _, isRet := in.(*ssa.Return); isRet && s.stack == nil && !p.noDescend && p.isPlainHelper(in.Parent()) {
				// the search started inside a helper that is analysed as in-line code: its
				// return is not an exit, the path goes on behind every call of the helper
				pcs := p.plainCallers(in.Parent())
				// a query about fn follows the helper back into fn only (when fn calls it at all)
				var own []*ssa.Call
				for _, cs := range pcs {
					if topParent(cs.Parent()) == topParent(fn) || p.sameFn(topParent(cs.Parent()), topParent(fn)) {
						own = append(own, cs)
					}
				}
				if len(own) > 0 && in.Parent() != fn {
					pcs = own
				}
				if len(p.plainCallers(in.Parent())) < len(p.callers[in.Parent()]) {
					// also started by go / defer: there the return is a real exit
					if target(in) {
						return in, trail(s), true
					}
				}
				for _, cs := range pcs {
					key := fmt.Sprintf("ret>%p|%s", cs, s.f.sig())
					if !seen[key] {
						seen[key] = true
						n++
						queue = append(queue, &state{b: cs.Block(), i: p.idx[cs] + 1, f: s.f, parent: s})
					}
				}
				blocked = true
				break
			}
			if target(in) {
				return in, trail(s), true
			}
			if avoid(in) {
				blocked = true
				break
			}
			if !p.noDescend && s.stack != nil {
				// a call of a func-typed parameter inside a helper explored in line: enter the closure
				// that this very call of the helper passed
				if dc, ok := in.(*ssa.Call); ok && !dc.Common().IsInvoke() {
					if prm, isP := dc.Common().Value.(*ssa.Parameter); isP {
						var cl *ssa.Function
						for fr := s.stack; fr != nil && cl == nil; fr = fr.next {
							if fr.call != nil && fr.fn == prm.Parent() {
								cl = p.closureArgs(fr.call, fr.fn)[prm]
								break
							}
						}
						if cl != nil && s.stack.dep < 4 {
							nf := &frame{b: s.b, i: i + 1, fn: cl, next: s.stack, dep: s.stack.dep + 1, bind: s.stack.bind}
							nf.sig = fmt.Sprintf("%s>%p:c", sigOf(s.stack), in)
							key := fmt.Sprintf("%s|enter|%s", nf.sig, s.f.sig())
							if !seen[key] {
								seen[key] = true
								n++
								queue = append(queue, &state{b: cl.Blocks[0], f: s.f, parent: s, stack: nf})
							}
							blocked = true
							break
						}
					}
				}
			}
			if !p.noDescend {
				if g := p.descendInto(in); g != nil {
					dep := 0
					onStack := g == fn
					for fr := s.stack; fr != nil; fr = fr.next {
						dep++
						if fr.fn == g {
							onStack = true
						}
					}
					if dep < 3 && !onStack {
						nf := &frame{call: in.(*ssa.Call), b: s.b, i: i + 1, fn: g, next: s.stack, dep: dep + 1}
						nf.sig = fmt.Sprintf("%s>%p:%d", sigOf(s.stack), in, dep)
						nf.bind = map[*ssa.Parameter]ssa.Value{}
						if s.stack != nil {
							for k, v := range s.stack.bind {
								nf.bind[k] = v
							}
						}
						for pi, prm := range g.Params {
							if as := in.(*ssa.Call).Common().Args; pi < len(as) {
								nf.bind[prm] = as[pi]
							}
						}
						// what the path knows about an argument it knows about the parameter
						ef := s.f
						if len(s.f) > 0 {
							args := in.(*ssa.Call).Common().Args
							for pi, prm := range g.Params {
								if pi >= len(args) {
									break
								}
								av := p.canon(args[pi])
								for k, v := range s.f {
									if k.v == av {
										if &ef == &s.f || len(ef) == len(s.f) {
											ef = s.f.clone()
										}
										ef[factKey{prm, k.c}] = v
									}
								}
							}
						}
						key := fmt.Sprintf("%s|enter|%s", nf.sig, ef.sig())
						if !seen[key] {
							seen[key] = true
							n++
							queue = append(queue, &state{b: g.Blocks[0], f: ef, parent: s, stack: nf})
						}
						blocked = true
						break
					}
				}
			}
		}
		if blocked {
			continue
		}
		succs, fs := p.branchSuccs(s.b, s.f)
		// inside a helper explored in line, the tests the cut was built from are read with
		// the helper's parameters standing for what this call chain passed
		var dynCut *ssa.BasicBlock
		if s.stack != nil && len(dyn) > 0 && len(s.stack.bind) > 0 {
			if iff, ok := s.b.Instrs[len(s.b.Instrs)-1].(*ssa.If); ok {
				p.bind = s.stack.bind
				cond, neg := stripNot(iff.Cond)
				for _, m := range dyn {
					if ok, onTrue := m(cond); ok {
						if neg {
							onTrue = !onTrue
						}
						if onTrue {
							dynCut = s.b.Succs[0]
						} else {
							dynCut = s.b.Succs[1]
						}
					}
				}
				p.bind = nil
			}
		}
		for j, sb := range succs {
			if cut[edge{s.b, sb}] || sb == dynCut {
				continue
			}
			nf := enterBlock(fs[j], s.b, sb)
			key := fmt.Sprintf("%s|%p|%d|%s", sigOf(s.stack), sb.Parent(), sb.Index, nf.sig())
			if n > maxStates {
				key = fmt.Sprintf("%s|%p|%d|", sigOf(s.stack), sb.Parent(), sb.Index)
				nf = facts{}
			}
			if seen[key] {
				continue
			}
			seen[key] = true
			n++
			queue = append(queue, &state{b: sb, f: nf, parent: s, stack: s.stack})
		}
	}
	return nil, nil, false
}

// factsAt returns the facts that hold on EVERY path from the entry to in
// because of dominating branches (used to seed a query that starts in the
// middle of a function).
func (p *Prog) factsAt(in ssa.Instruction) facts {
	f := facts{}
	b := in.Block()
	// walk the dominator chain: if idom ends in an If and exactly one successor
	// dominates b (and that successor has the idom as its only predecessor),
	// the corresponding fact holds.
	for d := b; d != nil; d = d.Idom() {
		id := d.Idom()
		if id == nil {
			break
		}
		iff, ok := id.Instrs[len(id.Instrs)-1].(*ssa.If)
		if !ok {
			continue
		}
		k, eq, ok := p.condFact(iff.Cond)
		if !ok {
			continue
		}
		if definedInLoopWith(k.v, b) {
			continue
		}
		t, e := id.Succs[0], id.Succs[1]
		if t != e {
			if len(t.Preds) == 1 && t.Dominates(b) {
				if _, have := f[k]; !have {
					f[k] = eq
				}
			} else if len(e.Preds) == 1 && e.Dominates(b) {
				if _, have := f[k]; !have {
					f[k] = !eq
				}
			}
		}
	}
	return f
}

// definedInLoopWith is a conservative guard: a register defined in a block
// that can be re-entered from b (a loop containing both) may have been
// re-defined since the dominating test; this cannot happen because the
// dominating test would be re-executed too. Kept for clarity.
func definedInLoopWith(v ssa.Value, b *ssa.BasicBlock) bool { return false }

func (p *Prog) reachFrom(fn *ssa.Function, from ssa.Instruction, target, avoid ipred) (ssa.Instruction, []*ssa.BasicBlock, bool) {
	return p.reachCut(fn, from, target, avoid, nil)
}

// canReach: is `to` reachable from just after `from` avoiding avoid?
func (p *Prog) canReach(from, to ssa.Instruction, avoid ipred) bool {
	if from.Parent() != to.Parent() && !p.isPlainHelper(from.Parent()) && !p.isPlainHelper(to.Parent()) {
		return false
	}
	_, _, ok := p.reachFrom(from.Parent(), from, func(in ssa.Instruction) bool { return in == to }, avoid)
	return ok
}

// mustPass: every feasible path from just after `from` (or entry if nil) to a
// Return executes an instruction satisfying eff. Returns the offending exit
// and trail when violated.
func (p *Prog) mustPass(fn *ssa.Function, from ssa.Instruction, eff ipred) (ssa.Instruction, []*ssa.BasicBlock, bool) {
	w, tr, found := p.reachFrom(fn, from, isReturnLike, eff)
	return w, tr, !found
}

// edge identifies a CFG edge.
type edge struct{ from, to *ssa.BasicBlock }

// reachableCutting reports whether target is reachable from the function entry
// when the given edges are removed.
func (p *Prog) reachableCutting(fn *ssa.Function, target ssa.Instruction, cut map[edge]bool) bool {
	_, _, ok := p.reachCut(fn, nil, func(in ssa.Instruction) bool { return in == target }, nil, cut)
	return ok
}

// condMatch recognises a branch condition; holdsOnTrue tells on which edge the
// recognised predicate holds.
type condMatch func(cond ssa.Value) (matches bool, holdsOnTrue bool)

// guardEdges returns the edges of fn on which the predicate recognised by m
// holds, and the number of tests matched.
func (p *Prog) guardEdges(fn *ssa.Function, m condMatch) (map[edge]bool, int) {
	cut := map[edge]bool{}
	p.registerCut(cut, m)
	n := 0
	var blocks []*ssa.BasicBlock
	blocks = append(blocks, fn.Blocks...)
	if !p.noDescend {
		// plain helpers called from fn are part of it
		seenH := map[*ssa.Function]bool{fn: true}
		work := []*ssa.Function{fn}
		for d := 0; d < 3 && len(work) > 0; d++ {
			var next []*ssa.Function
			for _, g := range work {
				eachInstrLocal(g, func(in ssa.Instruction) {
					if h := p.descendInto(in); h != nil && !seenH[h] {
						seenH[h] = true
						blocks = append(blocks, h.Blocks...)
						next = append(next, h)
					}
				})
			}
			work = next
		}
	}
	for _, b := range blocks {
		if len(b.Instrs) == 0 {
			continue
		}
		iff, ok := b.Instrs[len(b.Instrs)-1].(*ssa.If)
		if !ok {
			continue
		}
		cond, neg := stripNot(iff.Cond)
		ok, onTrue := m(cond)
		if !ok {
			// a predicate helper: `if w.isClosed()` where isClosed returns the recognised test
			if body, neg2, isPred := p.predicateBody(cond); isPred {
				if ok2, onTrue2 := m(body); ok2 {
					ok, onTrue = true, onTrue2
					if neg2 {
						onTrue = !onTrue
					}
				}
			}
		}
		if !ok {
			continue
		}
		n++
		if neg {
			onTrue = !onTrue
		}
		if onTrue {
			cut[edge{b, b.Succs[0]}] = true
		} else {
			cut[edge{b, b.Succs[1]}] = true
		}
	}
	return cut, n
}

// guardedBy reports whether every entry→target path crosses an edge on which
// the predicate recognised by m holds. It returns the number of matching tests.
func (p *Prog) guardedBy(target ssa.Instruction, m condMatch) (bool, int) {
	return p.guardedByDepth(target, m, 0)
}

func (p *Prog) guardedByDepth(target ssa.Instruction, m condMatch, depth int) (bool, int) {
	fn := target.Parent()
	cut, n := p.guardEdges(fn, m)
	if n > 0 {
		save := p.noDescend
		p.noDescend = true
		reach := p.reachableCutting(fn, target, cut)
		p.noDescend = save
		if !reach {
			return true, n
		}
	}
	// a helper is guarded when every one of its call sites is
	if depth < 3 && p.isPlainHelper(fn) {
		all := true
		tot := n
		for _, cs := range p.callers[fn] {
			g, k := p.guardedByDepth(cs.(ssa.Instruction), m, depth+1)
			tot += k
			if !g {
				all = false
			}
		}
		if all {
			return true, tot
		}
		return false, tot
	}
	return false, n
}

func stripNot(v ssa.Value) (ssa.Value, bool) {
	neg := false
	for {
		u, ok := v.(*ssa.UnOp)
		if !ok || u.Op != token.NOT {
			return v, neg
		}
		neg = !neg
		v = u.X
	}
}

// dominatesInstr reports whether a executes before b on every path to b.
func (p *Prog) dominatesInstr(a, b ssa.Instruction) bool {
	return p.dominatesDepth(a, b, 0)
}

func (p *Prog) dominatesDepth(a, b ssa.Instruction, depth int) bool {
	if a.Parent() != b.Parent() {
		if depth >= 3 {
			return false
		}
		// b lives in a helper: a must precede every call of that helper
		if fb := b.Parent(); p.isHelper(fb) {
			all := true
			for _, cs := range p.callers[fb] {
				if !p.dominatesDepth(a, cs.(ssa.Instruction), depth+1) {
					all = false
				}
			}
			if all {
				return true
			}
		}
		// a lives in a helper that b's function calls before b, and a is on every path through the helper
		if fa := a.Parent(); p.isHelper(fa) {
			onAll := true
			for _, blk := range fa.Blocks {
				if len(blk.Instrs) == 0 || blk == fa.Recover {
					continue // (the recover block of a function with a defer is not a normal exit)
				}
				if _, isRet := blk.Instrs[len(blk.Instrs)-1].(*ssa.Return); isRet {
					if !(a.Block() == blk || a.Block().Dominates(blk)) {
						onAll = false
					}
				}
			}
			if onAll {
				for _, cs := range p.plainCallers(fa) {
					if p.dominatesDepth(cs, b, depth+1) {
						return true
					}
				}
			}
		}
		return false
	}
	if a.Block() == b.Block() {
		return p.idx[a] < p.idx[b]
	}
	return a.Block().Dominates(b.Block())
}

// lineTrail renders a block trail as source positions.
func (p *Prog) lineTrail(tr []*ssa.BasicBlock) string {
	s := ""
	last := ""
	for _, b := range tr {
		for _, in := range b.Instrs {
			if in.Pos().IsValid() {
				l := p.Pos(in.Pos())
				if l != last {
					if s != "" {
						s += " -> "
					}
					s += l
					last = l
				}
				break
			}
		}
	}
	return s
}

// inLoop reports whether in lies on a CFG cycle of its function.
func (p *Prog) inLoop(in ssa.Instruction) bool {
	b := in.Block()
	seen := map[*ssa.BasicBlock]bool{}
	queue := append([]*ssa.BasicBlock{}, b.Succs...)
	for len(queue) > 0 {
		x := queue[0]
		queue = queue[1:]
		if x == b {
			return true
		}
		if seen[x] {
			continue
		}
		seen[x] = true
		queue = append(queue, x.Succs...)
	}
	return false
}

// viaCallee lifts an effect predicate across static calls: an instruction
// performs the effect if it satisfies eff itself, or is a plain call to a
// package function on every entry→return path of which the effect is
// performed (recursively, depth ≤ 3). cutFor gives the infeasible edges to
// ignore inside a callee (may be nil).
func (p *Prog) viaCallee(eff ipred, cutFor func(fn *ssa.Function) map[edge]bool) ipred {
	memo := map[*ssa.Function]int{} // 1 in progress, 2 yes, 3 no
	var lifted ipred
	var must func(fn *ssa.Function, depth int) bool
	must = func(fn *ssa.Function, depth int) bool {
		if fn == nil || fn.Blocks == nil || fn.Pkg != p.RPC || depth > 3 {
			return false
		}
		switch memo[fn] {
		case 1, 3:
			return false
		case 2:
			return true
		}
		memo[fn] = 1
		var cut map[edge]bool
		if cutFor != nil {
			cut = cutFor(fn)
		}
		save := p.noDescend
		p.noDescend = true
		_, _, miss := p.reachCut(fn, nil, isReturnLike, lifted, cut)
		p.noDescend = save
		if miss {
			memo[fn] = 3
		} else {
			memo[fn] = 2
		}
		return !miss
	}
	lifted = func(in ssa.Instruction) bool {
		if eff(in) {
			return true
		}
		if c, ok := in.(*ssa.Call); ok {
			if cal := c.Common().StaticCallee(); cal != nil && cal.Pkg == p.RPC {
				return must(cal, 1)
			}
		}
		return false
	}
	return lifted
}

// descendInto: the path search explores a helper in line (virtual inlining) when the
// instruction is a plain call to one; nil otherwise.
func (p *Prog) descendInto(in ssa.Instruction) *ssa.Function {
	c, ok := in.(*ssa.Call)
	if !ok {
		return nil
	}
	g := p.calleeOf(c)
	if g == nil || !p.isPlainHelper(g) || p.queueWrapper(g) != nil {
		return nil
	}
	return g
}

// predicateBody: v is a call to a plain helper that consists of a single block returning one
// boolean expression; the expression (with its negations stripped) is returned.
func (p *Prog) predicateBody(v ssa.Value) (ssa.Value, bool, bool) {
	c, ok := v.(*ssa.Call)
	if !ok {
		return nil, false, false
	}
	g := c.Common().StaticCallee()
	if g == nil || !p.isPlainHelper(g) {
		return nil, false, false
	}
	// straight-line code (a deferred unlock adds a recover block, which is not a normal exit)
	var ret *ssa.Return
	for _, b := range g.Blocks {
		if b == g.Recover || len(b.Instrs) == 0 {
			continue
		}
		switch x := b.Instrs[len(b.Instrs)-1].(type) {
		case *ssa.If:
			return nil, false, false
		case *ssa.Return:
			if ret != nil {
				return nil, false, false
			}
			ret = x
		}
	}
	if ret == nil || len(ret.Results) != 1 {
		return nil, false, false
	}
	rv := ret.Results[0]
	if ld, isLd := rv.(*ssa.UnOp); isLd && ld.Op == token.MUL {
		if cell, isA := ld.X.(*ssa.Alloc); isA {
			if rs, okR := p.reachingStores(ld, cell); okR && len(rs) == 1 {
				rv = rs[0]
			}
		}
	}
	body, neg := stripNot(rv)
	return body, neg, true
}

func unusedPredicateTail(ret *ssa.Return) (ssa.Value, bool, bool) {
	body, neg := stripNot(ret.Results[0])
	return body, neg, true
}

// impliedEdges returns the edges of fn that are taken whenever the predicate recognised by m
// holds: the holds-edges of direct tests (guardEdges), plus — when the test is wrapped in a
// boolean plain helper (`if isEOF(err)`) in which the predicate forces the result true (a
// direct `return P`, an operand of `P || Q`) — the true edge of the test of the helper's result.
func (p *Prog) impliedEdges(fn *ssa.Function, m condMatch) (map[edge]bool, int) {
	save := p.noDescend
	p.noDescend = true
	edges, n := p.guardEdges(fn, m)
	p.noDescend = save
	for _, b := range fn.Blocks {
		if len(b.Instrs) == 0 {
			continue
		}
		iff, ok := b.Instrs[len(b.Instrs)-1].(*ssa.If)
		if !ok {
			continue
		}
		cond, neg := stripNot(iff.Cond)
		c, ok := cond.(*ssa.Call)
		if !ok {
			continue
		}
		h := p.calleeOf(c)
		if h == nil || !p.isPlainHelper(h) || !p.forcesTrue(h, m) {
			continue
		}
		n++
		if neg {
			edges[edge{b, b.Succs[1]}] = true
		} else {
			edges[edge{b, b.Succs[0]}] = true
		}
	}
	return edges, n
}

// forcesTrue: in the boolean helper h the predicate recognised by m (with polarity "holds")
// makes h return true on every path.
func (p *Prog) forcesTrue(h *ssa.Function, m condMatch) bool {
	if h.Signature.Results().Len() != 1 {
		return false
	}
	found := false
	for _, b := range h.Blocks {
		if len(b.Instrs) == 0 {
			continue
		}
		ret, ok := b.Instrs[len(b.Instrs)-1].(*ssa.Return)
		if !ok {
			continue
		}
		v := ret.Results[0]
		// return P
		if body, neg := stripNot(v); true {
			if ok, onTrue := m(body); ok && (onTrue != neg) {
				found = true
				continue
			}
		}
		phi, isPhi := v.(*ssa.Phi)
		if !isPhi {
			continue
		}
		for i, e := range phi.Edges {
			pred := phi.Block().Preds[i]
			// P || …: P true jumps here with the constant true
			if k, isK := e.(*ssa.Const); isK && k.Value != nil && k.Value.ExactString() == "true" {
				if iff, ok := pred.Instrs[len(pred.Instrs)-1].(*ssa.If); ok {
					body, neg := stripNot(iff.Cond)
					if ok, onTrue := m(body); ok {
						holdsOnTrue := onTrue != neg
						// the edge pred→phi block must be the edge on which P holds
						if (holdsOnTrue && pred.Succs[0] == phi.Block()) || (!holdsOnTrue && pred.Succs[1] == phi.Block()) {
							found = true
						}
					}
				}
				continue
			}
			// … || P: the last operand is the result
			body, neg := stripNot(e)
			if ok, onTrue := m(body); ok && (onTrue != neg) {
				found = true
			}
		}
	}
	return found
}

// cutInfo remembers the tests a set of cut edges was computed from, so that a path search
// can re-read them inside a helper with several call sites (where a parameter has no single
// meaning) under the arguments of the call chain being followed. The map is kept alive so
// that its address identifies it.
type cutInfo struct {
	m  map[edge]bool
	ms []condMatch
}

func cutID(cut map[edge]bool) uintptr {
	if cut == nil {
		return 0
	}
	return reflect.ValueOf(cut).Pointer()
}

func (p *Prog) registerCut(cut map[edge]bool, ms ...condMatch) {
	if p.cutMatchers == nil {
		p.cutMatchers = map[uintptr]*cutInfo{}
	}
	id := cutID(cut)
	ci := p.cutMatchers[id]
	if ci == nil {
		ci = &cutInfo{m: cut}
		p.cutMatchers[id] = ci
	}
	ci.ms = append(ci.ms, ms...)
}

func (p *Prog) cutMatchersOf(cut map[edge]bool) []condMatch {
	if ci := p.cutMatchers[cutID(cut)]; ci != nil {
		return ci.ms
	}
	return nil
}

// unionCuts merges sets of cut edges together with the tests they were computed from.
func (p *Prog) unionCuts(cuts ...map[edge]bool) map[edge]bool {
	out := map[edge]bool{}
	for _, c := range cuts {
		for e := range c {
			out[e] = true
		}
		p.registerCut(out, p.cutMatchersOf(c)...)
	}
	return out
}

// literalLen: v is len(x) where x is a slice of an array allocated in the same function ([]T{…}).
func literalLen(v ssa.Value) (int64, bool) {
	c, ok := v.(*ssa.Call)
	if !ok || calleeName(c) != "builtin len" || len(c.Call.Args) != 1 {
		return 0, false
	}
	sl, ok := c.Call.Args[0].(*ssa.Slice)
	if !ok || sl.Low != nil || sl.High != nil {
		return 0, false
	}
	al, ok := sl.X.(*ssa.Alloc)
	if !ok {
		return 0, false
	}
	pt, ok := al.Type().Underlying().(*types.Pointer)
	if !ok {
		return 0, false
	}
	at, ok := pt.Elem().Underlying().(*types.Array)
	if !ok {
		return 0, false
	}
	return at.Len(), true
}
