package main

import (
	"fmt"
	"go/token"
	"sort"
	"strings"

	"golang.org/x/tools/go/ssa"
)

func init() {
	register("C19", &propDef{
		Meta: PropMeta{
			Explanation: "(1) Conn.CallWithContext blocks only in one select over the call's Done channel and ctx.Done(); the cancel arm returns ctx.Err() and performs no completion, recycling or table operation; PutCall happens only on the completion arm (so a late response lands on the abandoned, never-recycled call); (2) the caller's context buffer is stored into Call.Buffer before the call is written, the reply is placed into Call.Buffer[:n] only under cap(Call.Buffer) >= n and into a fresh slice otherwise; GetContextBuffer hands out a value only when the context value is a []byte; (3) Transport and Client forward the caller's ctx unchanged.",
			NotDecided:  "Promptness of the return; value-level isolation between the abandoned call and its neighbours.",
			Assumptions: []string{"context.Context.Done is closed when the context ends"},
			Trusted:     commonTrusted,
		},
		Run: runC19,
	})
	register("C20", &propDef{
		Meta: PropMeta{
			Explanation: "(1) R-SCHED-PAIR — every scheduler created for a connection is closed on every exit path of the function that owns the connection's lifetime: local queues (reader's dispatch queue; server's dispatch/stream/decode queues) by must-pass-through from creation to return, queues held in Conn fields by the reader's exit (nil-guarded), queues held in the poll context by the EOF branch; (2) R-EXIT-EDGE — every function started with `go` that loops has a return reachable from inside the loop, and the periodic goroutines (Transport.run, Client.run, Fallback's timer) have an exit arm on the owner's done channel; (3) R-CLOSE-ONCE — every close(ch) is reachable only through the success edge of a compare-and-swap; Conn.Close tests and sets `closing` in one critical section and returns ErrShutdown when it was set; Transport.Close and Server.Close return nil on every path, Client.Close only what its RoundTripper's Close returned; codec Close sets its closed flag before closing the transport; (4) R-SERVER-CLOSE (shared with C03).",
			NotDecided:  "That goroutines actually exit and sockets actually close (dependency behaviour); the poll-mode server (excluded by the property).",
			Assumptions: []string{"closing a socket makes blocked reads return an error"},
			Trusted:     commonTrusted,
		},
		Run: runC20,
	})
	register("C12", &propDef{
		Meta: PropMeta{
			Explanation: "Narrow, structural part of configuration equivalence: (1) R-RESOLVE-AGREE — DialWithOptions and ListenWithOptions resolve socket, body codec and header encoder with the same precedence signature (registry-by-name first, constructor field only when the name is not registered), from the same registries and Options fields, and feed the results to NewClientCodec / NewServerCodec in the same argument positions; (2) R-FUNNEL — every serve loop (blocking/poll × direct/queued) dispatches into ServeRequest, both client read variants call the one response reader and all of its success variants call the one finishCall; (3) R-HEADER-MAP — the default (no encoder) arm of the four codec functions performs the same field mapping on pbRequest/pbResponse as the encoder arm does through the Request/Response interface, and DefaultEncoder is the pb encoder; (4) R-GROW — checkBuffer and finishCall allocate a fresh slice of the needed size when the supplied capacity is short.",
			NotDecided:  "Outcome equality over the configuration cross product (networks × encoders × codecs × modes × buffer sizes) is a runtime claim: this check decides only that both ends SELECT the same things and that modes share one decode/dispatch/respond path.",
			Assumptions: []string{},
			Trusted:     commonTrusted,
		},
		Run: runC12,
	})
}

// selectArmEdges returns the edges taken when select `sel` chose state idx.
func selectArmEdges(p *Prog, fn *ssa.Function, sel *ssa.Select, idx int) map[edge]bool {
	edges, _ := p.guardEdges(fn, func(cond ssa.Value) (bool, bool) {
		b, isB := cond.(*ssa.BinOp)
		if !isB || b.Op != token.EQL {
			return false, false
		}
		e, isE := b.X.(*ssa.Extract)
		k, isK := constInt(b.Y)
		return isE && e.Tuple == ssa.Value(sel) && e.Index == 0 && isK && int(k) == idx, true
	})
	return edges
}

func runC19(c *Check, a *Analysis) {
	p := c.P
	sc := siteCounter{}
	rulePendingKeys(c, a, "R-PENDING-KEYS")
	ruleRecycleClean(c, a, "R-RECYCLE-CLEAN")
	ruleMarkDeadExact(c, a, "R-MARK-DEAD-EXACT")
	fn := p.Fn("(*Conn).CallWithContext")
	c.Rule("R-CTX-SELECT", "Conn.CallWithContext waits only in a select over call.Done and ctx.Done(); the cancel arm returns ctx.Err() and neither completes, recycles nor unregisters anything; PutCall is on the completion arm only", 4)
	if fn == nil {
		c.Undecided("R-CTX-SELECT", "(*Conn).CallWithContext not found")
	} else {
		var sel *ssa.Select
		doneIdx, ctxIdx := -1, -1
		eachInstr(fn, func(in ssa.Instruction) {
			if u, ok := in.(*ssa.UnOp); ok && u.Op == token.ARROW {
				c.Ob("R-CTX-SELECT", sc.key(fn, "no plain receive"), p.InstrPos(in), false, "CallWithContext blocks in a plain channel receive: cancellation cannot interrupt it")
			}
			s, ok := in.(*ssa.Select)
			if !ok {
				return
			}
			sel = s
			for i, st := range s.States {
				if st.Dir != 2 {
					continue
				}
				ch := p.canon(st.Chan)
				if isLoadOf(ch, "Call", "Done") {
					doneIdx = i
				}
				if cc, ok := ch.(*ssa.Call); ok && cc.Common().IsInvoke() && cc.Common().Method.Name() == "Done" {
					if prm, isP := p.canon(cc.Common().Value).(*ssa.Parameter); isP && prm.Parent() == fn {
						ctxIdx = i
					}
				}
			}
		})
		ok := sel != nil && doneIdx >= 0 && ctxIdx >= 0 && sel.Blocking && len(sel.States) == 2
		c.Ob("R-CTX-SELECT", sc.key(fn, "select{<-call.Done, <-ctx.Done()}"), fn.Pos(), ok, ifs(!ok, "CallWithContext does not wait in a two-arm select over the call's Done channel and the caller's ctx.Done()"))
		if ok {
			for e := range selectArmEdges(p, fn, sel, ctxIdx) {
				compSites := computeCompletion(p).sitesIn(fn)
				relSites := a.Releases().sitesIn(fn)
				w, _, bad := p.reachFromBlock(fn, e.to, func(x ssa.Instruction) bool {
					if isCallTo(x, "PutCall", "(*Call).done") {
						return true
					}
					if _, isErr := isErrorStore(x); isErr {
						return true
					}
					for _, s := range compSites {
						if s.Instr == x {
							return true
						}
					}
					for _, r := range relSites {
						// the call object, or anything it still owns (its flag object): the call
						// stays registered and the reader will use both when the late response arrives
						if r.Instr == x && (r.Kind.Name == resCall.Name || r.Kind.Name == resUpgrade.Name) {
							return true
						}
					}
					// the abandoned call must stay registered: no table operation on this arm
					if cc, ok := x.(*ssa.Call); ok {
						if cal := cc.Common().StaticCallee(); cal != nil && cal.Pkg == p.RPC && touchesPending(p, cal, 0) {
							return true
						}
					}
					return false
				}, nil, nil)
				c.Ob("R-CTX-SELECT", sc.key(fn, "cancel arm leaves the call alone"), p.InstrPos(e.to.Instrs[0]), !bad, ifs(bad, "the cancel arm recycles/completes the abandoned call at "+p.At(w)+": a late response lands on a recycled Call object that another caller may own"))
				// returns ctx.Err()
				okErr := false
				eachInstr(fn, func(x ssa.Instruction) {
					cc, isC := x.(*ssa.Call)
					if isC && cc.Common().IsInvoke() && cc.Common().Method.Name() == "Err" {
						if _, _, miss := p.reachFromBlock(fn, e.to, isReturnLike, func(y ssa.Instruction) bool { return y == x }, nil); !miss {
							okErr = true
						}
					}
				})
				c.Ob("R-CTX-SELECT", sc.key(fn, "cancel arm returns ctx.Err()"), p.InstrPos(e.to.Instrs[0]), okErr, ifs(!okErr, "the cancel arm does not return the context's error"))
			}
			for _, pc := range callsIn(fn, "PutCall") {
				g := false
				for e := range selectArmEdges(p, fn, sel, doneIdx) {
					_ = e
					g, _ = p.guardedBy(pc.(ssa.Instruction), func(cond ssa.Value) (bool, bool) {
						b, isB := cond.(*ssa.BinOp)
						if !isB || b.Op != token.EQL {
							return false, false
						}
						ex, isE := b.X.(*ssa.Extract)
						k, isK := constInt(b.Y)
						return isE && ex.Tuple == ssa.Value(sel) && ex.Index == 0 && isK && int(k) == doneIdx, true
					})
				}
				c.Ob("R-CTX-SELECT", sc.key(fn, "PutCall only on the completion arm"), p.InstrPos(pc), g, ifs(!g, "the call object is recycled on a path where it may not have completed"))
			}
		}
		// the context buffer is attached before the request is written
		stores := p.fieldStoresIn(fn, "Call", "Buffer")
		writes := callsIn(fn, "(*Conn).write")
		okB := len(stores) > 0 && len(writes) > 0
		for _, s := range stores {
			if cc, isC := p.canon(s.Val).(*ssa.Call); !isC || calleeName(cc) != "GetContextBuffer" {
				okB = false
			}
			for _, w := range writes {
				if !p.dominatesInstr(s, w.(ssa.Instruction)) {
					okB = false
				}
			}
		}
		c.Ob("R-CTX-SELECT", sc.key(fn, "Call.Buffer = GetContextBuffer(ctx) before write"), fn.Pos(), okB, ifs(!okB, "the caller's context buffer is not attached to the call before it is sent (the reader may finish the call first)"))
	}

	ruleResliceGuard(c, a, "R-RESLICE-GUARD", 6)
	c.Rule("R-CTX-BUFFER", "the reply goes into a fresh slice when the context buffer is too small; GetContextBuffer returns a buffer only when the context value is a []byte (comma-ok assertion)", 2)
	if fc := p.Fn("(*Conn).finishCall"); fc == nil {
		c.Undecided("R-CTX-BUFFER", "(*Conn).finishCall not found")
	} else {
		okMk := false
		for _, s := range p.fieldStoresIn(fc, "Call", "Value") {
			if mk, isMk := p.canon(s.Val).(*ssa.MakeSlice); isMk {
				// length = len(ctx.value)
				if lc, isL := stripConv(mk.Len).(*ssa.Call); isL && calleeName(lc) == "builtin len" && isLoadOf(p.canon(lc.Call.Args[0]), "Context", "value") {
					okMk = true
				}
			}
		}
		c.Ob("R-CTX-BUFFER", sc.key(fc, "fresh slice of len(reply) otherwise"), fc.Pos(), okMk, ifs(!okMk, "finishCall has no fresh-allocation arm of the reply's length for a too-small context buffer"))
	}
	if gb := p.Fn("GetContextBuffer"); gb == nil {
		c.Undecided("R-CTX-BUFFER", "GetContextBuffer not found")
	} else {
		ok := true
		n := 0
		eachInstr(gb, func(in ssa.Instruction) {
			if ta, isT := in.(*ssa.TypeAssert); isT {
				n++
				if !ta.CommaOk {
					ok = false
				}
			}
		})
		c.Ob("R-CTX-BUFFER", sc.key(gb, "comma-ok []byte assertion"), gb.Pos(), ok && n > 0, ifs(!(ok && n > 0), "GetContextBuffer asserts the context value without comma-ok: a non-[]byte value panics"))
		// the asserted bytes are what is returned, exactly when the assertion succeeded
		okFlow := false
		eachInstr(gb, func(in ssa.Instruction) {
			ta, isT := in.(*ssa.TypeAssert)
			if !isT || !ta.CommaOk || ta.Referrers() == nil {
				return
			}
			var val, okv ssa.Value
			for _, r := range *ta.Referrers() {
				if e, isE := r.(*ssa.Extract); isE {
					if e.Index == 0 {
						val = e
					} else {
						okv = e
					}
				}
			}
			if val == nil || okv == nil || val.Referrers() == nil {
				return
			}
			for _, r := range *val.Referrers() {
				phi, isPhi := r.(*ssa.Phi)
				if !isPhi {
					continue
				}
				for i, e := range phi.Edges {
					if e != val {
						continue
					}
					pred := phi.Block().Preds[i]
					g, _ := p.guardedBy(pred.Instrs[len(pred.Instrs)-1], func(cond ssa.Value) (bool, bool) {
						if p.canon(cond) == okv {
							return true, true
						}
						return false, false
					})
					if g {
						okFlow = true
					}
				}
			}
		})
		c.Ob("R-CTX-BUFFER", sc.key(gb, "returns the asserted bytes when ok"), gb.Pos(), okFlow, ifs(!okFlow, "GetContextBuffer does not hand out the caller's buffer when the context holds one (the context buffer is silently ignored)"))
	}

	c.Rule("R-CTX-FORWARD", "Transport.CallWithContext and Client.CallWithContext pass their own ctx parameter on unchanged", 3)
	for _, name := range []string{"(*Transport).CallWithContext", "(*Client).CallWithContext"} {
		f := p.Fn(name)
		if f == nil {
			c.Undecided("R-CTX-FORWARD", name+" not found")
			continue
		}
		eachInstr(f, func(in ssa.Instruction) {
			cc, ok := in.(*ssa.Call)
			if !ok {
				return
			}
			n := calleeName(cc)
			if n != "(*Conn).CallWithContext" && n != "invoke RoundTripper.CallWithContext" {
				return
			}
			args := cc.Common().Args
			ctxArg := args[0]
			if n == "(*Conn).CallWithContext" {
				ctxArg = args[1]
			}
			prm, isP := p.canon(ctxArg).(*ssa.Parameter)
			okc := isP && prm.Parent() == f && strings.Contains(prm.Type().String(), "context.Context")
			c.Ob("R-CTX-FORWARD", sc.key(f, "ctx forwarded"), p.InstrPos(in), okc, ifs(!okc, "the caller's context is replaced by "+describe(ctxArg)+": cancellation no longer reaches the connection"))
		})
	}
	// recycle discipline shared with C02
	ruleRecycle(c, a, computeCompletion(p), "R-RECYCLE")
}

// matchCAS recognises the result of atomic.CompareAndSwap* (holds on true).
func matchCAS(p *Prog) condMatch {
	return func(cond ssa.Value) (bool, bool) {
		cc, ok := p.canon(cond).(*ssa.Call)
		if !ok || !strings.HasPrefix(calleeName(cc), "sync/atomic.CompareAndSwap") {
			return false, false
		}
		return true, true
	}
}

func runC20(c *Check, a *Analysis) {
	p := c.P
	ruleLockBalance(c, a, "R-LOCK-BALANCE", "Conn.mutex", "Transport.connsMu", "Client.lock", "Server.mut", "Server.mutex", "persistConn.mu", "stream.mut")
	ruleNoCloseUnderLock(c, a, "R-NO-CLOSE-UNDER-LOCK")
	ruleNormaliseOrder(c, a, "R-NORMALISE-ORDER")
	ruleQueueConfig(c, a, "R-QUEUE-CONFIG")
	c.Rule("R-LOCK", "Server.codecs under Server.mutex; Server.listeners under Server.mut; Conn.closing under Conn.mutex", 5)
	ruleLock(c, a, "R-LOCK", "Server", "codecs", "listeners")
	ruleSharedLocalMap(c, a, "R-LOCK")
	ruleSchedNil(c, a, "R-SCHED-NIL")
	rulePollEOF(c, a, "R-POLL-EOF")
	ruleWGDiscipline(c, a, "R-WG-DISCIPLINE")
	ruleAcceptExit(c, a, "R-EXIT-EDGE")
	ruleLock(c, a, "R-LOCK", "Conn", "closing")
	ls := a.Locks()
	sc := siteCounter{}
	c.Rule("R-SCHED-PAIR", "every scheduler.New is paired with a Close: local queues on every path from creation to the return of the owning function; queues stored in Conn fields by the reader's exit; queues stored in the poll context by the EOF branch", 8)
	isCloseOf := func(x ssa.Instruction, want func(recv ssa.Value) bool) bool {
		cc, ok := x.(*ssa.Call)
		if !ok || !cc.Common().IsInvoke() || cc.Common().Method.Name() != "Close" || namedOf(cc.Common().Value.Type()) != "scheduler.Scheduler" {
			return false
		}
		return want(cc.Common().Value)
	}
	for _, fn := range p.Fns {
		for _, nw := range callsIn(fn, "scheduler.New") {
			newCall := nw.(*ssa.Call)
			site := sc.key(fn, "scheduler.New paired with Close")
			// where does the value go?
			storedField := FieldRef{}
			if newCall.Referrers() != nil {
				for _, r := range *newCall.Referrers() {
					if st, ok := r.(*ssa.Store); ok {
						if fr, _, ok := fieldOfAddr(st.Addr); ok {
							storedField = fr
						}
					}
				}
			}
			switch {
			case storedField.Struct == "Conn":
				// closed by the reader exit
				okc := false
				for _, st := range p.storesToField("Conn", "shutdown") {
					rf := st.Fn
					field := storedField.Field
					cutFor := func(f *ssa.Function) map[edge]bool {
						cut, _ := p.guardEdges(f, matchFieldNil(p, "Conn", field))
						return cut
					}
					eff := p.viaCallee(func(x ssa.Instruction) bool {
						return isCloseOf(x, func(recv ssa.Value) bool { return isLoadOf(p.canon(recv), "Conn", field) })
					}, cutFor)
					_, _, miss := p.reachCut(rf, st.Instr, isReturnLike, eff, cutFor(rf))
					if !miss {
						okc = true
					}
				}
				c.Ob("R-SCHED-PAIR", site+" (Conn."+storedField.Field+")", p.InstrPos(newCall), okc, ifs(!okc, "the queue stored in Conn."+storedField.Field+" is not closed on every path of the reader's exit: its worker goroutine leaks"))
			case storedField.Struct == "ServerContext":
				okc := false
				for _, f := range withClosures(topParent(fn)) {
					if len(callsIn(f, "(*sync.WaitGroup).Wait")) == 0 {
						continue
					}
					eachInstrCtx(f, func(x, _ ssa.Instruction, res func(ssa.Value) ssa.Value) {
						if isCloseOf(x, func(recv ssa.Value) bool { return isLoadOf(p.canon(res(recv)), "ServerContext", storedField.Field) }) {
							okc = true
						}
					})
				}
				c.Ob("R-SCHED-PAIR", site+" (ServerContext."+storedField.Field+")", p.InstrPos(newCall), okc, ifs(!okc, "the poll context's "+storedField.Field+" queue is never closed at teardown"))
			default:
				// local (possibly via a composite literal field of the poll context)
				viaLiteral := ""
				// a field of a function-local bundle of another type is a local
				// variable by another spelling
				localField := FieldRef{}
				if newCall.Referrers() != nil {
					for _, r := range *newCall.Referrers() {
						if st, ok := r.(*ssa.Store); ok {
							if fr, base, ok := fieldOfAddr(st.Addr); ok && baseIsLocalAlloc(base) {
								if fr.Struct == "ServerContext" {
									viaLiteral = fr.Field
								} else {
									localField = fr
								}
							}
						}
					}
				}
				fromNew := func(recv ssa.Value) bool {
					for _, o := range p.origins(recv) {
						if p.canon(o) == ssa.Value(newCall) {
							return true
						}
					}
					if localField.Struct != "" && isLoadOf(p.canon(recv), localField.Struct, localField.Field) {
						return true
					}
					return false
				}
				// is the value handed to the poll context (literal field or variable stored there)?
				toCtx := viaLiteral != ""
				if !toCtx {
					for _, f := range withClosures(topParent(fn)) {
						eachInstr(f, func(x ssa.Instruction) {
							if st, ok := x.(*ssa.Store); ok {
								if fr, _, ok := fieldOfAddr(st.Addr); ok && fr.Struct == "ServerContext" && fromNew(st.Val) {
									toCtx, viaLiteral = true, fr.Field
								}
							}
						})
					}
				}
				if toCtx {
					okc := false
					for _, f := range withClosures(topParent(fn)) {
						if len(callsIn(f, "(*sync.WaitGroup).Wait")) == 0 {
							continue
						}
						eachInstrCtx(f, func(x, _ ssa.Instruction, res func(ssa.Value) ssa.Value) {
							if isCloseOf(x, func(recv ssa.Value) bool { return isLoadOf(p.canon(res(recv)), "ServerContext", viaLiteral) }) {
								okc = true
							}
						})
					}
					c.Ob("R-SCHED-PAIR", site+" (ServerContext."+viaLiteral+")", p.InstrPos(newCall), okc, ifs(!okc, "the poll context's "+viaLiteral+" queue is never closed at teardown"))
					continue
				}
				// a variable that is nil unless this New ran: the `v == nil` edges
				// are infeasible on paths that come from the New
				cut, _ := p.guardEdges(fn, matchValueNil(p, newCall))
				if localField.Struct != "" {
					es, _ := p.guardEdges(fn, matchFieldNil(p, localField.Struct, localField.Field))
					cut = p.unionCuts(cut, es)
				}
				if newCall.Referrers() != nil {
					for _, r := range *newCall.Referrers() {
						if phi, ok := r.(*ssa.Phi); ok {
							es, _ := p.guardEdges(fn, matchValueNil(p, phi))
							cut = p.unionCuts(cut, es)
						}
					}
				}
				_, tr, miss := p.reachCut(fn, newCall, isReturnLike, func(x ssa.Instruction) bool { return isCloseOf(x, fromNew) }, cut)
				okp := !miss
				c.Ob("R-SCHED-PAIR", site+" (local)", p.InstrPos(newCall), okp, ifs(!okp, "a queue created here is not closed on path "+p.lineTrail(tr)+": its worker goroutine leaks"))
			}
		}
	}

	// ---- R-EXIT-EDGE
	c.Rule("R-EXIT-EDGE", "every goroutine body that loops has a return reachable from inside its loop; periodic goroutines exit on the owner's done channel", 5)
	seen := map[*ssa.Function]bool{}
	for _, fn := range p.Fns {
		eachInstr(fn, func(in ssa.Instruction) {
			g, ok := in.(*ssa.Go)
			if !ok {
				return
			}
			var body *ssa.Function
			switch v := g.Call.Value.(type) {
			case *ssa.Function:
				body = v
			case *ssa.MakeClosure:
				body = v.Fn.(*ssa.Function)
			}
			if body == nil || body.Blocks == nil || seen[body] || body.Pkg != p.RPC {
				return
			}
			seen[body] = true
			// loops in the body itself or in the single function it calls directly (go func(){ f() }())
			bodies := []*ssa.Function{body}
			eachInstr(body, func(x ssa.Instruction) {
				if cc, ok := x.(*ssa.Call); ok {
					if cal := cc.Common().StaticCallee(); cal != nil && cal.Pkg == p.RPC && cal.Blocks != nil {
						bodies = append(bodies, cal)
					}
				}
			})
			for _, b := range bodies {
				var loopInstr ssa.Instruction
				eachInstr(b, func(x ssa.Instruction) {
					if loopInstr == nil && p.inLoop(x) {
						if _, isIf := x.(*ssa.If); isIf {
							loopInstr = x
						}
					}
				})
				if loopInstr == nil {
					continue
				}
				exits := false
				eachInstr(b, func(x ssa.Instruction) {
					if p.inLoop(x) {
						if _, _, found := p.reachFrom(b, x, isReturnLike, nil); found {
							exits = true
						}
					}
				})
				c.Ob("R-EXIT-EDGE", fname(b)+"#loop has an exit", b.Pos(), exits, ifs(!exits, "goroutine body "+fname(b)+" loops forever: it can never exit after Close"))
			}
		})
	}
	for _, spec := range []struct{ fn, st, field string }{{"(*Transport).run", "Transport", "done"}, {"(*Client).run", "Client", "done"}} {
		fn := p.Fn(spec.fn)
		if fn == nil {
			c.Undecided("R-EXIT-EDGE", spec.fn+" not found")
			continue
		}
		ok := false
		eachInstr(fn, func(in ssa.Instruction) {
			sel, isS := in.(*ssa.Select)
			if !isS {
				return
			}
			for i, st := range sel.States {
				if st.Dir == 2 && isLoadOf(p.canon(st.Chan), spec.st, spec.field) {
					for e := range selectArmEdges(p, fn, sel, i) {
						if _, _, found := p.reachFromBlock(fn, e.to, isReturnLike, func(x ssa.Instruction) bool { return x == in }, nil); found {
							ok = true
						}
					}
				}
			}
		})
		c.Ob("R-EXIT-EDGE", spec.fn+"#returns on <-"+spec.field, fn.Pos(), ok, ifs(!ok, spec.fn+" has no exit arm on the done channel that Close closes"))
	}
	if fb := p.Fn("(*Client).Fallback"); fb != nil {
		ok := false
		for _, f := range withClosures(fb)[1:] {
			eachInstr(f, func(in ssa.Instruction) {
				if sel, isS := in.(*ssa.Select); isS {
					for _, st := range sel.States {
						if st.Dir == 2 && isLoadOf(p.canon(st.Chan), "Client", "done") {
							ok = true
						}
					}
				}
			})
		}
		c.Ob("R-EXIT-EDGE", "(*Client).Fallback#timer goroutine exits on <-c.done", fb.Pos(), ok, ifs(!ok, "the fallback timer goroutine does not observe Client.done: it outlives Close"))
	}

	c.Rule("R-CLOSE-SIGNALS", "Client.Close and Transport.Close close the done channel their background goroutines wait on (on the compare-and-swap success path)", 2)
	for _, spec := range []struct{ fn, st string }{{"(*Client).Close", "Client"}, {"(*Transport).Close", "Transport"}} {
		fn := p.Fn(spec.fn)
		if fn == nil {
			c.Undecided("R-CLOSE-SIGNALS", spec.fn+" not found")
			continue
		}
		found := false
		eachInstr(fn, func(in ssa.Instruction) {
			cc, ok := in.(*ssa.Call)
			if ok && calleeName(cc) == "builtin close" && isLoadOf(p.canon(cc.Call.Args[0]), spec.st, "done") {
				// not confined to the edge on which the channel is nil, nor to the losing compare-and-swap
				onlyNil, _ := p.guardedBy(in, matchFieldNilAny(p, "done"))
				lost, _ := p.guardedBy(in, negate(matchCAS(p)))
				if !onlyNil && !lost {
					found = true
				}
			}
		})
		c.Ob("R-CLOSE-SIGNALS", spec.fn+"#close(done)", fn.Pos(), found, ifs(!found, spec.fn+" never closes the done channel: the periodic goroutine (and Fallback timers) outlive Close"))
	}

	if cl := p.Fn("(*Client).Close"); cl != nil {
		n := 0
		for _, cc := range invokesIn(cl, "RoundTripper", "Close") {
			n++
			g, _ := p.guardedBy(cc.(ssa.Instruction), negate(matchFieldNil(p, "Client", "Transport")))
			c.Ob("R-CLOSE-SIGNALS", "(*Client).Close#closes its transport when it has one", p.InstrPos(cc), g, ifs(!g, "Client.Close does not close a configured transport (or dereferences a nil one)"))
		}
		if n == 0 {
			c.Ob("R-CLOSE-SIGNALS", "(*Client).Close#closes its transport when it has one", cl.Pos(), false, "Client.Close never closes its transport: pooled connections stay open")
		}
	}
	for _, fn := range p.Fns {
		eachInstr(fn, func(in ssa.Instruction) {
			cc, ok := in.(*ssa.Call)
			if !ok || !strings.HasPrefix(calleeName(cc), "sync/atomic.CompareAndSwap") || len(cc.Call.Args) != 3 {
				return
			}
			o, okO := constInt(cc.Call.Args[1])
			nw, okN := constInt(cc.Call.Args[2])
			if !okO || !okN {
				return
			}
			c.Ob("R-CLOSE-SIGNALS", sc.key(fn, "CAS flips the flag"), p.InstrPos(in), o != nw, ifs(o == nw, "a compare-and-swap that does not change the flag never marks the object closed: Close is not idempotent and closed is never observed"))
		})
	}

	// ---- R-CLOSE-ONCE
	c.Rule("R-CLOSE-ONCE", "every close(ch) is reachable only through the success edge of a compare-and-swap; Conn.Close tests and sets `closing` in one critical section and reports ErrShutdown when already set; Transport.Close/Server.Close return nil; Client.Close returns only its RoundTripper's result; codec Close sets the closed flag before closing the transport", 8)
	for _, fn := range p.Fns {
		eachInstr(fn, func(in ssa.Instruction) {
			cc, ok := in.(*ssa.Call)
			if !ok || calleeName(cc) != "builtin close" {
				return
			}
			// a channel made by the enclosing function for one use (a barrier, a one-shot
			// signal) is not shared state: only long-lived channels (fields) need the election
			if mk, isMk := p.canon(cc.Call.Args[0]).(*ssa.MakeChan); isMk && topParent(mk.Parent()) == topParent(fn) && !p.inLoop(in) {
				return
			}
			g, _ := p.guardedBy(in, matchCAS(p))
			c.Ob("R-CLOSE-ONCE", sc.key(fn, "close(ch) behind CAS"), p.InstrPos(in), g, ifs(!g, "close of a channel is reachable more than once (second Close panics: close of closed channel)"))
		})
	}
	if cc := p.Fn("(*Conn).Close"); cc == nil {
		c.Undecided("R-CLOSE-ONCE", "(*Conn).Close not found")
	} else {
		loads := p.fieldLoadsIn(cc, "Conn", "closing")
		stores := p.fieldStoresIn(cc, "Conn", "closing")
		ok := len(loads) > 0 && len(stores) > 0
		for _, l := range loads {
			for _, s := range stores {
				if !ls.SameSection(l, s, "Conn.mutex") {
					ok = false
				}
			}
		}
		c.Ob("R-CLOSE-ONCE", sc.key(cc, "closing tested and set in one section"), cc.Pos(), ok, ifs(!ok, "Conn.Close does not test and set the closing flag atomically: two concurrent Close calls both proceed"))
		edges, _ := p.guardEdges(cc, matchBoolField("Conn", "closing"))
		okRet := len(edges) > 0
		for e := range edges {
			w, _, found := p.reachFromBlock(cc, e.to, isReturnLike, nil, nil)
			if !found {
				okRet = false
				continue
			}
			r := w.(*ssa.Return)
			if len(r.Results) != 1 || !isGlobalLoad(p.canon(r.Results[0]), "ErrShutdown") {
				// named result: the arm must load ErrShutdown before returning
				_, _, miss := p.reachFromBlock(cc, e.to, isReturnLike, func(y ssa.Instruction) bool {
					v, ok := y.(ssa.Value)
					return ok && isGlobalLoad(v, "ErrShutdown")
				}, nil)
				if miss {
					okRet = false
				}
			}
			// and the codec is not closed again on this arm
			if _, _, again := p.reachFromBlock(cc, e.to, func(x ssa.Instruction) bool {
				c2, ok := x.(*ssa.Call)
				return ok && c2.Common().IsInvoke() && c2.Common().Method.Name() == "Close"
			}, nil, nil); again {
				okRet = false
			}
		}
		c.Ob("R-CLOSE-ONCE", sc.key(cc, "second Close returns ErrShutdown"), cc.Pos(), okRet, ifs(!okRet, "a second Conn.Close does not return ErrShutdown without closing the codec again"))
		// the first Close always closes the codec (whatever the reader has noticed meanwhile)
		setEdges, nTests := p.guardEdges(cc, matchBoolField("Conn", "closing"))
		okFirst := nTests > 0
		if _, _, found := p.reachCut(cc, nil, isReturnLike, func(x ssa.Instruction) bool {
			c2, ok := x.(*ssa.Call)
			return ok && c2.Common().IsInvoke() && c2.Common().Method.Name() == "Close" && namedOf(c2.Common().Value.Type()) == "ClientCodec"
		}, setEdges); found {
			okFirst = false
		}
		c.Ob("R-CLOSE-ONCE", sc.key(cc, "first Close closes the codec on every path"), cc.Pos(), okFirst, ifs(!okFirst, "the first Conn.Close can return without closing the codec (e.g. when the reader has already seen the peer go away): the socket is never closed"))
	}
	for _, name := range []string{"(*Transport).Close", "(*Server).Close"} {
		fn := p.Fn(name)
		if fn == nil {
			c.Undecided("R-CLOSE-ONCE", name+" not found")
			continue
		}
		ok := true
		eachInstr(fn, func(in ssa.Instruction) {
			r, isR := in.(*ssa.Return)
			if !isR || len(r.Results) != 1 || (len(in.Block().Preds) == 0 && in.Block() != fn.Blocks[0]) {
				return
			}
			for _, o := range p.origins(r.Results[0]) {
				if !nilConst(p.canon(o)) {
					ok = false
				}
			}
		})
		c.Ob("R-CLOSE-ONCE", name+"#returns nil", fn.Pos(), ok, ifs(!ok, name+" can return a non-nil error (repeated Close must return nil)"))
	}
	if cl := p.Fn("(*Client).Close"); cl != nil {
		ok := true
		eachInstr(cl, func(in ssa.Instruction) {
			r, isR := in.(*ssa.Return)
			if !isR || len(r.Results) != 1 || (len(in.Block().Preds) == 0 && in.Block() != cl.Blocks[0]) {
				return
			}
			for _, o := range p.origins(r.Results[0]) {
				o = p.canon(o)
				if nilConst(o) {
					continue
				}
				if cc, isC := o.(*ssa.Call); isC && calleeName(cc) == "invoke RoundTripper.Close" {
					continue
				}
				ok = false
			}
		})
		c.Ob("R-CLOSE-ONCE", "(*Client).Close#returns only the transport's result", cl.Pos(), ok, ifs(!ok, "Client.Close returns an error of its own on repeated Close"))
	}
	for _, recv := range []string{"clientCodec", "serverCodec"} {
		fn := p.Fn("(*" + recv + ").Close")
		if fn == nil {
			c.Undecided("R-CLOSE-ONCE", "(*"+recv+").Close not found")
			continue
		}
		var setFlag ssa.Instruction
		eachInstr(fn, func(in ssa.Instruction) {
			if cc, ok := in.(*ssa.Call); ok && calleeName(cc) == "sync/atomic.StoreUint32" {
				if fr, _, ok := fieldOfAddr(cc.Call.Args[0]); ok && fr.Field == "closed" {
					setFlag = in
				}
			}
		})
		ok := setFlag != nil
		for _, mc := range invokesIn(fn, "socket.Messages", "Close") {
			if setFlag == nil || !p.dominatesInstr(setFlag, mc.(ssa.Instruction)) {
				ok = false
			}
		}
		c.Ob("R-CLOSE-ONCE", "(*"+recv+").Close#closed=1 before Messages.Close", fn.Pos(), ok, ifs(!ok, "the codec's closed flag is not set before the transport is closed: writers race into a closed socket"))
	}

	ruleServerClose(c, a, "R-SERVER-CLOSE")
	// pooled connections that drop out of the pool structures must be closed
	ruleEnqueueOrClose(c, a, "R-IDLE-CAP")
	ruleMovePair(c, a, "R-MOVE-PAIR")
	ruleFreshLookup(c, a, "R-FRESH-LOOKUP")
	_ = fmt.Sprint
}

func runC12(c *Check, a *Analysis) {
	p := c.P
	sc := siteCounter{}
	ruleHeaderFresh(c, a, "R-HEADER-FRESH")
	ruleCodeThresholds(c, a, "R-CODE-THRESHOLD")
	ruleResolveTotal(c, a, "R-RESOLVE-TOTAL")
	rulePoolOwnBuffers(c, a, "R-POOL-OWN-BUFFERS")
	ruleFixedPoolSizes(c, a, "R-FIXED-POOL-SIZE")
	c.Rule("R-RESOLVE-AGREE", "DialWithOptions and ListenWithOptions resolve socket / body codec / header encoder identically: registry looked up by the Options name field first, the constructor field used only when the registry has no entry; results feed NewClientCodec / NewServerCodec in positions 0 and 1", 8)
	type res struct {
		registry, nameField, ctorField   string
		registryFirst, ctorOnlyIfMissing bool
	}
	resolve := func(top *ssa.Function) map[string]res {
		out := map[string]res{}
		for _, fn := range withClosures(top) {
			eachInstr(fn, func(in ssa.Instruction) {
				cc, ok := in.(*ssa.Call)
				if !ok {
					return
				}
				n := calleeName(cc)
				if n != "NewSocket" && n != "NewCodec" && n != "NewHeaderEncoder" {
					return
				}
				r := res{registry: n}
				if fr, _, ok := fieldOfLoad(p.canon(cc.Call.Args[0])); ok && fr.Struct == "Options" {
					r.nameField = fr.Field
				}
				// the registry result, when non-nil, is called
				isNil := matchValueNil(p, cc)
				eachInstr(fn, func(x ssa.Instruction) {
					c2, ok := x.(*ssa.Call)
					if !ok || c2.Common().IsInvoke() || c2.Common().StaticCallee() != nil {
						return
					}
					callee := p.canon(c2.Common().Value)
					if callee == ssa.Value(cc) {
						if g, _ := p.guardedBy(x, negate(isNil)); g {
							r.registryFirst = true
						}
					}
					if fr, _, ok := fieldOfLoad(callee); ok && fr.Struct == "Options" && ctorMatches(n, fr.Field) {
						r.ctorField = fr.Field
						if g, _ := p.guardedBy(x, isNil); g {
							r.ctorOnlyIfMissing = true
						}
					}
				})
				out[n] = r
			})
		}
		return out
	}
	d, l := p.Fn("DialWithOptions"), p.Fn("(*Server).ListenWithOptions")
	if d == nil || l == nil {
		c.Undecided("R-RESOLVE-AGREE", "DialWithOptions / ListenWithOptions not found")
	} else {
		rd, rl := resolve(d), resolve(l)
		for _, k := range []string{"NewSocket", "NewCodec", "NewHeaderEncoder"} {
			a1, ok1 := rd[k]
			a2, ok2 := rl[k]
			same := ok1 && ok2 && a1 == a2
			c.Ob("R-RESOLVE-AGREE", k+"#both ends resolve alike", d.Pos(), same, ifs(!same, fmt.Sprintf("client resolves %+v, server resolves %+v", a1, a2)))
			for side, r := range map[string]res{"DialWithOptions": a1, "ListenWithOptions": a2} {
				good := r.registryFirst && r.ctorOnlyIfMissing && r.nameField != "" && r.ctorField != ""
				c.Ob("R-RESOLVE-AGREE", k+"#"+side+" registry-first", d.Pos(), good, ifs(!good, fmt.Sprintf("%s: %+v (expected: name looked up in the registry first, constructor only when missing)", side, r)))
			}
		}
		// positions
		for _, spec := range []struct {
			top  *ssa.Function
			ctor string
		}{{d, "NewClientCodec"}, {l, "NewServerCodec"}} {
			n := 0
			for _, fn := range withClosures(spec.top) {
				for _, cc := range callsIn(fn, spec.ctor) {
					n++
					a0, a1 := cc.Common().Args[0], cc.Common().Args[1]
					ok0 := originsFromRegistry(p, a0, "NewCodec", "NewCodec")
					ok1 := originsFromRegistry(p, a1, "NewHeaderEncoder", "NewHeaderEncoder")
					c.Ob("R-RESOLVE-AGREE", sc.key(fn, spec.ctor+"(bodyCodec, headerEncoder, …)"), p.InstrPos(cc), ok0 && ok1, ifs(!(ok0 && ok1), "the resolved body codec / header encoder are not passed in argument positions 0 / 1"))
				}
			}
			if n == 0 {
				c.Undecided("R-RESOLVE-AGREE", spec.ctor+" not called from "+fname(spec.top))
			}
		}
	}

	c.Rule("R-REGISTRY", "the name registries are initialised with the documented names: body codecs json/code/pb, header encoders json/code/pb, sockets http/tcp/unix/ws/inproc", 3)
	regSpec := map[string][]string{"RegisterCodec": {"code", "json", "pb"}, "RegisterHeaderEncoder": {"code", "json", "pb"}, "RegisterSocket": {"http", "inproc", "tcp", "unix", "ws"}}
	got := map[string][]string{}
	for _, fn := range p.Fns {
		if !strings.HasPrefix(fn.Name(), "init") {
			continue
		}
		eachInstr(fn, func(in ssa.Instruction) {
			cc, ok := in.(*ssa.Call)
			if !ok {
				return
			}
			n := calleeName(cc)
			if _, want := regSpec[n]; !want {
				return
			}
			if cst, isC := cc.Call.Args[0].(*ssa.Const); isC {
				got[n] = append(got[n], strings.Trim(constStr(cst), "\""))
			}
		})
	}
	for n, want := range regSpec {
		g := append([]string{}, got[n]...)
		sort.Strings(g)
		okr := strings.Join(g, ",") == strings.Join(want, ",")
		c.Ob("R-REGISTRY", n+"#documented names", 0, okr, ifs(!okr, fmt.Sprintf("%s registers %v at start-up, documented %v: a client and a server configured by name no longer find the same implementation", n, g, want)))
	}

	// ---- R-FUNNEL
	c.Rule("R-FUNNEL", "all serve loops dispatch into ServeRequest in both their direct and queued arm; the client reader loop calls the one response reader in both arms; every success variant of the reader calls finishCall", 4)
	nLoops := 0
	for _, fn := range p.Fns {
		if len(invokesIn(fn, "socket.Messages", "ReadMessage")) == 0 {
			continue
		}
		top := fname(topParent(fn))
		switch {
		case strings.HasPrefix(top, "(*Server)."):
			ev := eventsOf(fn, "(*Server).ServeRequest")
			if len(ev) == 0 {
				continue
			}
			nLoops++
			c.Ob("R-FUNNEL", sc.key(fn, "direct and queued arm both call ServeRequest"), fn.Pos(), len(ev) == 2, ifs(len(ev) != 2, fmt.Sprintf("%d dispatch arm(s) into ServeRequest (direct and queued expected)", len(ev))))
		case strings.HasPrefix(top, "(*Conn)."):
			ev := eventsOf(fn, "(*Conn).read")
			nLoops++
			c.Ob("R-FUNNEL", sc.key(fn, "direct and queued arm both call read"), fn.Pos(), len(ev) == 2, ifs(len(ev) != 2, fmt.Sprintf("%d dispatch arm(s) into the response reader", len(ev))))
		}
	}
	c.Ob("R-FUNNEL", "loops#three frame loops (blocking server, poll server, client)", 0, nLoops == 3, ifs(nLoops != 3, fmt.Sprintf("found %d frame loops", nLoops)))
	if rd := p.Fn("(*Conn).read"); rd != nil {
		ev := eventsOf(rd, "(*Conn).finishCall")
		c.Ob("R-FUNNEL", sc.key(rd, "three success variants call finishCall"), rd.Pos(), len(ev) == 3, ifs(len(ev) != 3, fmt.Sprintf("%d variants reach finishCall (ordered queue, global scheduler, inline expected)", len(ev))))
	}

	ruleHeaderMap(c, a, "R-HEADER-MAP")
	c.Rule("R-DEFAULT-IS-PB", "DefaultEncoder returns the pb encoder and the default arm of the codecs uses pbRequest/pbResponse", 5)
	if de := p.Fn("DefaultEncoder"); de != nil {
		ok := len(callsIn(de, "NewPBEncoder")) > 0
		c.Ob("R-DEFAULT-IS-PB", "DefaultEncoder#NewPBEncoder", de.Pos(), ok, ifs(!ok, "DefaultEncoder is not the pb encoder"))
	}
	for fnName, typ := range map[string]string{"(*clientCodec).WriteRequest": "pbRequest", "(*serverCodec).ReadRequestHeader": "pbRequest", "(*clientCodec).ReadResponseHeader": "pbResponse", "(*serverCodec).WriteResponse": "pbResponse"} {
		fn := p.Fn(fnName)
		if fn == nil {
			c.Undecided("R-DEFAULT-IS-PB", fnName+" not found")
			continue
		}
		ok := false
		eachInstr(fn, func(in ssa.Instruction) {
			if al, isA := in.(*ssa.Alloc); isA && pointeeName(al) == typ {
				g, _ := p.guardedBy(in, matchFieldNilAny(p, "headerEncoder"))
				if g {
					ok = true
				}
			}
		})
		c.Ob("R-DEFAULT-IS-PB", fnName+"#default arm uses "+typ, fn.Pos(), ok, ifs(!ok, "the no-encoder arm does not use "+typ+" (peers configured with the pb header no longer interoperate with the default)"))
	}

	c.Rule("R-GROW", "checkBuffer and finishCall allocate a slice of the needed length when the supplied capacity is short", 2)
	if cb := p.Fn("checkBuffer"); cb != nil {
		ok := false
		eachInstr(cb, func(in ssa.Instruction) {
			if mk, isMk := in.(*ssa.MakeSlice); isMk && p.canon(mk.Len) == ssa.Value(cb.Params[1]) {
				ok = true
			}
		})
		c.Ob("R-GROW", "checkBuffer#make([]byte, n)", cb.Pos(), ok, ifs(!ok, "checkBuffer does not grow: a header larger than the pooled buffer cannot be written"))
	}
	if fc := p.Fn("(*Conn).finishCall"); fc != nil {
		ok := false
		eachInstr(fc, func(in ssa.Instruction) {
			if _, isMk := in.(*ssa.MakeSlice); isMk {
				ok = true
			}
		})
		c.Ob("R-GROW", "(*Conn).finishCall#make reply slice", fc.Pos(), ok, ifs(!ok, "finishCall cannot hold a reply larger than the caller's buffer"))
	}
}

func ctorMatches(registry, field string) bool {
	switch registry {
	case "NewSocket":
		return field == "NewSocket"
	case "NewCodec":
		return field == "NewCodec"
	case "NewHeaderEncoder":
		return field == "NewHeaderEncoder"
	}
	return false
}

// originsFromRegistry: every non-nil origin of v is the result of calling the
// registry's constructor or the Options constructor field of the same kind.
func originsFromRegistry(p *Prog, v ssa.Value, registry, field string) bool {
	ok := false
	for _, o := range p.origins(v) {
		o = p.canon(o)
		if nilConst(o) {
			continue
		}
		cc, isC := o.(*ssa.Call)
		if !isC {
			return false
		}
		callee := p.canon(cc.Common().Value)
		if rc, isR := callee.(*ssa.Call); isR && calleeName(rc) == registry {
			ok = true
			continue
		}
		if fr, _, isF := fieldOfLoad(callee); isF && fr.Struct == "Options" && fr.Field == field {
			ok = true
			continue
		}
		return false
	}
	return ok
}

// matchFieldNilAny: `x.<field> == nil` on any struct (holds on true).
func matchFieldNilAny(p *Prog, field string) condMatch {
	return func(cond ssa.Value) (bool, bool) {
		b, ok := cond.(*ssa.BinOp)
		if !ok || (b.Op != token.EQL && b.Op != token.NEQ) {
			return false, false
		}
		x, y := b.X, b.Y
		if nilConst(x) {
			x, y = y, x
		}
		if !nilConst(y) {
			return false, false
		}
		fr, _, ok := fieldOfLoad(p.canon(x))
		if !ok || fr.Field != field {
			// an element of a slice literal that holds the field's value
			hit := false
			for _, e := range p.elemCandidates(p.canon(x)) {
				if f2, _, ok2 := fieldOfLoad(p.canon(e)); ok2 && f2.Field == field {
					hit = true
				}
			}
			if !hit {
				return false, false
			}
		}
		return true, b.Op == token.EQL
	}
}

// touchesPending: fn (transitively, depth ≤ 2) deletes from or stores into Conn.pending.
func touchesPending(p *Prog, fn *ssa.Function, depth int) bool {
	if fn == nil || fn.Blocks == nil || depth > 2 {
		return false
	}
	res := false
	eachInstr(fn, func(in ssa.Instruction) {
		switch x := in.(type) {
		case *ssa.MapUpdate:
			if isLoadOf(x.Map, "Conn", "pending") {
				res = true
			}
		case *ssa.Call:
			if calleeName(x) == "builtin delete" && isLoadOf(x.Call.Args[0], "Conn", "pending") {
				res = true
			}
			if cal := x.Common().StaticCallee(); cal != nil && cal.Pkg == p.RPC && cal != fn && touchesPending(p, cal, depth+1) {
				res = true
			}
		}
	})
	return res
}
