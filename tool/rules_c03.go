package main

import (
	"fmt"
	"go/token"
	"strings"

	"golang.org/x/tools/go/ssa"
)

func init() {
	register("C03", &propDef{
		Meta: PropMeta{
			Explanation: "Flag/table rendez-vous and totality rules decided over all CFG paths: (1) the reader's exit stores Conn.shutdown and sweeps pending/streams in ONE critical section, and every store into the pending/streams tables is control-dependent on shutdown and closing both read false in the same critical section — so no call can be registered after the sweep, for every schedule; (2) every path out of the reader function passes the flag store and the sweep; (3) every path through the sender completes the call or reaches the wire write, and every Call.Error store is followed by done(); (4) the reader drains the queue onto which it dispatched received frames before it sets the shutdown flag (a completely received response is not failed); (5) refusals carry the ErrShutdown value, EOF is mapped to it, codec writes test the closed flag first; (6) Server.Close closes every listener under its lock, accepted codecs are registered before being served and the listener's deferred cleanup closes them.",
			NotDecided:  "Bounded time; that Messages.Close unblocks a blocked ReadMessage (dependency); cuts inside a frame (framing is in hslam/socket).",
			Assumptions: []string{"socket.Messages.ReadMessage returns an error after Close or peer EOF", "scheduler.Close runs the queued tasks before returning (read in the dependency source)"},
			Trusted:     commonTrusted,
		},
		Run: runC03,
	})
}

// isAtomicClosedTest recognises `atomic.LoadUint32(&x.closed) > 0` (holds on true).
func matchAtomicFlag(st, field string) condMatch {
	return func(cond ssa.Value) (bool, bool) {
		b, ok := cond.(*ssa.BinOp)
		if !ok {
			return false, false
		}
		c, ok := b.X.(*ssa.Call)
		if !ok || len(c.Call.Args) == 0 {
			return false, false
		}
		n := calleeName(c)
		if n != "sync/atomic.LoadUint32" && n != "sync/atomic.LoadInt32" {
			return false, false
		}
		fr, _, ok := fieldOfAddr(c.Call.Args[0])
		if !ok || fr.Struct != st || fr.Field != field {
			return false, false
		}
		k, ok := constInt(b.Y)
		if !ok {
			return false, false
		}
		switch {
		case b.Op == token.GTR && k == 0, b.Op == token.NEQ && k == 0, b.Op == token.EQL && k == 1, b.Op == token.GEQ && k == 1:
			return true, true
		case b.Op == token.EQL && k == 0, b.Op == token.LSS && k == 1:
			return true, false
		}
		return false, false
	}
}

// negate flips the polarity of a condMatch.
func negate(m condMatch) condMatch {
	return func(cond ssa.Value) (bool, bool) {
		ok, t := m(cond)
		return ok, !t
	}
}

// sectionFlagClear: instruction x is control dependent on st.field having been
// read false in the same critical section of lock.
func sectionFlagClear(p *Prog, ls *Locksets, x ssa.Instruction, st, field, lock string) bool {
	ok, _ := p.guardedBy(x, func(cond ssa.Value) (bool, bool) {
		ld, isI := cond.(ssa.Instruction)
		if !isI || !isLoadOf(cond, st, field) {
			return false, false
		}
		if !ls.SameSection(ld, x, lock) {
			return false, false
		}
		return true, false // guard holds (flag clear) on the false edge
	})
	return ok
}

func runC03(c *Check, a *Analysis) {
	p := c.P
	ls := a.Locks()
	sc := siteCounter{}
	ruleSweepKeepsStreams(c, a, "R-SWEEP-KEEPS-STREAMS")
	ruleWaitUnderFlag(c, a, "R-WAIT-UNDER-FLAG")
	ruleSweepRemoves(c, a, "R-SWEEP-REMOVES")
	ruleReaderExitCause(c, a, "R-READER-EXIT-CAUSE")
	c.Rule("R-LOCK", "Conn.shutdown/closing/pending/streams only under Conn.mutex; Server.codecs under Server.mutex; Server.listeners under Server.mut", 10)
	ruleLock(c, a, "R-LOCK", "Conn", "shutdown", "closing", "pending", "streams")
	ruleLock(c, a, "R-LOCK", "Server", "codecs", "listeners")
	ruleSharedLocalMap(c, a, "R-LOCK")

	// ---- R-RDV-REG
	c.Rule("R-RDV-REG", "every store into Conn.pending / Conn.streams is control dependent on Conn.shutdown and Conn.closing both read false in the same critical section of Conn.mutex", 2)
	for _, tbl := range []string{"pending", "streams"} {
		for _, m := range p.mapOps("Conn", tbl) {
			if m.Kind != "update" {
				continue
			}
			for _, flag := range []string{"shutdown", "closing"} {
				ok := sectionFlagClear(p, ls, m.Instr, "Conn", flag, "Conn.mutex")
				det := ""
				if !ok {
					det = fmt.Sprintf("store into Conn.%s is reachable without having read Conn.%s == false in the same critical section: a call can be registered after the reader's final sweep and never completes", tbl, flag)
				}
				c.Ob("R-RDV-REG", sc.key(m.Fn, tbl+"[k]=call needs !"+flag), p.InstrPos(m.Instr), ok, det)
			}
		}
	}

	// ---- R-RDV-FLAG / R-READER-EXIT
	c.Rule("R-RDV-FLAG", "the store Conn.shutdown=true, the sweep of Conn.pending (done() of every entry) and the stop() of every Conn.streams entry lie in one critical section", 3)
	c.Rule("R-READER-EXIT", "every path from the entry of the reader function to its return passes the Conn.shutdown=true store, the sweep over Conn.pending and the sweep over Conn.streams", 3)
	var readerFns []*ssa.Function
	for _, st := range p.storesToField("Conn", "shutdown") {
		s := st.Instr.(*ssa.Store)
		if cst, ok := s.Val.(*ssa.Const); !ok || constStr(cst) != "true" {
			continue
		}
		fn := st.Fn
		readerFns = append(readerFns, fn)
		if len(invokesIn(fn, "socket.Messages", "ReadMessage")) == 0 {
			c.Undecided("R-READER-EXIT", "function "+fname(fn)+" sets Conn.shutdown but does not read frames")
		}
		// exit passes the store
		_, tr, ok := p.mustPass(fn, nil, func(in ssa.Instruction) bool { return in == ssa.Instruction(s) })
		det := ""
		if !ok {
			det = "a path through the reader returns without setting Conn.shutdown (" + p.lineTrail(tr) + "): outstanding calls are never failed"
		}
		c.Ob("R-READER-EXIT", sc.key(fn, "exit passes shutdown=true"), p.InstrPos(s), ok, det)
		for _, tbl := range []string{"pending", "streams"} {
			var rng *MapOp
			for _, m := range p.mapOps("Conn", tbl) {
				if m.Kind == "range" && p.sameFn(m.Fn, fn) {
					mm := m
					rng = &mm
				}
			}
			if rng == nil {
				c.Ob("R-READER-EXIT", sc.key(fn, "sweep "+tbl), p.InstrPos(s), false, "no range over Conn."+tbl+" in the function that sets Conn.shutdown")
				continue
			}
			_, tr, ok := p.mustPass(fn, s, func(in ssa.Instruction) bool { return in == rng.Instr })
			det := ""
			if !ok {
				det = "a path from shutdown=true to the return skips the sweep of Conn." + tbl + " (" + p.lineTrail(tr) + ")"
			}
			c.Ob("R-READER-EXIT", sc.key(fn, "sweep "+tbl), p.InstrPos(rng.Instr), ok, det)
			same := ls.SameSection(s, rng.Instr, "Conn.mutex")
			det = ""
			if !same {
				det = "Conn.shutdown=true and the sweep of Conn." + tbl + " are not in one critical section: a sender can register between them"
			}
			c.Ob("R-RDV-FLAG", sc.key(fn, "flag+sweep "+tbl), p.InstrPos(rng.Instr), same, det)
			// the loop body performs the effect (done / stop) inside the section
			nx, _, val := rangeParts(rng.Instr.(*ssa.Range))
			effect := false
			var effIn ssa.Instruction
			if nx != nil && val != nil {
				eachInstr(fn, func(in ssa.Instruction) {
					if tbl == "pending" {
						if v, ok := isDoneCall(in); ok && p.canon(v) == val {
							effect, effIn = true, in
						}
					} else if isCallTo(in, "(*stream).stop") {
						// receiver loaded from the ranged call's stream field
						for _, o := range p.origins(in.(*ssa.Call).Call.Args[0]) {
							if fr, base, ok := fieldOfLoad(o); ok && fr.Struct == "Call" && fr.Field == "stream" && p.canon(base) == val {
								effect, effIn = true, in
							}
						}
					}
				})
			}
			okE := effect && ls.SameSection(s, effIn, "Conn.mutex")
			// the sweep's completion must be synchronous: a completion deferred to a
			// queued closure leaves the critical section (and, with a shared loop
			// variable, signals the wrong call)
			deferred := false
			if tbl == "pending" && val != nil {
				for _, cs := range computeCompletion(p).sitesIn(fn) {
					if strings.HasPrefix(cs.What, "closure") && p.varKeyOfBinding(cs.Var) == p.varKey(val) {
						deferred = true
					}
					if strings.HasPrefix(cs.What, "closure") {
						// a cell that the loop assigns the ranged value to
						if cell := p.localCell(cs.Var); cell != nil {
							for _, st := range p.storesToCell(cell) {
								if p.canon(st) == val {
									deferred = true
								}
							}
						}
					}
				}
			}
			if deferred {
				okE = false
			}
			det = ""
			if !effect {
				det = "the sweep over Conn." + tbl + " does not complete/stop the entries it visits"
			} else if deferred {
				det = "the sweep hands the completion of a pending call to a queued closure: it leaves the critical section, and a closure created in the loop captures the shared iteration variable (Go < 1.22 semantics per go.mod), so callers can be left unsignalled"
			} else if !okE {
				det = "the sweep's effect is outside the critical section of shutdown=true"
			}
			c.Ob("R-RDV-FLAG", sc.key(fn, "sweep effect "+tbl), p.InstrPos(rng.Instr), okE, det)
		}
	}
	if len(readerFns) == 0 {
		c.Undecided("R-READER-EXIT", "no store Conn.shutdown=true found")
	}

	// ---- R-DRAIN-BEFORE-SWEEP
	c.Rule("R-DRAIN-BEFORE-SWEEP", "the reader closes (drains) the queue onto which it dispatched received frames before it sets Conn.shutdown; otherwise a completely received response is dropped by the reader's shutdown test and its call is failed by the sweep", 1)
	for _, fn := range readerFns {
		var store *ssa.Store
		for _, s := range p.fieldStoresIn(fn, "Conn", "shutdown") {
			store = s
		}
		n := 0
		for _, sch := range invokesIn(fn, "scheduler.Scheduler", "Schedule") {
			mc, ok := sch.Common().Args[0].(*ssa.MakeClosure)
			if !ok || !closureReachesLookup(p, mc.Fn.(*ssa.Function)) {
				continue
			}
			n++
			q := p.canon(sch.Common().Value)
			isClose := func(in ssa.Instruction) bool {
				cc, ok := in.(*ssa.Call)
				return ok && cc.Common().IsInvoke() && cc.Common().Method.Name() == "Close" && p.canon(cc.Common().Value) == q
			}
			_, tr, found := p.reachFrom(fn, nil, func(in ssa.Instruction) bool { return in == ssa.Instruction(store) }, isClose)
			det := ""
			if found {
				det = "Conn.shutdown=true is reached without closing the frame dispatch queue first (path " + p.lineTrail(tr) + "): responses already received but still queued are discarded and their calls failed with ErrShutdown"
			}
			c.Ob("R-DRAIN-BEFORE-SWEEP", sc.key(fn, "drain dispatch queue before shutdown=true"), p.InstrPos(store), !found, det)
		}
		if n == 0 {
			c.Note("R-DRAIN-BEFORE-SWEEP: reader " + fname(fn) + " dispatches frames inline only; nothing to drain")
			c.Ob("R-DRAIN-BEFORE-SWEEP", sc.key(fn, "no dispatch queue"), p.InstrPos(store), true, "")
		}
	}

	// ---- R-SEND-TOTAL
	c.Rule("R-SEND-TOTAL", "every path through a function that registers calls ends with the call completed (done) or having reached ClientCodec.WriteRequest: no path drops a call silently", 1)
	for _, m := range pendingOps(p, "update") {
		fn := m.Fn
		_, tr, ok := p.mustPass(fn, nil, func(in ssa.Instruction) bool {
			if v, isD := isDoneCall(in); isD && p.sameVar(v, m.Val) {
				return true
			}
			if cc, isC := in.(ssa.CallInstruction); isC && cc.Common().IsInvoke() && cc.Common().Method.Name() == "WriteRequest" {
				return true
			}
			return false
		})
		det := ""
		if !ok {
			det = "a path through " + fname(fn) + " returns without completing the call and without writing it (" + p.lineTrail(tr) + "): the caller waits forever"
		}
		c.Ob("R-SEND-TOTAL", sc.key(fn, "complete or write"), p.InstrPos(m.Instr), ok, det)
	}

	// ---- R-ERR-THEN-DONE
	c.Rule("R-ERR-THEN-DONE", "every store to Call.Error in a library function is followed on every path to the return by done() of that call (or a hand-off to a completing callee/closure); the blocking wrappers that own the call are exempt because they return the error", 5)
	comp := computeCompletion(p)
	for _, fn := range p.Fns {
		sites := comp.sitesIn(fn)
		eachInstr(fn, func(in ssa.Instruction) {
			v, ok := isErrorStore(in)
			if !ok {
				return
			}
			_, tr, okp := p.mustPass(fn, in, func(x ssa.Instruction) bool {
				for _, s := range sites {
					if s.Instr == x && s.What != "Error=" && p.sameVar(s.Var, v) {
						return true
					}
				}
				return false
			})
			det := ""
			if !okp {
				det = "Call.Error is set but a path to the return never signals Done (" + p.lineTrail(tr) + ")"
			}
			c.Ob("R-ERR-THEN-DONE", sc.key(fn, "Error= then done()"), p.InstrPos(in), okp, det)
		})
	}
	c.Rule("R-FINISH-TOTAL", "a function that completes its call parameter on some path completes it (or hands it off) on every path once the call has been removed from the table (reader's response arms, finishCall)", 1)
	for _, fn := range p.Fns {
		if fn.Parent() != nil || len(comp.completes[fn]) == 0 || len(pendingOps2(p, fn, "update")) > 0 {
			continue
		}
		for i := range comp.completes[fn] {
			prm := fn.Params[i]
			sites := comp.sitesIn(fn)
			// a nil call is no call: the edges on which the parameter was tested nil are outside the obligation
			nilCall, _ := p.guardEdges(fn, matchValueNil(p, prm))
			_, tr, found := p.reachCut(fn, nil, isReturnLike, func(x ssa.Instruction) bool {
				for _, s := range sites {
					if s.Instr == x && s.What != "Error=" && p.paramOfVar(fn, p.varKeyOfBinding(s.Var)) == i {
						return true
					}
				}
				return false
			}, nilCall)
			okp := !found
			det := ""
			if !okp {
				det = "a path through " + fname(fn) + " returns without completing its call (" + p.lineTrail(tr) + ")"
			}
			c.Ob("R-FINISH-TOTAL", sc.key(fn, "param completes on all paths"), fn.Pos(), okp, det)
		}
	}

	// ---- R-ERRMAP
	c.Rule("R-ERRMAP", "the refusal path stores the ErrShutdown value; the sweep's error has ErrShutdown among its origins (EOF mapped); ClientCodec/ServerCodec writes test the closed flag before Messages.WriteMessage", 4)
	for _, m := range pendingOps(p, "update") {
		fn := m.Fn
		for _, s := range p.fieldStoresIn(fn, "Call", "Error") {
			if p.canReach(m.Instr, s, nil) {
				continue
			}
			ok := isGlobalLoad(s.Val, "ErrShutdown")
			det := ""
			if !ok {
				det = "the refusal path stores " + describe(s.Val) + " instead of ErrShutdown"
			}
			c.Ob("R-ERRMAP", sc.key(fn, "refusal Error=ErrShutdown"), p.InstrPos(s), ok, det)
		}
	}
	for _, fn := range readerFns {
		for _, s := range p.fieldStoresIn(fn, "Call", "Error") {
			ok := false
			for _, o := range p.origins(s.Val) {
				if isGlobalLoad(o, "ErrShutdown") {
					ok = true
				}
			}
			det := ""
			if !ok {
				det = "the sweep's error never is ErrShutdown (io.EOF not mapped)"
			}
			c.Ob("R-ERRMAP", sc.key(fn, "sweep error may be ErrShutdown"), p.InstrPos(s), ok, det)
		}
	}
	for _, fn := range p.Fns {
		recv := ""
		if fn.Signature.Recv() != nil {
			recv = namedOf(fn.Signature.Recv().Type())
		}
		if recv != "clientCodec" && recv != "serverCodec" {
			continue
		}
		for _, w := range invokesIn(fn, "socket.Messages", "WriteMessage") {
			ok, _ := p.guardedBy(w, negate(matchAtomicFlag(recv, "closed")))
			det := ""
			if !ok {
				det = "Messages.WriteMessage reachable without testing the codec's closed flag"
			}
			c.Ob("R-ERRMAP", sc.key(fn, "closed tested before WriteMessage"), p.InstrPos(w), ok, det)
		}
	}

	// ---- R-SERVER-CLOSE
	ruleServerClose(c, a, "R-SERVER-CLOSE")
	ruleLockBalance(c, a, "R-LOCK-BALANCE", "Conn.mutex", "stream.mut", "Server.mut", "Server.mutex")
	ruleReaderTotal(c, a, "R-READER-TOTAL")
	ruleEOFMapping(c, a, "R-EOF-MAP")
	ruleNoCloseUnderLock(c, a, "R-NO-CLOSE-UNDER-LOCK")
	ruleAPIWrites(c, a, "R-API-WRITES")
	// the sweep's stop() must actually wake stream readers (no lost wake-up)
	ruleStop(c, a, "R-STOP")
}

func pendingOps2(p *Prog, fn *ssa.Function, kind string) []MapOp {
	var out []MapOp
	for _, m := range pendingOps(p, kind) {
		if topParent(m.Fn) == fn || p.sameFn(topParent(m.Fn), fn) {
			out = append(out, m)
		}
	}
	return out
}

// closureReachesLookup: the closure (statically, depth ≤ 2) calls a function
// that looks a call up in Conn.pending — i.e. it is the response reader.
func closureReachesLookup(p *Prog, cl *ssa.Function) bool {
	seen := map[*ssa.Function]bool{}
	var walk func(f *ssa.Function, d int) bool
	walk = func(f *ssa.Function, d int) bool {
		if f == nil || seen[f] || d > 3 {
			return false
		}
		seen[f] = true
		for _, l := range pendingOps(p, "lookup") {
			if p.sameFn(l.Fn, f) {
				return true
			}
		}
		res := false
		eachInstr(f, func(in ssa.Instruction) {
			if cc, ok := in.(ssa.CallInstruction); ok {
				if cal := cc.Common().StaticCallee(); cal != nil && cal.Pkg == p.RPC {
					if walk(cal, d+1) {
						res = true
					}
				}
			}
		})
		return res
	}
	return walk(cl, 0)
}

func (c *Check) Note(s string) { c.Notes = append(c.Notes, s) }

// ruleServerClose: shared by C03 and C20.
func ruleServerClose(c *Check, a *Analysis, rule string) {
	p := c.P
	ls := a.Locks()
	sc := siteCounter{}
	c.Rule(rule, "Server.Close closes every element of Server.listeners under Server.mut on every path; each accepted codec is put into the listener's codec table before it is served; the listener function's deferred cleanup closes every entry of that table; the accept loop returns when Accept fails", 5)
	closeFn := p.Fn("(*Server).Close")
	if closeFn == nil {
		c.Undecided(rule, "(*Server).Close not found")
		return
	}
	var rng *MapOp
	for _, m := range p.mapOps("Server", "listeners") {
		if m.Kind == "range" && p.sameFn(m.Fn, closeFn) {
			mm := m
			rng = &mm
		}
	}
	// ranging over a slice lowers to index loops: accept "len" + "index"
	var idx *MapOp
	for _, m := range p.mapOps("Server", "listeners") {
		if m.Kind == "index" && p.sameFn(m.Fn, closeFn) {
			mm := m
			idx = &mm
		}
	}
	closes := invokesIn(closeFn, "socket.Listener", "Close")
	ok := (rng != nil || idx != nil) && len(closes) > 0
	det := ""
	if !ok {
		det = "Server.Close does not iterate Server.listeners calling Listener.Close"
	}
	c.Ob(rule, sc.key(closeFn, "closes every listener"), closeFn.Pos(), ok, det)
	for _, cl := range closes {
		held := ls.Held(cl, "Server.mut")
		inLoop := p.inLoop(cl)
		det := ""
		if !held {
			det = "Listener.Close outside Server.mut"
		} else if !inLoop {
			det = "Listener.Close is not in a loop over the listeners"
		}
		c.Ob(rule, sc.key(closeFn, "Listener.Close in loop under lock"), p.InstrPos(cl), held && inLoop, det)
		// the loop is on every path
		var first ssa.Instruction
		for _, ac := range p.fieldAccesses("Server", "listeners") {
			if p.sameFn(ac.Fn, closeFn) && ac.Kind == "read" && first == nil {
				first = ac.Instr
			}
		}
		if first != nil {
			_, tr, okp := p.mustPass(closeFn, nil, func(in ssa.Instruction) bool { return in == first })
			det = ""
			if !okp {
				det = "a path through Server.Close skips the listeners (" + p.lineTrail(tr) + ")"
			}
			c.Ob(rule, sc.key(closeFn, "listeners visited on every path"), p.InstrPos(first), okp, det)
		}
	}
	// listen: accepted codecs registered before served
	lis := p.Fn("(*Server).listen")
	if lis == nil {
		c.Undecided(rule, "(*Server).listen not found")
		return
	}
	nReg := 0
	for _, fn := range withClosures(lis) {
		for _, serve := range callsIn(fn, "(*Server).ServeCodec") {
			nReg++
			codecArg := serve.Common().Args[1]
			registered := false
			eachInstrCtx(fn, func(in, at ssa.Instruction, res func(ssa.Value) ssa.Value) {
				mu, ok := in.(*ssa.MapUpdate)
				if !ok || !p.dominatesInstr(at, serve) {
					return
				}
				key := res(mu.Key)
				if p.canon(key) != p.canon(unwrap(codecArg)) && unwrap(p.canon(key)) != unwrap(p.canon(codecArg)) {
					return
				}
				// the local per-listener table is a captured cell of listen
				if cell := p.localCellOfMap(res(mu.Map)); cell != nil && cell.Parent() == lis {
					registered = held(ls, in, "Server.mutex")
				}
			})
			det := ""
			if !registered {
				det = "an accepted codec is served without first being entered into the listener's codec table under Server.mutex: Server.Close/listen cleanup would never close it"
			}
			c.Ob(rule, sc.key(fn, "register before ServeCodec"), p.InstrPos(serve), registered, det)
		}
	}
	if nReg == 0 {
		c.Undecided(rule, "no ServeCodec call inside listen")
	}
	// the listener is entered into Server.listeners (under Server.mut) before it is served
	regd := false
	for _, st := range p.fieldStoresIn(lis, "Server", "listeners") {
		if cc, ok := p.canon(st.Val).(*ssa.Call); ok && calleeName(cc) == "builtin append" && ls.Held(st, "Server.mut") {
			okAll := true
			for _, acc := range invokesIn(lis, "socket.Listener", "Accept") {
				if !p.dominatesInstr(st, acc.(ssa.Instruction)) {
					okAll = false
				}
			}
			for _, sm := range invokesIn(lis, "socket.Listener", "ServeMessages") {
				if !p.dominatesInstr(st, sm.(ssa.Instruction)) {
					okAll = false
				}
			}
			if okAll {
				regd = true
			}
		}
	}
	c.Ob(rule, sc.key(lis, "listener registered before it is served"), lis.Pos(), regd, ifs(!regd, "the listener is not appended to Server.listeners (under Server.mut) before serving: Server.Close cannot close it and Listen never returns"))
	// deferred cleanup closes every entry
	cleanup := false
	var cleanupPos token.Pos = lis.Pos()
	eachInstr(lis, func(in ssa.Instruction) {
		d, ok := in.(*ssa.Defer)
		if !ok {
			return
		}
		var cl *ssa.Function
		resArg := func(v ssa.Value) ssa.Value { return v }
		if mc, ok := d.Call.Value.(*ssa.MakeClosure); ok {
			cl = mc.Fn.(*ssa.Function)
		} else if h := d.Common().StaticCallee(); h != nil && p.isPlainHelper(h) {
			// `defer server.closeAccepted(codecs)`: the helper plays the closure's part
			cl = h
			args := d.Common().Args
			resArg = func(v ssa.Value) ssa.Value {
				if prm, ok := v.(*ssa.Parameter); ok && prm.Parent() == h {
					for i, q := range h.Params {
						if q == prm && i < len(args) {
							return args[i]
						}
					}
				}
				return v
			}
		}
		if cl == nil {
			return
		}
		hasRange, hasClose := false, false
		eachInstr(cl, func(x ssa.Instruction) {
			if r, ok := x.(*ssa.Range); ok {
				if cell := p.localCellOfMap(resArg(r.X)); cell != nil && cell.Parent() == lis {
					hasRange = true
				}
			}
			if cc, ok := x.(*ssa.Call); ok && cc.Common().IsInvoke() && cc.Common().Method.Name() == "Close" && p.inLoop(x) {
				hasClose = true
			}
		})
		if hasRange && hasClose {
			cleanup = true
			cleanupPos = d.Pos()
			// the defer is installed before the accept loop / ServeMessages
			for _, acc := range invokesIn(lis, "socket.Listener", "Accept") {
				if !p.dominatesInstr(in, acc) {
					cleanup = false
				}
			}
		}
	})
	det = ""
	if !cleanup {
		det = "listen has no deferred cleanup (installed before the accept loop) that ranges over its codec table closing every entry"
	}
	c.Ob(rule, sc.key(lis, "deferred cleanup closes accepted codecs"), cleanupPos, cleanup, det)
	// accept loop returns on error
	for _, acc := range invokesIn(lis, "socket.Listener", "Accept") {
		_, _, found := p.reachFrom(lis, acc, isReturnLike, func(in ssa.Instruction) bool { return in == acc.(ssa.Instruction) })
		det := ""
		if !found {
			det = "the accept loop has no exit after Accept fails: Listen never returns"
		}
		c.Ob(rule, sc.key(lis, "Accept error exits"), p.InstrPos(acc), found, det)
	}
}

func held(ls *Locksets, in ssa.Instruction, key string) bool { return ls.Held(in, key) }

// localCellOfMap: v is a load of a local variable cell holding a map.
func (p *Prog) localCellOfMap(v ssa.Value) *ssa.Alloc {
	u, ok := v.(*ssa.UnOp)
	if !ok || u.Op != token.MUL {
		return nil
	}
	return p.localCell(u.X)
}
