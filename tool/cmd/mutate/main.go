// Command mutate enumerates and applies generic syntactic mutations to the
// non-test sources of package github.com/hslam/rpc. It is the front half of the
// mutation sweep (sweep/run.py) that measures how sensitive the static checks
// are to small behavioural edits. It never touches /repo: the mutated file is
// written to -out.
package main

import (
	"bytes"
	"encoding/json"
	"flag"
	"fmt"
	"go/ast"
	"go/parser"
	"go/printer"
	"go/token"
	"os"
	"path/filepath"
	"sort"
	"strings"
)

type site struct {
	ID   int    `json:"id"`
	File string `json:"file"`
	Line int    `json:"line"`
	Func string `json:"func"`
	Op   string `json:"op"`
	Desc string `json:"desc"`
}

type mutator struct {
	fset  *token.FileSet
	sites []site
	apply int // id to apply, -1 = list only
	cur   string
	fn    string
	done  bool
}

func (m *mutator) hit(n ast.Node, op, desc string) bool {
	id := len(m.sites)
	pos := m.fset.Position(n.Pos())
	m.sites = append(m.sites, site{id, filepath.Base(pos.Filename), pos.Line, m.fn, op, desc})
	if id == m.apply {
		m.done = true
		return true
	}
	return false
}

func exprStr(fset *token.FileSet, n ast.Node) string {
	var b bytes.Buffer
	printer.Fprint(&b, fset, n)
	s := strings.Join(strings.Fields(b.String()), " ")
	if len(s) > 70 {
		s = s[:70] + "…"
	}
	return s
}

var swapOps = map[token.Token]token.Token{
	token.LSS: token.LEQ, token.LEQ: token.LSS, token.GTR: token.GEQ, token.GEQ: token.GTR,
	token.EQL: token.NEQ, token.NEQ: token.EQL, token.LAND: token.LOR, token.LOR: token.LAND,
}

func (m *mutator) block(list []ast.Stmt) []ast.Stmt {
	out := make([]ast.Stmt, 0, len(list))
	for i := 0; i < len(list); i++ {
		st := list[i]
		switch s := st.(type) {
		case *ast.ExprStmt:
			if _, ok := s.X.(*ast.CallExpr); ok {
				if m.hit(s, "DEL_CALL", "delete statement: "+exprStr(m.fset, s)) {
					continue
				}
			}
		case *ast.DeferStmt:
			if m.hit(s, "DEL_DEFER", "delete "+exprStr(m.fset, s)) {
				continue
			}
		case *ast.GoStmt:
			if m.hit(s, "GO_TO_CALL", "run synchronously: "+exprStr(m.fset, s)) {
				out = append(out, &ast.ExprStmt{X: s.Call})
				continue
			}
		case *ast.AssignStmt:
			if s.Tok == token.ASSIGN && len(s.Lhs) == 1 {
				if _, isSel := s.Lhs[0].(*ast.SelectorExpr); isSel {
					if m.hit(s, "DEL_ASSIGN", "delete assignment: "+exprStr(m.fset, s)) {
						continue
					}
				}
			}
		case *ast.IncDecStmt:
			if m.hit(s, "DEL_INCDEC", "delete "+exprStr(m.fset, s)) {
				continue
			}
		case *ast.ReturnStmt:
		}
		// swap with the next statement when both are simple
		if i+1 < len(list) && simple(list[i]) && simple(list[i+1]) {
			if m.hit(st, "SWAP", "swap with next statement: "+exprStr(m.fset, st)+" <-> "+exprStr(m.fset, list[i+1])) {
				out = append(out, list[i+1], st)
				i++
				continue
			}
		}
		out = append(out, st)
	}
	return out
}

func simple(s ast.Stmt) bool {
	switch x := s.(type) {
	case *ast.ExprStmt:
		_, ok := x.X.(*ast.CallExpr)
		return ok
	case *ast.AssignStmt:
		return x.Tok == token.ASSIGN
	case *ast.IncDecStmt:
		return true
	}
	return false
}

func (m *mutator) Visit(n ast.Node) ast.Visitor {
	switch x := n.(type) {
	case *ast.FuncDecl:
		m.fn = x.Name.Name
		if x.Recv != nil && len(x.Recv.List) > 0 {
			m.fn = exprStr(m.fset, x.Recv.List[0].Type) + "." + x.Name.Name
		}
	case *ast.BlockStmt:
		x.List = m.block(x.List)
	case *ast.CaseClause:
		x.Body = m.block(x.Body)
	case *ast.CommClause:
		x.Body = m.block(x.Body)
	case *ast.IfStmt:
		if m.hit(x, "NEG_COND", "negate condition: if "+exprStr(m.fset, x.Cond)) {
			x.Cond = &ast.UnaryExpr{Op: token.NOT, X: &ast.ParenExpr{X: x.Cond}}
		}
	case *ast.BinaryExpr:
		if to, ok := swapOps[x.Op]; ok {
			if m.hit(x, "BINOP", fmt.Sprintf("%s → %s in %s", x.Op, to, exprStr(m.fset, x))) {
				x.Op = to
			}
		}
	case *ast.BasicLit:
		if x.Kind == token.INT && (x.Value == "0" || x.Value == "1" || x.Value == "2" || x.Value == "3") {
			if m.hit(x, "CONST", "integer literal "+x.Value+" → "+map[string]string{"0": "1", "1": "0", "2": "3", "3": "2"}[x.Value]) {
				x.Value = map[string]string{"0": "1", "1": "0", "2": "3", "3": "2"}[x.Value]
			}
		}
	}
	return m
}

func main() {
	dir := flag.String("dir", "/repo", "package directory")
	apply := flag.Int("apply", -1, "mutation id to apply")
	out := flag.String("out", "", "directory to write the mutated file into (with -apply)")
	flag.Parse()
	files, _ := filepath.Glob(filepath.Join(*dir, "*.go"))
	sort.Strings(files)
	m := &mutator{fset: token.NewFileSet(), apply: *apply}
	for _, f := range files {
		if strings.HasSuffix(f, "_test.go") {
			continue
		}
		af, err := parser.ParseFile(m.fset, f, nil, parser.ParseComments)
		if err != nil {
			fmt.Fprintln(os.Stderr, err)
			os.Exit(2)
		}
		m.cur = f
		ast.Walk(m, af)
		if m.done {
			var b bytes.Buffer
			if err := printer.Fprint(&b, m.fset, af); err != nil {
				fmt.Fprintln(os.Stderr, err)
				os.Exit(2)
			}
			if err := os.WriteFile(filepath.Join(*out, filepath.Base(f)), b.Bytes(), 0o644); err != nil {
				fmt.Fprintln(os.Stderr, err)
				os.Exit(2)
			}
			json.NewEncoder(os.Stdout).Encode(m.sites[*apply])
			return
		}
	}
	if *apply >= 0 {
		fmt.Fprintln(os.Stderr, "no such mutation id")
		os.Exit(2)
	}
	json.NewEncoder(os.Stdout).Encode(m.sites)
}
