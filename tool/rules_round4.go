package main

// Rules added after the fourth round of independent seeded changes (Go-semantics slips,
// concurrency primitives used slightly differently, supporting structures, "optimisations").

import (
	"go/token"
	"go/types"
	"strings"

	"golang.org/x/tools/go/ssa"
)

// ruleConnCloseReleases (C13/C15): the first Close of a connection releases its socket whatever the
// reader has noticed meanwhile — the pool's dead-connection and retirement paths rely on it.
func ruleConnCloseReleases(c *Check, a *Analysis, rule string) {
	p := c.P
	c.Rule(rule, "in Conn.Close every path on which `closing` was not already set reaches the codec's Close (no other early return, e.g. on the reader's shutdown flag): the pool closes dead and retired connections through this method only and ignores its result", 1)
	cc := p.Fn("(*Conn).Close")
	if cc == nil {
		c.Undecided(rule, "(*Conn).Close not found")
		return
	}
	// every path from the entry to a return closes the codec, except across an edge on which
	// `closing` was found set
	setEdges, nTests := p.guardEdges(cc, matchBoolField("Conn", "closing"))
	ok := nTests > 0
	trail := ""
	if _, tr, found := p.reachCut(cc, nil, isReturnLike, func(x ssa.Instruction) bool {
		c2, ok := x.(*ssa.Call)
		return ok && c2.Common().IsInvoke() && c2.Common().Method.Name() == "Close" && namedOf(c2.Common().Value.Type()) == "ClientCodec"
	}, setEdges); found {
		ok = false
		trail = p.lineTrail(tr)
	}
	c.Ob(rule, fname(cc)+"#first Close closes the codec on every path", cc.Pos(), ok, ifs(!ok, "Conn.Close can return without closing the codec although it is the first Close ("+trail+"): a pooled connection whose peer went away first is dropped from the pool with its socket still open — the replacement is dialed next to it"))
}

// ruleResetClean (C04/C01): the Reset method of a pooled object keeps nothing of the previous use.
func ruleResetClean(c *Check, a *Analysis, rule string) {
	p := c.P
	c.Rule(rule, "(*Context).Reset assigns the zero Context: no field (resolved handler, method name, arguments, error text, sequence number) survives from the request the pooled context served before — request-derived strings point into a read buffer that has been recycled since", 1)
	fn := p.Fn("(*Context).Reset")
	if fn == nil {
		c.Undecided(rule, "(*Context).Reset not found")
		return
	}
	if len(fn.Params) == 0 {
		c.Undecided(rule, "(*Context).Reset has no receiver")
		return
	}
	recv := fn.Params[0]
	key := p.varKey(recv)
	whole := 0
	clean := true
	what := ""
	for _, st := range storesIn(fn) {
		if p.varKey(st.Addr) == key {
			whole++
			if _, isConst := st.Val.(*ssa.Const); !isConst {
				if ld, ok := st.Val.(*ssa.UnOp); ok && ld.Op == token.MUL {
					if al, ok := ld.X.(*ssa.Alloc); ok {
						for _, fs := range storesIn(fn) {
							if fr, base, ok := fieldOfAddr(fs.Addr); ok && base == ssa.Value(al) && !isZeroValue(fs.Val) {
								clean, what = false, fr.String()
							}
						}
					} else {
						clean, what = false, "a non-zero value"
					}
				} else {
					clean, what = false, "a non-zero value"
				}
			}
			continue
		}
		// go/ssa writes `*ctx = Context{f: x}` as a zero store followed by field stores
		if fr, base, ok := fieldOfAddr(st.Addr); ok && p.varKey(base) == key && !isZeroValue(st.Val) {
			clean, what = false, fr.String()
		}
	}
	if whole == 0 {
		// field by field: every field must be cleared
		if pt, isPtr := recv.Type().Underlying().(*types.Pointer); isPtr {
			if stt, isSt := pt.Elem().Underlying().(*types.Struct); isSt {
				for i := 0; i < stt.NumFields(); i++ {
					cleared := false
					for _, st := range storesIn(fn) {
						if fa, isFA := st.Addr.(*ssa.FieldAddr); isFA && fa.Field == i && p.varKey(fa.X) == key && isZeroValue(st.Val) {
							cleared = true
						}
					}
					if !cleared {
						clean, what = false, "Context."+stt.Field(i).Name()
					}
				}
			}
		}
	}
	c.Ob(rule, fname(fn)+"#resets to the zero value", fn.Pos(), clean, ifs(!clean, "a recycled Context keeps "+what+" from the request it served before: the next request on this pooled object is handled with state resolved for another one (a handler looked up for a different method name, a stale error text)"))
}

// ruleWaitUnderFlag (C10/C03): no lost wake-up in the blocking stream read.
func ruleWaitUnderFlag(c *Check, a *Analysis, rule string) {
	p := c.P
	c.Rule(rule, "in the blocking stream read every path from taking stream.mut (and from the return of a previous Wait) to cond.Wait() reads the closed flag: stop() sets the flag and broadcasts under the same mutex, so a reader that tested the flag before locking can park after the only broadcast and never wake", 1)
	n := 0
	sc := siteCounter{}
	isClosedRead := func(x ssa.Instruction) bool {
		if cc, ok := x.(*ssa.Call); ok {
			if cal := cc.Common().StaticCallee(); cal != nil && strings.HasPrefix(cal.String(), "sync/atomic.Load") && len(cc.Common().Args) > 0 {
				if fr, _, ok := fieldOfAddr(cc.Common().Args[0]); ok && fr.Struct == "stream" && fr.Field == "closed" {
					return true
				}
			}
		}
		if v, ok := x.(ssa.Value); ok && isLoadOf(v, "stream", "closed") {
			return true
		}
		return false
	}
	for _, fn := range p.Fns {
		var waits []ssa.Instruction
		eachInstr(fn, func(in ssa.Instruction) {
			if cc, ok := in.(*ssa.Call); ok {
				if cal := cc.Common().StaticCallee(); cal != nil && cal.String() == "(*sync.Cond).Wait" {
					waits = append(waits, in)
				}
			}
		})
		if len(waits) == 0 {
			continue
		}
		isWait := func(x ssa.Instruction) bool {
			for _, w := range waits {
				if w == x {
					return true
				}
			}
			return false
		}
		// sources: the acquisitions of stream.mut, and the waits themselves
		var srcs []ssa.Instruction
		eachInstr(fn, func(in ssa.Instruction) {
			if cc, ok := in.(*ssa.Call); ok {
				if cal := cc.Common().StaticCallee(); cal != nil && cal.String() == "(*sync.Mutex).Lock" && len(cc.Common().Args) > 0 {
					if fr, _, ok := fieldOfAddr(cc.Common().Args[0]); ok && fr.Struct == "stream" && fr.Field == "mut" {
						srcs = append(srcs, in)
					}
				}
			}
		})
		srcs = append(srcs, waits...)
		for _, s := range srcs {
			n++
			_, tr, found := p.reachFrom(fn, s, isWait, isClosedRead)
			kind := "Lock"
			if isWait(s) {
				kind = "Wait"
			}
			c.Ob(rule, sc.key(fn, "closed read between "+kind+" and Wait"), p.InstrPos(s), !found, ifs(found, "the reader can go from "+p.At(s)+" to cond.Wait() without reading the closed flag under the mutex ("+p.lineTrail(tr)+"): a stop() that runs in between is missed and the reader blocks for ever on a stream that is closed"))
		}
	}
	if n == 0 {
		c.Undecided(rule, "no cond.Wait found")
	}
}

// bufOriginsOK walks the origins of a byte slice that receives peer bytes for the user: a fresh
// allocation of this invocation, the caller's own buffer (a parameter of an exported method, Call.Buffer,
// the context buffer) — never a field that persists across calls.
func bufOriginsOK(p *Prog, v ssa.Value, depth int, seen map[ssa.Value]bool) (bool, string) {
	if v == nil || depth == 0 || seen[v] {
		return true, ""
	}
	seen[v] = true
	v = p.canon(v)
	switch x := v.(type) {
	case *ssa.MakeSlice:
		return true, ""
	case *ssa.Const:
		return true, ""
	case *ssa.Slice:
		return bufOriginsOK(p, x.X, depth-1, seen)
	case *ssa.ChangeType:
		return bufOriginsOK(p, x.X, depth-1, seen)
	case *ssa.Phi:
		for _, e := range x.Edges {
			if ok, w := bufOriginsOK(p, e, depth-1, seen); !ok {
				return false, w
			}
		}
		return true, ""
	case *ssa.Parameter:
		// the caller's buffer
		return true, ""
	case *ssa.Call:
		if calleeName(x) == "builtin append" && len(x.Call.Args) > 0 {
			return bufOriginsOK(p, x.Call.Args[0], depth-1, seen)
		}
		if cal := p.calleeOf(x); cal != nil && cal.Pkg == p.RPC {
			switch fname(cal) {
			case "checkBuffer":
				if len(x.Common().Args) > 0 {
					return bufOriginsOK(p, x.Common().Args[0], depth-1, seen)
				}
			case "GetContextBuffer":
				return true, ""
			}
			if p.isPlainHelper(cal) {
				ok := true
				w := ""
				eachInstrLocal(cal, func(in ssa.Instruction) {
					if r, isR := in.(*ssa.Return); isR && len(r.Results) > 0 {
						if o, ww := bufOriginsOK(p, r.Results[0], depth-1, seen); !o {
							ok, w = false, ww
						}
					}
				})
				return ok, w
			}
		}
		return true, ""
	case *ssa.UnOp:
		if x.Op == token.MUL {
			if fr, _, ok := fieldOfAddr(x.X); ok {
				if fr.Struct == "Call" && fr.Field == "Buffer" {
					return true, "" // supplied by the caller for this call
				}
				return false, fr.String()
			}
			if cell := p.localCell(x.X); cell != nil {
				for _, s := range p.storesToCell(cell) {
					if ok, w := bufOriginsOK(p, s, depth-1, seen); !ok {
						return false, w
					}
				}
			}
		}
		return true, ""
	}
	return true, ""
}

// ruleUserBytesFresh (C09/C11): the memory that receives peer bytes for the user is this call's own.
func ruleUserBytesFresh(c *Check, a *Analysis, rule string) {
	p := c.P
	c.Rule(rule, "every buffer that receives a copy of peer bytes and is then decoded for the user (Call.Value in the reader, the message buffer of stream.ReadMessage) is a fresh allocation of that delivery or the buffer the caller supplied for it — never memory kept in a field from an earlier delivery (a zero-copy body codec hands the user slices into it, and the next delivery overwrites them)", 2)
	sc := siteCounter{}
	n := 0
	for _, fn := range p.Fns {
		isStreamRead := fname(topParent(fn)) == "(*stream).ReadMessage"
		eachInstr(fn, func(in ssa.Instruction) {
			cc, ok := in.(*ssa.Call)
			if !ok || calleeName(cc) != "builtin copy" {
				return
			}
			dst := p.canon(cc.Call.Args[0])
			fr, base, isF := fieldOfLoad(dst)
			switch {
			case isF && fr.Struct == "Call" && fr.Field == "Value":
				// the values assigned to this Call.Value in the function
				for _, st := range storesIn(fn) {
					f2, b2, ok2 := fieldOfAddr(st.Addr)
					if !ok2 || f2.Struct != "Call" || f2.Field != "Value" || !p.sameVar(b2, base) || nilConst(st.Val) {
						continue
					}
					n++
					okb, w := bufOriginsOK(p, st.Val, 8, map[ssa.Value]bool{})
					c.Ob(rule, sc.key(fn, "Call.Value receives fresh or caller-supplied memory"), p.InstrPos(st), okb, ifs(!okb, "the reply bytes are copied into memory taken from "+w+", which an earlier reply handed to the user may still point into"))
				}
			case isStreamRead:
				n++
				okb, w := bufOriginsOK(p, cc.Call.Args[0], 8, map[ssa.Value]bool{})
				c.Ob(rule, sc.key(fn, "message buffer is fresh or caller-supplied"), p.InstrPos(in), okb, ifs(!okb, "the stream message is copied into memory taken from "+w+", kept across messages: a message already delivered (zero-copy codecs return slices into it) changes when the next one is read"))
			}
		})
	}
	if n == 0 {
		c.Undecided(rule, "no copy of peer bytes into Call.Value / a stream message buffer found")
	}
}

// ruleSeqMonotone (C01/C06): sequence numbers are never handed back.
func ruleSeqMonotone(c *Check, a *Analysis, rule string) {
	p := c.P
	c.Rule(rule, "every store into Conn.seq is Conn.seq plus a positive constant: a number is never handed back (after a failed write another call may have registered meanwhile; rewinding lands on the number of a call that is still outstanding, whose entry the next registration overwrites and whose response — error text included — is delivered to the wrong caller)", 1)
	sc := siteCounter{}
	n := 0
	for _, s := range p.storesToField("Conn", "seq") {
		st := s.Instr.(*ssa.Store)
		n++
		ok := false
		if b, isBin := st.Val.(*ssa.BinOp); isBin && b.Op == token.ADD {
			x, y := b.X, b.Y
			if _, isC := x.(*ssa.Const); isC {
				x, y = y, x
			}
			if k, isK := constInt(y); isK && k > 0 && isLoadOf(p.canon(x), "Conn", "seq") {
				ok = true
			}
		}
		c.Ob(rule, sc.key(s.Fn, "Conn.seq only grows"), p.InstrPos(st), ok, ifs(!ok, "Conn.seq is assigned something other than Conn.seq+k (k>0): sequence numbers can repeat while calls registered under them are outstanding"))
	}
	if n == 0 {
		c.Undecided(rule, "no store into Conn.seq found")
	}
}

// rulePoolOwnBuffers (C11/C12): only memory that came from the buffer pool goes back into it.
func rulePoolOwnBuffers(c *Check, a *Analysis, rule string) {
	p := c.P
	c.Rule(rule, "every slice handed to a buffer pool's PutBuffer is memory the library obtained itself (GetBuffer / a pooled field / a fresh allocation), never the result of a pluggable call (a body codec's or header encoder's Marshal may return the caller's own argument slice: pooled, it becomes scratch space for every connection of the process while the caller still owns it)", 6)
	sc := siteCounter{}
	var bad func(v ssa.Value, d int, seen map[ssa.Value]bool) string
	bad = func(v ssa.Value, d int, seen map[ssa.Value]bool) string {
		if v == nil || d == 0 || seen[v] {
			return ""
		}
		seen[v] = true
		for _, o := range p.origins(v) {
			o = p.canon(o)
			switch x := o.(type) {
			case *ssa.Slice:
				if w := bad(x.X, d-1, seen); w != "" {
					return w
				}
			case *ssa.Extract:
				if cc, ok := x.Tuple.(*ssa.Call); ok && cc.Common().IsInvoke() {
					return "the result of " + calleeName(cc)
				}
			case *ssa.Call:
				if x.Common().IsInvoke() {
					n := x.Common().Method.Name()
					if n == "GetBuffer" {
						continue
					}
					return "the result of " + calleeName(x)
				}
				if cal := x.Common().StaticCallee(); cal != nil {
					n := cal.Name()
					if strings.Contains(n, "GetBuffer") || n == "checkBuffer" || n == "GetContextBuffer" || strings.HasPrefix(calleeName(x), "builtin ") {
						if n == "checkBuffer" && len(x.Common().Args) > 0 {
							if w := bad(x.Common().Args[0], d-1, seen); w != "" {
								return w
							}
						}
						continue
					}
					if cal.Pkg != p.RPC {
						return "the result of " + calleeName(x)
					}
				} else {
					return "the result of a call through a function value"
				}
			}
		}
		return ""
	}
	for _, fn := range p.Fns {
		eachInstr(fn, func(in ssa.Instruction) {
			cc, ok := in.(*ssa.Call)
			if !ok {
				return
			}
			name := ""
			var arg ssa.Value
			if cc.Common().IsInvoke() && cc.Common().Method.Name() == "PutBuffer" && len(cc.Common().Args) == 1 {
				name, arg = "PutBuffer", cc.Common().Args[0]
			} else if cal := cc.Common().StaticCallee(); cal != nil && cal.Name() == "PutBuffer" && len(cc.Common().Args) >= 1 {
				name, arg = "PutBuffer", cc.Common().Args[len(cc.Common().Args)-1]
			}
			if name == "" || fn.Name() == "PutBuffer" {
				return
			}
			w := bad(arg, 6, map[ssa.Value]bool{})
			c.Ob(rule, sc.key(fn, "pooled buffer is the library's own"), p.InstrPos(in), w == "", ifs(w != "", "the slice handed to the pool can be "+w+": memory the library does not own is recycled as scratch space"))
		})
	}
}

// ruleSnapshotFresh (C16/C18): the remembered live-address list is private to the comparison.
func ruleSnapshotFresh(c *Check, a *Analysis, rule string) {
	p := c.P
	c.Rule(rule, "the address list stored into Client.last (the snapshot the next probe compares the live set with) is built in a slice allocated by that very probe — never in scratch memory kept in another field, which the next probe overwrites before comparing (a change that keeps the number of live targets then compares the array with itself and the live list is never rebuilt)", 1)
	sc := siteCounter{}
	n := 0
	var fresh func(v ssa.Value, d int, seen map[ssa.Value]bool) string
	fresh = func(v ssa.Value, d int, seen map[ssa.Value]bool) string {
		if v == nil || d == 0 || seen[v] {
			return ""
		}
		seen[v] = true
		for _, o := range p.origins(v) {
			o = p.canon(o)
			switch x := o.(type) {
			case *ssa.Slice:
				if w := fresh(x.X, d-1, seen); w != "" {
					return w
				}
			case *ssa.Call:
				if calleeName(x) == "builtin append" {
					if w := fresh(x.Call.Args[0], d-1, seen); w != "" {
						return w
					}
				}
			case *ssa.UnOp:
				if x.Op == token.MUL {
					if fr, _, ok := fieldOfAddr(x.X); ok {
						return fr.String()
					}
				}
			}
		}
		return ""
	}
	for _, s := range p.storesToField("Client", "last") {
		st := s.Instr.(*ssa.Store)
		if nilConst(st.Val) {
			continue
		}
		n++
		w := fresh(st.Val, 8, map[ssa.Value]bool{})
		c.Ob(rule, sc.key(s.Fn, "Client.last holds a private slice"), p.InstrPos(st), w == "", ifs(w != "", "the snapshot shares its backing array with "+w+": the next probe rewrites it before the comparison, so a change of the live set that keeps its size goes unnoticed — callers keep being routed to a dead target and a recovered one is never used"))
	}
	if n == 0 {
		c.Undecided(rule, "no store into Client.last found")
	}
}

// ruleCompletionChanBuffered (C02/C18): channels the library makes for non-blocking completion signals have room.
func ruleCompletionChanBuffered(c *Check, a *Analysis, rule string, elem string) {
	p := c.P
	c.Rule(rule, "every channel of *"+elem+" that the library itself makes has a constant capacity ≥ 1: completions and wake-ups are delivered by a non-blocking send (select with default) after the entry has left its table, so on an unbuffered channel a signal that arrives before the receiver is parked is dropped and nothing ever sends it again", 1)
	sc := siteCounter{}
	for _, fn := range p.AllFns {
		eachInstrLocal(fn, func(in ssa.Instruction) {
			mk, ok := in.(*ssa.MakeChan)
			if !ok {
				return
			}
			ch, ok := mk.Type().Underlying().(*types.Chan)
			if !ok {
				return
			}
			el := namedOf(ch.Elem())
			if el != elem {
				return
			}
			k, isK := constInt(mk.Size)
			okc := isK && k >= 1
			c.Ob(rule, sc.key(topParent(fn), "chan "+el+" has capacity"), p.InstrPos(in), okc, ifs(!okc, "a completion channel is made without capacity: the non-blocking signal is lost whenever the receiver is not yet parked in its select — the caller then waits out its full timeout (or for ever)"))
		})
	}
}

// ruleQueueConfig (C05): the per-connection queues run in the one configuration whose ordering was read in the dependency.
func ruleQueueConfig(c *Check, a *Analysis, rule string) {
	p := c.P
	c.Rule(rule, "the options passed to scheduler.New set nothing but Threshold (no IdleTime, no other field): the FIFO behaviour of the one-worker queue is trusted for that configuration only — with an idle time the dependency's idle check can retire a worker that is in the middle of a task and strand the next queued request until a later one overtakes it", 5)
	sc := siteCounter{}
	for _, fn := range p.Fns {
		for _, nw := range callsIn(fn, "scheduler.New") {
			call := nw.(*ssa.Call)
			nargs := p.newArgs(call)
			if len(nargs) < 2 {
				continue
			}
			bad := ""
			seen := map[ssa.Value]bool{}
			var look func(v ssa.Value, d int)
			look = func(v ssa.Value, d int) {
				if v == nil || d == 0 || seen[v] {
					return
				}
				seen[v] = true
				for _, o := range p.origins(v) {
					o = p.canon(o)
					switch x := o.(type) {
					case *ssa.Alloc:
						if w := nonThresholdField(x); w != "" {
							bad = w
						}
					case *ssa.Const:
					case *ssa.UnOp:
						// a package-level options value: what is stored into it anywhere
						if g, ok := x.X.(*ssa.Global); ok && x.Op == token.MUL {
							n := 0
							for _, f := range p.SSA.Package(g.Pkg.Pkg).Members {
								fn, ok := f.(*ssa.Function)
								if !ok {
									continue
								}
								for _, cl := range withClosuresLocal(fn) {
									eachInstrLocal(cl, func(in ssa.Instruction) {
										if st, ok := in.(*ssa.Store); ok && st.Addr == ssa.Value(g) {
											n++
											look(st.Val, d-1)
										}
									})
								}
							}
							if n == 0 {
								bad = "options from " + g.Name() + " (never assigned)"
							}
						} else {
							bad = "options built elsewhere (" + describe(o) + ")"
						}
					default:
						bad = "options built elsewhere (" + describe(o) + ")"
					}
				}
			}
			look(nargs[1], 4)
			c.Ob(rule, sc.key(fn, "scheduler.Options{Threshold} only"), p.InstrPos(call), bad == "", ifs(bad != "", "this queue is configured with "+bad+": outside the configuration for which one worker means first-in first-out"))
		}
	}
}

// ruleDecodeRouteConstant (C05): a connection's frames all take the same route.
func ruleDecodeRouteConstant(c *Check, a *Analysis, rule string) {
	p := c.P
	c.Rule(rule, "in every reader loop (client reader, ServeCodec, poll callback) the decode function is called directly — instead of through the connection's one-worker decode queue — only under the connection-constant direct-IO setting: if the route depended on the frame (its size, its kind), a frame decoded inline would overtake earlier frames still waiting in the queue", 3)
	sc := siteCounter{}
	n := 0
	for _, spec := range []struct{ decode, st, field string }{
		{"(*Conn).read", "Conn", "directIO"},
		{"(*Server).ServeRequest", "Server", "directIO"},
	} {
		dec := p.Fn(spec.decode)
		if dec == nil {
			c.Undecided(rule, spec.decode+" not found")
			continue
		}
		for _, cs := range p.Callers(dec) {
			f := cs.Parent()
			home := p.homeOf(f)
			top := home
			// a reader: the function that calls the decode directly also hands it to a queue in a closure
			queued := false
			for _, g := range append(withClosures(home), withClosures(f)...) {
				if g != home && g != f && len(callsInLocal(g, spec.decode)) > 0 {
					queued = true
				}
			}
			if !queued {
				continue
			}
			n++
			g, _ := p.guardedBy(cs, matchBoolField(spec.st, spec.field))
			c.Ob(rule, sc.key(top, "inline decode only with direct IO"), p.InstrPos(cs), g, ifs(!g, "the reader can call "+spec.decode+" directly although direct IO is off: frames that take this path are decoded (and completed / dispatched) ahead of earlier frames waiting in the decode queue"))
		}
	}
	if n == 0 {
		c.Undecided(rule, "no reader with both an inline and a queued decode found")
	}
}

func callsInLocal(fn *ssa.Function, name string) []ssa.CallInstruction {
	var out []ssa.CallInstruction
	eachInstrLocal(fn, func(in ssa.Instruction) {
		if cc, ok := in.(ssa.CallInstruction); ok && calleeName(cc) == name {
			out = append(out, cc)
		}
	})
	return out
}

// nonThresholdField names a field other than Threshold that is given a non-zero value in the options literal al.
func nonThresholdField(al *ssa.Alloc) string {
	bad := ""
	if al.Referrers() == nil {
		return ""
	}
	for _, r := range *al.Referrers() {
		fa, ok := r.(*ssa.FieldAddr)
		if !ok || fa.Referrers() == nil {
			continue
		}
		name := ""
		if pt, ok := al.Type().Underlying().(*types.Pointer); ok {
			if stt, ok := pt.Elem().Underlying().(*types.Struct); ok && fa.Field < stt.NumFields() {
				name = stt.Field(fa.Field).Name()
			}
		}
		for _, u := range *fa.Referrers() {
			if st, ok := u.(*ssa.Store); ok && name != "Threshold" && !isZeroValue(st.Val) {
				bad = name
			}
		}
	}
	return bad
}

// ruleCloseAckUnregisters (C15/C10): the acknowledgement of a stream close removes the stream's entries.
func ruleCloseAckUnregisters(c *Check, a *Analysis, rule string) {
	p := c.P
	if _, ok := c.rules[rule]; !ok {
		c.Rule(rule, "stream close acknowledgement", 1)
	}
	sc := siteCounter{}
	n := 0
	for _, fn := range p.Fns {
		if recvName(topParent(fn)) != "Conn" || len(pendingOps2(p, topParent(fn), "lookup")) == 0 || len(pendingOps2(p, topParent(fn), "update")) > 0 {
			continue
		}
		// edges on which the response is known to acknowledge a stream close
		edges, k := p.guardEdges(fn, matchFieldEqConst("upgrade", "Stream", 3))
		if k == 0 {
			continue
		}
		for e := range edges {
			n++
			delP, delS := false, false
			_, _, missP := p.reachFromBlock(fn, e.to, isReturnLike, func(x ssa.Instruction) bool {
				for _, d := range pendingOps(p, "delete") {
					if d.Instr == x {
						return true
					}
				}
				return false
			}, nil)
			delP = !missP
			_, _, missS := p.reachFromBlock(fn, e.to, isReturnLike, func(x ssa.Instruction) bool {
				if cc, ok := x.(*ssa.Call); ok && calleeName(cc) == "builtin delete" && len(cc.Call.Args) > 0 {
					return isLoadOf(p.canon(cc.Call.Args[0]), "Conn", "streams")
				}
				return false
			}, nil)
			delS = !missS
			// the pending entry is removed only when the stream is still registered: that test's other edge is exempt
			if !delP {
				cut, _ := p.guardEdges(fn, func(cond ssa.Value) (bool, bool) {
					// `_, ok := conn.streams[seq]; if ok` — the not-registered edge
					if ex, isX := p.canon(cond).(*ssa.Extract); isX && ex.Index == 1 {
						if lk, isL := ex.Tuple.(*ssa.Lookup); isL && isLoadOf(p.canon(lk.X), "Conn", "streams") {
							return true, false
						}
					}
					return false, false
				})
				_, _, missP2 := p.reachFromBlock(fn, e.to, isReturnLike, func(x ssa.Instruction) bool {
					for _, d := range pendingOps(p, "delete") {
						if d.Instr == x {
							return true
						}
					}
					return false
				}, cut)
				delP = !missP2
			}
			ok := delP && delS
			c.Ob(rule, sc.key(fn, "close ack removes pending and streams entries"), p.InstrPos(e.to.Instrs[0]), ok, ifs(!ok, "the acknowledgement of a stream close does not remove the stream's entry from Conn.pending / Conn.streams: NumCalls never returns to zero and housekeeping never retires the otherwise unused connection"))
		}
	}
	if n == 0 {
		c.Undecided(rule, "no close-acknowledgement branch (upgrade.Stream == closeStream) found in the response reader")
	}
}

// ruleQueuePerConn (C05): the queues of a poll-mode connection are that connection's own.
func ruleQueuePerConn(c *Check, a *Analysis, rule string) {
	p := c.P
	c.Rule(rule, "every queue stored into a poll-mode connection context (ServerContext.sched / pipeline / readStream) is created by scheduler.New in the very function that builds that context — one per accepted connection — and is not a queue captured from the enclosing listener scope: connections sharing one worker hold each other up, and one connection's teardown closes (and runs inline) the others' queued requests", 2)
	sc := siteCounter{}
	n := 0
	for _, f := range []string{"sched", "pipeline", "readStream"} {
		for _, s := range p.storesToField("ServerContext", f) {
			st := s.Instr.(*ssa.Store)
			if nilConst(st.Val) {
				continue
			}
			n++
			ok := true
			why := ""
			for _, o := range p.origins(st.Val) {
				o = p.canon(o)
				if nilConst(o) {
					continue
				}
				cc, isC := o.(*ssa.Call)
				if !isC || calleeName(cc) != "scheduler.New" {
					ok, why = false, describe(o)
					continue
				}
				if cc.Parent() != st.Parent() && !p.sameFn(cc.Parent(), st.Parent()) {
					ok, why = false, "a queue created in "+fname(cc.Parent())+" (once per listener)"
				}
			}
			c.Ob(rule, sc.key(s.Fn, "ServerContext."+f+" created per connection"), p.InstrPos(st), ok, ifs(!ok, "the connection's "+f+" queue is "+why+", not one created for this connection"))
		}
	}
	if n == 0 {
		c.Undecided(rule, "no store into ServerContext.sched/pipeline/readStream found")
	}
}

// ruleUpdateFresh (C16/C18): Update installs fresh target records.
func ruleUpdateFresh(c *Check, a *Analysis, rule string) {
	p := c.P
	c.Rule(rule, "every record Update puts into the new target map is allocated by that Update call (never carried over from the previous map): the detector probes only records whose alive flag is false and the live list is rebuilt only by a probe, so carried-over records that still say alive are never probed and the cleared live list stays empty — every caller waits out its timeout although healthy targets are configured", 1)
	up := p.Fn("(*Client).Update")
	if up == nil {
		c.Undecided(rule, "(*Client).Update not found")
		return
	}
	sc := siteCounter{}
	n := 0
	eachInstr(up, func(in ssa.Instruction) {
		mu, ok := in.(*ssa.MapUpdate)
		if !ok || !strings.HasSuffix(mu.Map.Type().String(), "map[string]*"+rpcPath+".target") {
			return
		}
		n++
		okf := true
		why := ""
		for _, o := range p.origins(mu.Value) {
			o = p.canon(o)
			if al, isA := o.(*ssa.Alloc); isA && (al.Parent() == in.Parent() || p.sameFn(al.Parent(), in.Parent())) {
				continue // allocated by this Update (possibly in a small constructor helper)
			}
			okf, why = false, describe(o)
		}
		c.Ob(rule, sc.key(up, "new map holds records allocated here"), p.InstrPos(in), okf, ifs(!okf, "Update installs "+why+" — a record of the previous configuration, alive flag and all"))
	})
	if n == 0 {
		c.Undecided(rule, "Update does not fill a target map")
	}
}

// ruleSnapshotCompare (C18): the live-set comparison looks at the whole lists.
func ruleSnapshotCompare(c *Check, a *Analysis, rule string) {
	p := c.P
	c.Rule(rule, "the test that decides whether the live list is rebuilt compares the new address list with Client.last completely — reflect.DeepEqual, or a comparison helper that also compares the two lengths: a helper that only walks one list calls a list that lost its last element `unchanged`, and the dead target keeps its share of calls", 0)
	sc := siteCounter{}
	for _, fn := range p.Fns {
		if recvName(topParent(fn)) != "Client" {
			continue
		}
		eachInstr(fn, func(in ssa.Instruction) {
			cc, ok := in.(*ssa.Call)
			if !ok || len(cc.Common().Args) != 2 {
				return
			}
			usesLast := false
			for _, arg := range cc.Common().Args {
				for _, o := range p.origins(arg) {
					if isLoadOf(p.canon(o), "Client", "last") {
						usesLast = true
					}
				}
			}
			if !usesLast {
				return
			}
			cal := cc.Common().StaticCallee()
			if cal == nil {
				return
			}
			if cal.String() == "reflect.DeepEqual" {
				c.Ob(rule, sc.key(fn, "live set compared with DeepEqual"), p.InstrPos(in), true, "")
				return
			}
			if cal.Pkg != p.RPC || cal.Blocks == nil || cal.Signature.Results().Len() != 1 {
				return
			}
			// a comparison helper of the package: it must compare the lengths of its two parameters
			lens := false
			eachInstrLocal(cal, func(x ssa.Instruction) {
				b, isB := x.(*ssa.BinOp)
				if !isB || (b.Op != token.EQL && b.Op != token.NEQ) {
					return
				}
				isLenOf := func(v ssa.Value, prm *ssa.Parameter) bool {
					lc, ok := v.(*ssa.Call)
					return ok && calleeName(lc) == "builtin len" && len(lc.Call.Args) == 1 && lc.Call.Args[0] == ssa.Value(prm)
				}
				if len(cal.Params) >= 2 {
					p0, p1 := cal.Params[len(cal.Params)-2], cal.Params[len(cal.Params)-1]
					if (isLenOf(b.X, p0) && isLenOf(b.Y, p1)) || (isLenOf(b.X, p1) && isLenOf(b.Y, p0)) {
						lens = true
					}
				}
			})
			c.Ob(rule, sc.key(fn, "comparison helper compares lengths"), p.InstrPos(in), lens, ifs(!lens, fname(cal)+" decides whether the live set changed without comparing the lengths of the two lists: a live set that only lost (or only gained) trailing elements counts as unchanged"))
		})
	}
}
