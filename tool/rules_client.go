package main

import (
	"fmt"
	"go/token"
	"go/types"
	"strings"

	"golang.org/x/tools/go/ssa"
)

func init() {
	register("C16", &propDef{
		Meta: PropMeta{
			Explanation: "Routing-state invariant by enumeration of writers: (1) Client.targets/list/minHeap/last/pos/pending are only accessed under Client.lock; (2) Update replaces targets and clears list, minHeap and last in one critical section, and inserts an address into the new map only under len(address) > 0 and a lookup miss (dedup); (3) every non-empty value stored into Client.list is built, in the same critical section, only from elements obtained by ranging over the current Client.targets; the minHeap stored with it is a copy of that list; the cursor is reset in that section; (4) every address handed to the RoundTripper by a Client method originates from director()'s results (the Director hook's non-empty string, or the address of the target picked by schedule()), the empty-string constant, or — for the health probe — the probed target's own address; director returns the hook's result only under len(address) > 0; schedule's picks are elements of list/minHeap (C17).",
			NotDecided:  "\"After Update returns\" in wall-clock terms is implied by (1)–(3) plus the lock, not measured.",
			Assumptions: []string{"RoundTripper implementations route by the address they are given (C14 for Transport)"},
			Trusted:     commonTrusted,
		},
		Run: runC16,
	})
	register("C17", &propDef{
		Meta: PropMeta{
			Explanation: "Narrow structural conditions of the scheduling policies: (1) every target returned by schedule() is an element load of Client.list or Client.minHeap (never of the configured map), the address returned for a single live target is that element's address, and the random index is rand.Intn(len(Client.list)); (2) every path that picks Client.list[Client.pos] afterwards stores into Client.pos a value computed from Client.pos and len(Client.list) (the cursor advances, modulo the live list); (3) the least-time non-probe pick reads minHeap[0] only after the heapify call on Client.minHeap; the probe arm is control dependent on the lastTime+Tick test and stores lastTime on that arm (at most one probe per Tick); (4) target.Update stores the clientLatency constant on the not-alive arm and only there resets to the maximum; heapDown/minHeap permute the slice only through Swap.",
			NotDecided:  "Distinctness of n consecutive round-robin picks, heap minimality, the EWMA arithmetic: value-level claims; checking the literal shape of those expressions would be a frozen fragment and is declined (DESIGN.md §4).",
			Assumptions: []string{},
			Trusted:     commonTrusted,
		},
		Run: runC17,
	})
	register("C18", &propDef{
		Meta: PropMeta{
			Explanation: "Waiter rendez-vous and bounded waiting: (1) wait tests closed and inserts into Client.pending in one critical section of Client.lock, the insertion is reachable only when not closed, and a waiter arriving after Close is completed at once with ErrShutdown; Close sets closed (CAS) and sweeps pending — delete, err=ErrShutdown, done() — in one critical section; (2) checkPending runs under the lock, is called from the periodic detector and from every rebuild that leaves the live list non-empty, and removes what it wakes; (3) the only blocking receive on a waiter channel is a select that also has a timer arm armed from Client.DialTimeout; the timer arm unregisters the waiter under the lock and yields ErrTimeout; (4) Call/CallWithContext return director's error unchanged, the other call forms forward the empty address (for which Transport.getConn yields ErrDial); (5) only ErrDial clears target.alive and the detector probes exactly the targets that are not alive.",
			NotDecided:  "Detection latency, wake-up latency and fallback timing.",
			Assumptions: []string{"time.Timer fires after its duration"},
			Trusted:     commonTrusted,
		},
		Run: runC18,
	})
}

// isEmptySliceValue: nil, or a slice of a zero-length array (T{}).
func isEmptySliceValue(p *Prog, v ssa.Value) bool {
	v = p.canon(unwrap(v))
	if nilConst(v) {
		return true
	}
	if ct, ok := v.(*ssa.ChangeType); ok {
		return isEmptySliceValue(p, ct.X)
	}
	if sl, ok := v.(*ssa.Slice); ok {
		if al, ok := sl.X.(*ssa.Alloc); ok {
			if pt, ok := al.Type().Underlying().(*types.Pointer); ok {
				if arr, ok := pt.Elem().Underlying().(*types.Array); ok && arr.Len() == 0 {
					return true
				}
			}
		}
	}
	if mk, ok := v.(*ssa.MakeSlice); ok {
		if k, ok := constInt(mk.Len); ok && k == 0 {
			return true
		}
	}
	return false
}

func runC16(c *Check, a *Analysis) {
	p := c.P
	ruleLockBalance(c, a, "R-LOCK-BALANCE", "Client.lock")
	ruleSnapshotFresh(c, a, "R-SNAPSHOT-FRESH")
	ruleUpdateFresh(c, a, "R-UPDATE-FRESH")
	ls := a.Locks()
	sc := siteCounter{}
	c.Rule("R-LOCK", "Client.targets/list/minHeap/last/pos/pending/seq/lastTime are only accessed with Client.lock held", 30)
	ruleLock(c, a, "R-LOCK", "Client", "targets", "list", "minHeap", "last", "pos", "pending", "seq", "lastTime")

	// ---- Update
	c.Rule("R-UPDATE", "Update stores the new target map and clears list, minHeap and last in one critical section; addresses enter the new map only when non-empty and not yet present", 4)
	up := p.Fn("(*Client).Update")
	if up == nil {
		c.Undecided("R-UPDATE", "(*Client).Update not found")
	} else {
		ts := p.fieldStoresIn(up, "Client", "targets")
		if len(ts) == 0 {
			c.Undecided("R-UPDATE", "Update does not store Client.targets")
		}
		for _, t := range ts {
			for _, f := range []string{"list", "minHeap", "last"} {
				okc := false
				for _, s := range p.fieldStoresIn(up, "Client", f) {
					if isEmptySliceValue(p, s.Val) && (ls.SameSection(t, s, "Client.lock") || ls.SameSection(s, t, "Client.lock")) {
						okc = true
					}
				}
				c.Ob("R-UPDATE", sc.key(up, "targets= and "+f+"=empty in one section"), p.InstrPos(t), okc, ifs(!okc, "Update replaces the target map without clearing Client."+f+" in the same critical section: calls keep being routed to removed targets"))
			}
		}
		// the new map is installed on every path: no early return keeps the old targets
		if len(ts) > 0 {
			_, tr, okp := p.mustPass(up, nil, func(x ssa.Instruction) bool {
				for _, t := range ts {
					if x == ssa.Instruction(t) {
						return true
					}
				}
				return false
			})
			c.Ob("R-UPDATE", sc.key(up, "targets replaced on every path"), up.Pos(), okp, ifs(!okp, "a path through Update returns without installing the new target map ("+p.lineTrail(tr)+"): removed targets stay configured and are routed to again once they answer a probe"))
		}
		eachInstr(up, func(in ssa.Instruction) {
			mu, ok := in.(*ssa.MapUpdate)
			if !ok {
				return
			}
			gLen, _ := p.guardedBy(in, func(cond ssa.Value) (bool, bool) {
				k, eq, ok := p.condFact(cond)
				if !ok || k.c != "len0" || p.canon(k.v) != p.canon(mu.Key) {
					return false, false
				}
				return true, !eq
			})
			gMiss, _ := p.guardedBy(in, func(cond ssa.Value) (bool, bool) {
				e, ok := p.canon(cond).(*ssa.Extract)
				if !ok || e.Index != 1 {
					return false, false
				}
				l, ok := e.Tuple.(*ssa.Lookup)
				if !ok || p.canon(l.X) != p.canon(mu.Map) {
					return false, false
				}
				return true, false
			})
			c.Ob("R-UPDATE", sc.key(up, "insert only non-empty, new address"), p.InstrPos(in), gLen && gMiss, ifs(!(gLen && gMiss), "an empty or duplicate target string can enter the target map"))
		})
	}

	// ---- live list built from the current map
	c.Rule("R-LIVE-LIST", "every non-empty store into Client.list holds only elements obtained by ranging over Client.targets in the same critical section; the minHeap stored alongside is a copy of it; Client.pos is reset there", 3)
	nl := 0
	for _, s := range p.storesToField("Client", "list") {
		st := s.Instr.(*ssa.Store)
		if isEmptySliceValue(p, st.Val) || baseIsLocalAlloc(s.Base) {
			continue
		}
		nl++
		fn := s.Fn
		// elements appended to the value
		okSrc, okSec := true, true
		var rng ssa.Instruction
		appends := 0
		eachInstr(fn, func(in ssa.Instruction) {
			cc, ok := in.(*ssa.Call)
			if !ok || calleeName(cc) != "builtin append" {
				return
			}
			// does this append feed the stored value?
			feeds := false
			for _, o := range p.origins(st.Val) {
				if p.canon(o) == ssa.Value(cc) {
					feeds = true
				}
			}
			if !feeds {
				return
			}
			appends++
			// appended elements: the variadic slice built from a [1]T array
			for _, el := range appendedElems(p, cc) {
				fromRange := false
				for _, o := range p.origins(el) {
					if e, ok := p.canon(o).(*ssa.Extract); ok {
						if nx, ok := e.Tuple.(*ssa.Next); ok {
							if r, ok := nx.Iter.(*ssa.Range); ok && isLoadOf(p.canon(r.X), "Client", "targets") {
								fromRange = true
								rng = r
							}
						}
					}
				}
				if !fromRange {
					okSrc = false
				}
			}
		})
		if appends == 0 || rng == nil {
			okSrc = false
		} else {
			// the map that is ranged over must have been read in this very section
			ld, isI := p.canon(rng.(*ssa.Range).X).(ssa.Instruction)
			if !isI || !ls.SameSection(ld, st, "Client.lock") || !ls.SameSection(rng, st, "Client.lock") {
				okSec = false
			}
		}
		c.Ob("R-LIVE-LIST", sc.key(fn, "list built from range Client.targets"), p.InstrPos(st), okSrc, ifs(!okSrc, "the live list is built from something other than a range over the current Client.targets (stale snapshot / removed targets)"))
		c.Ob("R-LIVE-LIST", sc.key(fn, "built and stored in one section"), p.InstrPos(st), okSec, ifs(!okSec, "the live list is built in a different critical section than the one that stores it: an Update in between is lost"))
		// minHeap copy + pos reset
		okHeap, okPos := false, false
		for _, hs := range p.fieldStoresIn(fn, "Client", "minHeap") {
			if isEmptySliceValue(p, hs.Val) || !ls.SameSection(hs, st, "Client.lock") && !ls.SameSection(st, hs, "Client.lock") {
				continue
			}
			// a copy(minHeap, l) exists
			eachInstr(fn, func(in ssa.Instruction) {
				cc, ok := in.(*ssa.Call)
				if !ok || calleeName(cc) != "builtin copy" {
					return
				}
				if p.canon(unwrap(cc.Call.Args[0])) == p.canon(unwrap(hs.Val)) && p.originsSubset(cc.Call.Args[1], st.Val) {
					okHeap = true
				}
			})
		}
		for _, ps := range p.fieldStoresIn(fn, "Client", "pos") {
			if k, ok := constInt(ps.Val); ok && k == 0 && (ls.SameSection(ps, st, "Client.lock") || ls.SameSection(st, ps, "Client.lock")) {
				okPos = true
			}
		}
		c.Ob("R-LIVE-LIST", sc.key(fn, "minHeap is a copy of the list"), p.InstrPos(st), okHeap, ifs(!okHeap, "Client.minHeap is not rebuilt as a copy of the new live list"))
		c.Ob("R-LIVE-LIST", sc.key(fn, "cursor reset"), p.InstrPos(st), okPos, ifs(!okPos, "Client.pos is not reset when the live list changes (index out of range / skipped targets)"))
	}
	if nl == 0 {
		c.Undecided("R-LIVE-LIST", "no non-empty store into Client.list found")
	}
	// in the rebuilding function: the list is emptied when no target is alive, and the
	// remembered address set is stored together with the list
	for _, s := range p.storesToField("Client", "list") {
		st := s.Instr.(*ssa.Store)
		if isEmptySliceValue(p, st.Val) || baseIsLocalAlloc(s.Base) {
			continue
		}
		fn := s.Fn
		hasEmpty := false
		for _, e := range p.fieldStoresIn(fn, "Client", "list") {
			if isEmptySliceValue(p, e.Val) && !p.canReach(st, e, nil) && !p.canReach(e, st, nil) {
				hasEmpty = true
			}
		}
		c.Ob("R-LIVE-LIST", sc.key(fn, "list emptied when nothing is alive"), p.InstrPos(st), hasEmpty, ifs(!hasEmpty, "when the rebuild finds no live target the old live list is kept: calls keep being routed to dead targets instead of waiting"))
		okLast := false
		for _, l2 := range p.fieldStoresIn(fn, "Client", "last") {
			if !isEmptySliceValue(p, l2.Val) && (ls.SameSection(l2, st, "Client.lock") || ls.SameSection(st, l2, "Client.lock")) {
				okLast = true
			}
		}
		c.Ob("R-LIVE-LIST", sc.key(fn, "remembered address set stored with the list"), p.InstrPos(st), okLast, ifs(!okLast, "Client.last is not updated with the live list: every probe rebuilds the list and resets the cursor (round-robin keeps restarting)"))
	}

	// ---- addresses handed to the RoundTripper
	c.Rule("R-ROUTE-ADDR", "every address a Client method passes to its RoundTripper originates from director()'s results, the empty-string constant, or (health probe) the probed target's address", 12)
	dir := p.Fn("(*Client).director")
	for _, fn := range p.Fns {
		if fn.Signature.Recv() == nil || namedOf(fn.Signature.Recv().Type()) != "Client" {
			continue
		}
		eachInstr(fn, func(in ssa.Instruction) {
			cc, ok := in.(*ssa.Call)
			if !ok || !cc.Common().IsInvoke() || namedOf(cc.Common().Value.Type()) != "RoundTripper" {
				return
			}
			m := cc.Common().Method.Name()
			if m == "Close" {
				return
			}
			// the address argument is the first string-typed argument
			var addr ssa.Value
			for _, arg := range cc.Common().Args {
				if isStringType(arg.Type()) {
					addr = arg
					break
				}
			}
			if addr == nil {
				return
			}
			ok = true
			why := ""
			for _, o := range p.origins(addr) {
				o = p.canon(o)
				switch x := o.(type) {
				case *ssa.Const:
					if constStr(x) != `""` {
						ok, why = false, "constant "+constStr(x)
					}
				case *ssa.Extract:
					if call, isC := x.Tuple.(*ssa.Call); !isC || call.Common().StaticCallee() != dir || x.Index != 0 {
						ok, why = false, describe(o)
					}
				default:
					fr, base, isF := fieldOfLoad(o)
					if !isF || fr.Struct != "target" || fr.Field != "address" {
						ok, why = false, describe(o)
						break
					}
					// the target must be director's second result or the probed parameter
					good := false
					for _, raw := range p.origins(base) {
						bo := p.canon(raw)
						if prm, isP := raw.(*ssa.Parameter); isP && fname(prm.Parent()) == "(*Client).check" {
							good = true
						}
						if e, isE := bo.(*ssa.Extract); isE {
							if call, isC := e.Tuple.(*ssa.Call); isC && call.Common().StaticCallee() == dir && e.Index == 1 {
								good = true
							}
						}
						if prm, isP := bo.(*ssa.Parameter); isP && fname(prm.Parent()) == "(*Client).check" {
							good = true
						}
					}
					if !good {
						ok, why = false, "target "+describe(base)
					}
				}
			}
			c.Ob("R-ROUTE-ADDR", sc.key(fn, "transport()."+m+"(addr)"), p.InstrPos(in), ok, ifs(!ok, "address passed to the RoundTripper comes from "+why+" instead of director()"))
		})
	}
	c.Rule("R-DIRECTOR", "director returns the Director hook's result only when it is non-empty, and otherwise only what schedule() returned", 2)
	if dir == nil {
		c.Undecided("R-DIRECTOR", "(*Client).director not found")
	} else {
		eachInstr(dir, func(in ssa.Instruction) {
			r, ok := in.(*ssa.Return)
			if !ok || len(r.Results) < 3 || (len(in.Block().Preds) == 0 && in.Block() != dir.Blocks[0]) {
				return
			}
			okR := true
			why := ""
			for _, o := range p.origins(r.Results[0]) {
				o = p.canon(o)
				switch x := o.(type) {
				case *ssa.Const:
				case *ssa.Extract:
					call, isC := x.Tuple.(*ssa.Call)
					if isC && calleeName(call) == "(*Client).schedule" {
						break
					}
					// the tail of director split into a helper: its own returned address obeys the same rule
					if isC && x.Index == 0 {
						if cal := call.Common().StaticCallee(); cal != nil && cal.Pkg == p.RPC && recvName(cal) == "Client" && addressOnlyFromSchedule(p, cal, 0) {
							break
						}
					}
					okR, why = false, describe(o)
				case *ssa.Call:
					// the hook: must be guarded by len(address) > 0 at this return
					if isLoadOf(p.canon(x.Common().Value), "Client", "Director") {
						break
					}
					okR, why = false, describe(o)
				default:
					okR, why = false, describe(o)
				}
			}
			c.Ob("R-DIRECTOR", sc.key(dir, "return address"), p.InstrPos(in), okR, ifs(!okR, "director returns an address from "+why))
		})
		// the early return of the hook's value is guarded by non-empty
		eachInstr(dir, func(in ssa.Instruction) {
			cc, ok := in.(*ssa.Call)
			if !ok || !isLoadOf(p.canon(cc.Common().Value), "Client", "Director") {
				return
			}
			// every Return whose first result is (only) this call must be guarded by len>0
			eachInstr(dir, func(x ssa.Instruction) {
				r, ok := x.(*ssa.Return)
				if !ok || len(r.Results) < 1 || p.canon(r.Results[0]) != ssa.Value(cc) {
					return
				}
				g, _ := p.guardedBy(x, func(cond ssa.Value) (bool, bool) {
					k, eq, ok := p.condFact(cond)
					if !ok || k.c != "len0" || p.canon(k.v) != ssa.Value(cc) {
						return false, false
					}
					return true, !eq
				})
				c.Ob("R-DIRECTOR", sc.key(dir, "hook result returned only if non-empty"), p.InstrPos(x), g, ifs(!g, "an empty Director result short-circuits scheduling"))
			})
		})
	}
}

// appendedElems returns the element values of append(dst, e1, e2...) when the
// variadic argument is a freshly built array slice.
func appendedElems(p *Prog, cc *ssa.Call) []ssa.Value {
	var out []ssa.Value
	if len(cc.Call.Args) < 2 {
		return nil
	}
	sl, ok := cc.Call.Args[1].(*ssa.Slice)
	if !ok {
		return []ssa.Value{cc.Call.Args[1]}
	}
	al, ok := sl.X.(*ssa.Alloc)
	if !ok || al.Referrers() == nil {
		return []ssa.Value{cc.Call.Args[1]}
	}
	for _, r := range *al.Referrers() {
		if ia, ok := r.(*ssa.IndexAddr); ok && ia.Referrers() != nil {
			for _, rr := range *ia.Referrers() {
				if st, ok := rr.(*ssa.Store); ok && st.Addr == ssa.Value(ia) {
					out = append(out, st.Val)
				}
			}
		}
	}
	return out
}

func runC17(c *Check, a *Analysis) {
	p := c.P
	sc := siteCounter{}
	sch := p.Fn("(*Client).schedule")
	if sch == nil {
		c.Rule("R-PICK-SOURCE", "anchor", 0)
		c.Undecided("R-PICK-SOURCE", "(*Client).schedule not found")
		return
	}
	isElemOf := func(v ssa.Value, fields ...string) (string, ssa.Value, bool) {
		u, ok := p.canon(v).(*ssa.UnOp)
		if !ok || u.Op != token.MUL {
			return "", nil, false
		}
		ia, ok := u.X.(*ssa.IndexAddr)
		if !ok {
			return "", nil, false
		}
		for _, f := range fields {
			if isLoadOf(p.canon(ia.X), "Client", f) {
				return f, ia.Index, true
			}
		}
		return "", nil, false
	}
	c.Rule("R-PICK-SOURCE", "every target (and address) returned by schedule() is an element of Client.list or Client.minHeap; the random index is rand.Intn(len(Client.list))", 3)
	eachInstr(sch, func(in ssa.Instruction) {
		r, ok := in.(*ssa.Return)
		if !ok || len(r.Results) < 2 {
			return
		}
		okT := true
		why := ""
		for _, o := range p.origins(r.Results[1]) {
			if nilConst(p.canon(o)) {
				continue
			}
			if _, _, ok := isElemOf(o, "list", "minHeap"); !ok {
				okT, why = false, describe(o)
			}
		}
		for _, o := range p.origins(r.Results[0]) {
			o = p.canon(o)
			if _, isC := o.(*ssa.Const); isC {
				continue
			}
			fr, base, isF := fieldOfLoad(o)
			if !isF || fr.Struct != "target" || fr.Field != "address" {
				okT, why = false, describe(o)
				continue
			}
			if _, _, ok := isElemOf(base, "list", "minHeap"); !ok {
				okT, why = false, describe(base)
			}
		}
		c.Ob("R-PICK-SOURCE", sc.key(sch, "returned target is a live-list element"), p.InstrPos(in), okT, ifs(!okT, "schedule returns "+why+", which is not an element of the live list"))
	})
	nRand := 0
	eachInstr(sch, func(in ssa.Instruction) {
		cc, ok := in.(*ssa.Call)
		if !ok || calleeName(cc) != "math/rand.Intn" {
			return
		}
		nRand++
		lc, isL := stripConv(cc.Call.Args[0]).(*ssa.Call)
		ok = isL && calleeName(lc) == "builtin len" && isLoadOf(p.canon(lc.Call.Args[0]), "Client", "list")
		// and it indexes Client.list
		used := false
		if cc.Referrers() != nil {
			for _, r := range *cc.Referrers() {
				if ia, isIA := r.(*ssa.IndexAddr); isIA && isLoadOf(p.canon(ia.X), "Client", "list") {
					used = true
				}
			}
		}
		c.Ob("R-PICK-SOURCE", sc.key(sch, "rand.Intn(len(list)) indexes list"), p.InstrPos(in), ok && used, ifs(!(ok && used), "the random pick is not rand.Intn(len(Client.list)) indexing Client.list"))
	})
	if nRand == 0 {
		c.Undecided("R-PICK-SOURCE", "no rand.Intn in schedule")
	}

	c.Rule("R-CURSOR", "every pick of Client.list[Client.pos] is followed on every path to the return by a store into Client.pos of a value computed from Client.pos and len(Client.list); the cursor is rewound to 0 only together with a new live list", 3)
	ruleCursorReset(c, a, "R-CURSOR")
	nPick := 0
	eachInstr(sch, func(in ssa.Instruction) {
		ia, ok := in.(*ssa.IndexAddr)
		if !ok || !isLoadOf(p.canon(ia.X), "Client", "list") || !isLoadOf(p.canon(ia.Index), "Client", "pos") {
			return
		}
		nPick++
		isAdvance := func(x ssa.Instruction) bool {
			st, ok := x.(*ssa.Store)
			if !ok {
				return false
			}
			fr, _, ok := fieldOfAddr(st.Addr)
			if !ok || fr.Struct != "Client" || fr.Field != "pos" {
				return false
			}
			hasPos, hasLen, plus := false, false, false
			var walk func(v ssa.Value, d int)
			walk = func(v ssa.Value, d int) {
				if d > 6 {
					return
				}
				v = stripConv(p.canon(v))
				if isLoadOf(v, "Client", "pos") {
					hasPos = true
				}
				if cc, ok := v.(*ssa.Call); ok && calleeName(cc) == "builtin len" && isLoadOf(p.canon(cc.Call.Args[0]), "Client", "list") {
					hasLen = true
				}
				if b, ok := v.(*ssa.BinOp); ok {
					if b.Op == token.ADD {
						if k, isK := constInt(b.Y); isK && k != 0 {
							plus = true
						}
					}
					walk(b.X, d+1)
					walk(b.Y, d+1)
				}
			}
			walk(st.Val, 0)
			return hasPos && hasLen && plus
		}
		_, tr, okp := p.mustPass(sch, in, isAdvance)
		c.Ob("R-CURSOR", sc.key(sch, "list[pos] then pos advances"), p.InstrPos(in), okp, ifs(!okp, "a round-robin / probe pick does not advance the cursor (path "+p.lineTrail(tr)+"): the same target is picked forever"))
	})
	if nPick < 2 {
		c.Undecided("R-CURSOR", fmt.Sprintf("expected cursor picks in schedule, found %d", nPick))
	}

	c.Rule("R-LEAST-TIME", "minHeap[0] is read only after the heapify call on Client.minHeap; the probe arm depends on the lastTime+Tick test and stores lastTime; heapify permutes only through Swap and starts sifting at the last internal node n/2-1", 4)
	ruleHeapifyStart(c, a, "R-LEAST-TIME")
	nRoot := 0
	eachInstr(sch, func(in ssa.Instruction) {
		ia, ok := in.(*ssa.IndexAddr)
		if !ok || !isLoadOf(p.canon(ia.X), "Client", "minHeap") {
			return
		}
		nRoot++
		k, isK := constInt(ia.Index)
		heapified := false
		for _, h := range callsIn(sch, "minHeap") {
			if isLoadOf(p.canon(unwrap(h.Common().Args[0])), "Client", "minHeap") && p.dominatesInstr(h.(ssa.Instruction), in) {
				heapified = true
			}
		}
		c.Ob("R-LEAST-TIME", sc.key(sch, "heapify before minHeap[0]"), p.InstrPos(in), isK && k == 0 && heapified, ifs(!(isK && k == 0 && heapified), "the least-time pick does not read the root of a freshly heapified Client.minHeap"))
	})
	if nRoot == 0 {
		c.Undecided("R-LEAST-TIME", "no read of Client.minHeap in schedule")
	}
	isTickTest := func(cond ssa.Value) (bool, bool) {
		cc, ok := p.canon(cond).(*ssa.Call)
		if !ok || calleeName(cc) != "(time.Time).Before" {
			return false, false
		}
		add, ok := p.canon(cc.Call.Args[0]).(*ssa.Call)
		if !ok || calleeName(add) != "(time.Time).Add" {
			return false, false
		}
		if !isLoadOf(p.canon(add.Call.Args[0]), "Client", "lastTime") || !isLoadOf(p.canon(add.Call.Args[1]), "Client", "Tick") {
			return false, false
		}
		return true, true
	}
	stores := p.fieldStoresIn(sch, "Client", "lastTime")
	if len(stores) == 0 {
		c.Ob("R-LEAST-TIME", sc.key(sch, "probe stores lastTime"), sch.Pos(), false, "schedule never stores Client.lastTime: every least-time call is a probe (or none is)")
	}
	for _, s := range stores {
		g, _ := p.guardedBy(s, isTickTest)
		c.Ob("R-LEAST-TIME", sc.key(sch, "lastTime stored on the probe arm"), p.InstrPos(s), g, ifs(!g, "Client.lastTime is stored outside the arm guarded by lastTime.Add(Tick).Before(now)"))
		// the probe arm picks list[pos]
		edges, _ := p.guardEdges(sch, isTickTest)
		for e := range edges {
			_, _, found := p.reachFromBlock(sch, e.to, func(x ssa.Instruction) bool {
				ia, ok := x.(*ssa.IndexAddr)
				return ok && isLoadOf(p.canon(ia.X), "Client", "list")
			}, nil, nil)
			_, _, miss := p.reachFromBlock(sch, e.to, isReturnLike, func(x ssa.Instruction) bool { return x == ssa.Instruction(s) }, nil)
			c.Ob("R-LEAST-TIME", sc.key(sch, "probe arm: stores lastTime, picks from list"), p.InstrPos(e.to.Instrs[0]), found && !miss, ifs(!(found && !miss), "the probe arm does not store lastTime on every path or does not rotate through Client.list"))
		}
	}
	// the heap must be its own copy of the live list: heapifying it in place must not reorder the list the cursor walks
	for _, hs := range p.storesToField("Client", "minHeap") {
		st := hs.Instr.(*ssa.Store)
		if isEmptySliceValue(p, st.Val) || baseIsLocalAlloc(hs.Base) {
			continue
		}
		_, isMk := p.canon(unwrap(st.Val)).(*ssa.MakeSlice)
		shared := false
		for _, lsx := range p.fieldStoresIn(hs.Fn, "Client", "list") {
			if p.canon(unwrap(lsx.Val)) == p.canon(unwrap(st.Val)) {
				shared = true
			}
		}
		okc := isMk && !shared
		c.Ob("R-LEAST-TIME", sc.key(hs.Fn, "minHeap is a separate copy of the list"), p.InstrPos(st), okc, ifs(!okc, "Client.minHeap shares its backing array with Client.list: heapifying for a least-time pick reorders the list the probe cursor walks, so probes no longer rotate"))
	}
	for _, name := range []string{"minHeap", "heapDown"} {
		fn := p.Fn(name)
		if fn == nil {
			if name == "heapDown" && p.Fn("minHeap") != nil && len(callsIn(p.Fn("minHeap"), "(list).Swap")) > 0 {
				continue // the sift-down step is written in line in minHeap
			}
			c.Undecided("R-LEAST-TIME", name+" not found")
			continue
		}
		writes := 0
		eachInstr(fn, func(in ssa.Instruction) {
			if st, ok := in.(*ssa.Store); ok {
				if _, isIdx := st.Addr.(*ssa.IndexAddr); isIdx {
					writes++
				}
			}
		})
		c.Ob("R-LEAST-TIME", name+"#permutes only through Swap", fn.Pos(), writes == 0, ifs(writes != 0, name+" writes slice elements directly: the heap may no longer be a permutation of the live list"))
	}
	if sw := p.Fn("(list).Swap"); sw != nil {
		// two stores, crossing
		var sts []*ssa.Store
		eachInstr(sw, func(in ssa.Instruction) {
			if st, ok := in.(*ssa.Store); ok {
				if _, isIdx := st.Addr.(*ssa.IndexAddr); isIdx {
					sts = append(sts, st)
				}
			}
		})
		ok := len(sts) == 2
		if ok {
			idx := func(v ssa.Value) ssa.Value {
				if ia, ok := v.(*ssa.IndexAddr); ok {
					return p.canon(ia.Index)
				}
				if u, ok := p.canon(v).(*ssa.UnOp); ok {
					if ia, ok := u.X.(*ssa.IndexAddr); ok {
						return p.canon(ia.Index)
					}
				}
				return nil
			}
			ok = idx(sts[0].Addr) == idx(sts[1].Val) && idx(sts[1].Addr) == idx(sts[0].Val) && idx(sts[0].Addr) != idx(sts[1].Addr)
		}
		c.Ob("R-LEAST-TIME", "(list).Swap#exchanges l[i] and l[j]", sw.Pos(), ok, ifs(!ok, "Swap does not exchange exactly the two elements"))
	}

	c.Rule("R-UPDATE-FEED", "every call of target.Update made by a Client call form is fed the error result of the very transport call it timed (so that an unreachable target is marked dead and reset)", 3)
	for _, fn := range p.Fns {
		if recvName(topParent(fn)) != "Client" {
			continue
		}
		for _, up := range callsIn(fn, "(*target).Update") {
			args := up.Common().Args
			errArg := args[len(args)-1]
			// the constant ErrDial fed by the prober for dead targets is fine
			if isGlobalLoad(p.canon(errArg), "ErrDial") {
				continue
			}
			fed := false
			for _, o := range p.origins(errArg) {
				o = p.canon(o)
				if e, isE := o.(*ssa.Extract); isE {
					o = e.Tuple
				}
				if cc, isC := o.(*ssa.Call); isC && cc.Common().IsInvoke() && namedOf(cc.Common().Value.Type()) == "RoundTripper" {
					fed = true
				}
			}
			c.Ob("R-UPDATE-FEED", sc.key(fn, "target.Update(…, err of the call)"), p.InstrPos(up), fed, ifs(!fed, "target.Update never sees the transport call's error ("+describe(errArg)+"): a target that stopped accepting connections is neither marked dead nor reset to the maximum latency, and its fast failures make it look like the best target"))
		}
	}

	c.Rule("R-PROBE-RESET", "the health prober feeds every target it finds not alive into target.Update with ErrDial (reset to the maximum latency)", 1)
	nReset := 0
	for _, fn := range p.Fns {
		if recvName(topParent(fn)) != "Client" {
			continue
		}
		for _, up := range callsIn(fn, "(*target).Update") {
			args := up.Common().Args
			if isGlobalLoad(p.canon(args[len(args)-1]), "ErrDial") {
				nReset++
				g, _ := p.guardedBy(up.(ssa.Instruction), negate(func(cond ssa.Value) (bool, bool) {
					if isLoadOf(p.canon(cond), "target", "alive") {
						return true, true
					}
					return false, false
				}))
				c.Ob("R-PROBE-RESET", sc.key(fn, "dead target ⇒ Update(…, ErrDial)"), p.InstrPos(up), g, ifs(!g, "the reset to the maximum latency is not tied to the target being not alive"))
			}
		}
	}
	if nReset == 0 {
		c.Ob("R-PROBE-RESET", "prober#resets dead targets", 0, false, "the prober never resets the latency of targets it finds dead: least-time keeps preferring a dead target")
	}

	c.Rule("R-RESET-MAX", "target.Update stores the clientLatency constant exactly on the not-alive arm", 1)
	if tu := p.Fn("(*target).Update"); tu == nil {
		c.Undecided("R-RESET-MAX", "(*target).Update not found")
	} else {
		cl := p.Root.Types.Scope().Lookup("clientLatency")
		want := ""
		if cst, ok := cl.(*types.Const); ok {
			want = cst.Val().ExactString()
		}
		n := 0
		aliveFalse := func(cond ssa.Value) (bool, bool) {
			cc, ok := p.canon(cond).(*ssa.Call)
			if !ok || calleeName(cc) != "(*target).Alive" {
				return false, false
			}
			return true, false
		}
		for _, la := range latencyAssignments(tu) {
			cst, isC := la.val.(*ssa.Const)
			g, _ := p.guardedBy(la.site, aliveFalse)
			if isC && constStr(cst) == want {
				n++
				c.Ob("R-RESET-MAX", sc.key(tu, "latency=clientLatency on !Alive"), p.InstrPos(la.site), g, ifs(!g, "the maximum latency is stored outside the not-alive arm"))
			} else if g {
				c.Ob("R-RESET-MAX", sc.key(tu, "not-alive arm stores the maximum"), p.InstrPos(la.site), false, "the not-alive arm stores "+describe(la.val)+" instead of clientLatency")
			}
		}
		if n == 0 {
			c.Ob("R-RESET-MAX", sc.key(tu, "latency=clientLatency on !Alive"), tu.Pos(), false, "an unreachable target's latency is never reset to the maximum: least-time keeps picking it")
		}
		// every path through Update records a latency, and on the alive arms the new sample contributes
		isLatStore := func(x ssa.Instruction) bool {
			cc, ok := x.(*ssa.Call)
			if !ok || calleeName(cc) != "sync/atomic.StoreInt64" {
				return false
			}
			fr, _, ok := fieldOfAddr(cc.Call.Args[0])
			return ok && fr.Field == "latency"
		}
		_, tr, okp := p.mustPass(tu, nil, isLatStore)
		c.Ob("R-RESET-MAX", sc.key(tu, "every path stores a latency"), tu.Pos(), okp, ifs(!okp, "a path through target.Update records no latency ("+p.lineTrail(tr)+"): the least-time order never learns this sample"))
		var sample ssa.Value
		for _, prm := range tu.Params {
			if prm.Name() == "new" || (sample == nil && prm.Type().String() == "int64") {
				sample = prm
			}
		}
		for _, la := range latencyAssignments(tu) {
			if sample == nil {
				break
			}
			if g, _ := p.guardedBy(la.site, aliveFalse); g {
				continue
			}
			has := dependsOn(la.val, sample, 12)
			c.Ob("R-RESET-MAX", sc.key(tu, "alive arm records the sample"), p.InstrPos(la.site), has, ifs(!has, "the latency stored for a reachable target does not depend on the measured sample"))
		}
	}
}

func runC18(c *Check, a *Analysis) {
	p := c.P
	ruleLockBalance(c, a, "R-LOCK-BALANCE", "Client.lock")
	ruleSnapshotFresh(c, a, "R-SNAPSHOT-FRESH")
	ruleCompletionChanBuffered(c, a, "R-COMPLETION-CHAN", "waiter")
	ruleUpdateFresh(c, a, "R-UPDATE-FRESH")
	ruleSnapshotCompare(c, a, "R-SNAPSHOT-COMPARE")
	ls := a.Locks()
	sc := siteCounter{}
	c.Rule("R-LOCK", "Client.pending and Client.seq are only accessed with Client.lock held", 6)
	ruleLock(c, a, "R-LOCK", "Client", "pending", "seq")

	isClosedLoad := func(x ssa.Instruction) bool {
		cc, ok := x.(*ssa.Call)
		if !ok {
			return false
		}
		n := calleeName(cc)
		if n != "sync/atomic.LoadUint32" && n != "sync/atomic.CompareAndSwapUint32" {
			return false
		}
		fr, _, ok := fieldOfAddr(cc.Call.Args[0])
		return ok && fr.Struct == "Client" && fr.Field == "closed"
	}
	// ---- R-RDV-CLIENT
	c.Rule("R-RDV-CLIENT", "a waiter is inserted into Client.pending only in a critical section of Client.lock that has observed closed == 0 (directly or through checkClosed), and a waiter that finds the client closed is completed with ErrShutdown; Close sets closed and sweeps pending (delete, err=ErrShutdown, done) in one critical section", 4)
	chk := p.Fn("(*Client).checkClosed")
	for _, m := range p.mapOps("Client", "pending") {
		if m.Kind != "update" {
			continue
		}
		fn := m.Fn
		// guard: result of checkClosed false, or atomic load == 0
		g, _ := p.guardedBy(m.Instr, func(cond ssa.Value) (bool, bool) {
			if cc, ok := p.canon(cond).(*ssa.Call); ok && chk != nil && cc.Common().StaticCallee() == chk {
				if ls.SameSection(cc, m.Instr, "Client.lock") {
					return true, false
				}
			}
			return false, false
		})
		if !g {
			g, _ = p.guardedBy(m.Instr, negate(matchAtomicFlag("Client", "closed")))
		}
		c.Ob("R-RDV-CLIENT", sc.key(fn, "pending[seq]=w only if not closed, same section"), p.InstrPos(m.Instr), g, ifs(!g, "a waiter can be parked in Client.pending after Close has swept it: the caller waits for the full DialTimeout (or forever)"))
	}
	if chk == nil {
		// the closed test may be inlined into the registering function
		for _, m := range p.mapOps("Client", "pending") {
			if m.Kind == "update" {
				if _, n := p.guardEdges(m.Fn, matchAtomicFlag("Client", "closed")); n > 0 {
					chk = m.Fn
				}
			}
		}
	}
	if chk == nil {
		c.Undecided("R-RDV-CLIENT", "no function tests Client.closed for an arriving waiter")
	} else {
		// on the closed edge: err = ErrShutdown and done()
		edges, n := p.guardEdges(chk, matchAtomicFlag("Client", "closed"))
		if n == 0 {
			c.Undecided("R-RDV-CLIENT", "checkClosed does not test Client.closed")
		}
		for e := range edges {
			_, _, missDone := p.reachFromBlock(chk, e.to, isReturnLike, func(x ssa.Instruction) bool { return isCallTo(x, "(*waiter).done") }, nil)
			okErr := false
			for _, s := range p.fieldStoresIn(chk, "waiter", "err") {
				if isGlobalLoad(s.Val, "ErrShutdown") {
					okErr = true
				}
			}
			c.Ob("R-RDV-CLIENT", sc.key(chk, "closed ⇒ waiter completed with ErrShutdown"), p.InstrPos(e.to.Instrs[0]), !missDone && okErr, ifs(missDone || !okErr, "a waiter that finds the client closed is not released with ErrShutdown"))
		}
	}
	if cl := p.Fn("(*Client).Close"); cl == nil {
		c.Undecided("R-RDV-CLIENT", "(*Client).Close not found")
	} else {
		var cas ssa.Instruction
		eachInstr(cl, func(in ssa.Instruction) {
			if cc, ok := in.(*ssa.Call); ok && calleeName(cc) == "sync/atomic.CompareAndSwapUint32" && isClosedLoad(in) {
				cas = in
			}
		})
		var rng *MapOp
		for _, m := range p.mapOps("Client", "pending") {
			if m.Kind == "range" && p.sameFn(m.Fn, cl) {
				mm := m
				rng = &mm
			}
		}
		ok := cas != nil && rng != nil && ls.SameSection(cas, rng.Instr, "Client.lock")
		c.Ob("R-RDV-CLIENT", sc.key(cl, "closed set and pending swept in one section"), cl.Pos(), ok, ifs(!ok, "Close does not set closed and sweep Client.pending inside one critical section of Client.lock"))
		if rng != nil {
			okDel, okDone, okErr := false, false, false
			for _, d := range p.mapOps("Client", "pending") {
				if d.Kind == "delete" && p.sameFn(d.Fn, cl) && p.inLoop(d.Instr) {
					okDel = true
				}
			}
			for _, dn := range callsIn(cl, "(*waiter).done") {
				if p.inLoop(dn.(ssa.Instruction)) && ls.Held(dn.(ssa.Instruction), "Client.lock") {
					okDone = true
				}
			}
			for _, s := range p.fieldStoresIn(cl, "waiter", "err") {
				if isGlobalLoad(s.Val, "ErrShutdown") && p.inLoop(s) {
					okErr = true
				}
			}
			c.Ob("R-RDV-CLIENT", sc.key(cl, "sweep: delete + ErrShutdown + done"), p.InstrPos(rng.Instr), okDel && okDone && okErr, ifs(!(okDel && okDone && okErr), "Close's sweep does not remove every waiter, set ErrShutdown and signal it"))
		}
	}

	// ---- waiter keys are unique
	c.Rule("R-WAITER-SEQ", "a waiter is registered under a key read from Client.seq and Client.seq is incremented in the same critical section (two waiters never share a key: the second would overwrite the first, which is then never woken)", 2)
	for _, m := range p.mapOps("Client", "pending") {
		if m.Kind != "update" {
			continue
		}
		fromSeq := false
		var seqLoad ssa.Instruction
		for _, o := range p.origins(m.Key) {
			o = p.canon(o)
			if isLoadOf(o, "Client", "seq") {
				fromSeq, seqLoad = true, o.(ssa.Instruction)
			}
			// through w.seq = c.seq
			if fr, _, ok := fieldOfLoad(o); ok && fr.Struct == "waiter" && fr.Field == "seq" {
				for _, st := range p.fieldStoresIn(m.Fn, "waiter", "seq") {
					if isLoadOf(p.canon(st.Val), "Client", "seq") && p.dominatesInstr(st, m.Instr) {
						fromSeq, seqLoad = true, p.canon(st.Val).(ssa.Instruction)
					}
				}
			}
		}
		c.Ob("R-WAITER-SEQ", sc.key(m.Fn, "key from Client.seq"), p.InstrPos(m.Instr), fromSeq, ifs(!fromSeq, "the waiter's key does not come from Client.seq"))
		inc := false
		for _, st := range p.fieldStoresIn(m.Fn, "Client", "seq") {
			if b, ok := st.Val.(*ssa.BinOp); ok && b.Op == token.ADD && isLoadOf(p.canon(b.X), "Client", "seq") && seqLoad != nil && ls.SameSection(seqLoad, st, "Client.lock") {
				inc = true
			}
		}
		c.Ob("R-WAITER-SEQ", sc.key(m.Fn, "Client.seq++ in the same section"), p.InstrPos(m.Instr), inc, ifs(!inc, "Client.seq is not advanced when a waiter is registered: the next waiter overwrites this one in Client.pending and this caller is never woken"))
	}

	// ---- ordering inside the waiter protocol
	c.Rule("R-WAITER-ORDER", "a waiter's error is stored before it is signalled (in Close's sweep and in checkClosed); a waiter's Done channel is installed before the waiter is registered; the fast path of director (Director hook / schedule under the lock) is taken only when the fallback counter is zero, and Fallback's goroutine always decrements the counter it incremented", 5)
	for _, fn := range p.Fns {
		if recvName(topParent(fn)) != "Client" {
			continue
		}
		for _, dn := range callsIn(fn, "(*waiter).done") {
			in := dn.(ssa.Instruction)
			for _, st := range p.fieldStoresIn(fn, "waiter", "err") {
				_, base, _ := fieldOfAddr(st.Addr)
				if !p.sameVar(base, dn.Common().Args[0]) {
					continue
				}
				ok := p.dominatesInstr(st, in) || !p.canReach(in, st, func(x ssa.Instruction) bool { return redefines(p, x, dn.Common().Args[0]) })
				c.Ob("R-WAITER-ORDER", sc.key(fn, "w.err before w.done()"), p.InstrPos(in), ok, ifs(!ok, "a waiter is signalled before its error is stored: the woken caller reads a nil error and routes a call although the client is closed"))
			}
		}
	}
	if dir := p.Fn("(*Client).director"); dir != nil {
		for _, fn := range withClosures(dir) {
			for _, wt := range callsIn(fn, "(*Client).wait") {
				in := wt.(ssa.Instruction)
				okd := false
				for _, st := range p.fieldStoresIn(fn, "waiter", "Done") {
					_, base, _ := fieldOfAddr(st.Addr)
					if p.sameVar(base, wt.Common().Args[1]) && p.dominatesInstr(st, in) {
						okd = true
					}
				}
				c.Ob("R-WAITER-ORDER", sc.key(fn, "w.Done installed before registration"), p.InstrPos(in), okd, ifs(!okd, "the waiter is registered before its Done channel is installed: a wake-up in between is sent on a nil channel and lost"))
			}
		}
		// fast path gated by fallback == 0
		isFallbackZero := func(cond ssa.Value) (bool, bool) {
			b, ok := cond.(*ssa.BinOp)
			if !ok {
				return false, false
			}
			cc, isC := stripConv(b.X).(*ssa.Call)
			k, isK := constInt(b.Y)
			if !isC || !isK || k != 0 || calleeName(cc) != "sync/atomic.LoadInt32" {
				return false, false
			}
			fr, _, okf := fieldOfAddr(cc.Call.Args[0])
			if !okf || fr.Struct != "Client" || fr.Field != "fallback" {
				return false, false
			}
			switch b.Op {
			case token.EQL:
				return true, true
			case token.NEQ, token.GTR:
				return true, false
			}
			return false, false
		}
		nFast := 0
		eachInstr(dir, func(in ssa.Instruction) {
			cc, ok := in.(*ssa.Call)
			if !ok {
				return
			}
			hook := isLoadOf(p.canon(cc.Common().Value), "Client", "Director")
			if !hook {
				return
			}
			nFast++
			g, _ := p.guardedBy(in, isFallbackZero)
			c.Ob("R-WAITER-ORDER", sc.key(dir, "fast path only when fallback == 0"), p.InstrPos(in), g, ifs(!g, "the Director hook is consulted although the client is in Fallback (or is skipped when it is not)"))
		})
		// the first schedule() (before any wait) is gated as well
		for _, sc2 := range callsIn(dir, "(*Client).schedule") {
			in := sc2.(ssa.Instruction)
			beforeWait := true
			for _, wt := range callsIn(dir, "(*Client).wait") {
				if p.canReach(wt.(ssa.Instruction), in, nil) {
					beforeWait = false
				}
			}
			if !beforeWait {
				continue
			}
			nFast++
			g, _ := p.guardedBy(in, isFallbackZero)
			c.Ob("R-WAITER-ORDER", sc.key(dir, "immediate scheduling only when fallback == 0"), p.InstrPos(in), g, ifs(!g, "a call is scheduled immediately although the client is in Fallback"))
		}
		if nFast == 0 {
			c.Undecided("R-WAITER-ORDER", "no fast path found in director")
		}
	}
	if fb := p.Fn("(*Client).Fallback"); fb != nil {
		isAdd := func(x ssa.Instruction, k int64) bool {
			cc, ok := x.(*ssa.Call)
			if !ok || calleeName(cc) != "sync/atomic.AddInt32" {
				return false
			}
			fr, _, okf := fieldOfAddr(cc.Call.Args[0])
			kk, isK := constInt(cc.Call.Args[1])
			return okf && fr.Struct == "Client" && fr.Field == "fallback" && isK && kk == k
		}
		_, _, incOK := p.mustPass(fb, nil, func(x ssa.Instruction) bool { return isAdd(x, 1) })
		decOK := false
		for _, f := range withClosures(fb)[1:] {
			if _, _, okp := p.mustPass(f, nil, func(x ssa.Instruction) bool { return isAdd(x, -1) }); okp {
				decOK = true
			}
		}
		c.Ob("R-WAITER-ORDER", "(*Client).Fallback#counter +1 then -1 on every path of the timer goroutine", fb.Pos(), incOK && decOK, ifs(!(incOK && decOK), "Fallback does not pair its increment of the fallback counter with a decrement on every path: the client stays paused forever (every caller waits DialTimeout) or is never paused"))
	}

	// ---- R-WAKE
	c.Rule("R-WAKE", "checkPending is called with Client.lock held from the detector and from every rebuild that leaves the live list non-empty; it removes what it wakes", 3)
	cp := p.Fn("(*Client).checkPending")
	if cp == nil {
		c.Undecided("R-WAKE", "(*Client).checkPending not found")
	} else {
		callers := p.Callers(cp)
		fromDetect, fromRebuild := false, false
		for _, cs := range callers {
			held := ls.Held(cs, "Client.lock")
			c.Ob("R-WAKE", sc.key(cs.Parent(), "checkPending under lock"), p.InstrPos(cs), held, ifs(!held, "checkPending called without Client.lock"))
			if len(p.fieldStoresIn(cs.Parent(), "Client", "list")) > 0 {
				// rebuild: the call must be reachable whenever the new list is non-empty
				for _, s := range p.fieldStoresIn(cs.Parent(), "Client", "list") {
					if isEmptySliceValue(p, s.Val) {
						continue
					}
					if _, _, okp := p.mustPass(cs.Parent(), s, func(x ssa.Instruction) bool { return x == cs.(ssa.Instruction) }); okp {
						fromRebuild = true
					}
				}
			} else {
				fromDetect = true
			}
		}
		c.Ob("R-WAKE", "checkPending#called from the periodic detector", cp.Pos(), fromDetect, ifs(!fromDetect, "the periodic detector never wakes waiters"))
		c.Ob("R-WAKE", "checkPending#called after every non-empty rebuild", cp.Pos(), fromRebuild, ifs(!fromRebuild, "waiters are not woken when a target becomes live"))
		okDel, okDone := false, false
		for _, d := range p.mapOps("Client", "pending") {
			if d.Kind == "delete" && p.sameFn(d.Fn, cp) && p.inLoop(d.Instr) {
				okDel = true
			}
		}
		for _, dn := range callsIn(cp, "(*waiter).done") {
			if p.inLoop(dn.(ssa.Instruction)) {
				okDone = true
			}
		}
		c.Ob("R-WAKE", sc.key(cp, "wakes and removes every waiter"), cp.Pos(), okDel && okDone, ifs(!(okDel && okDone), "checkPending does not both signal and remove the waiters it visits"))
	}

	// ---- R-BOUNDED-WAIT
	c.Rule("R-BOUNDED-WAIT", "every receive from a waiter's Done channel is a select arm next to a timer armed from Client.DialTimeout; the timer arm unregisters the waiter under Client.lock and yields ErrTimeout; a caller waits at most once (director does not re-enter itself)", 2)
	ruleNoRewait(c, a, "R-BOUNDED-WAIT")
	ruleWaiterPool(c, a, "R-BOUNDED-WAIT")
	nsel := 0
	for _, fn := range p.Fns {
		eachInstr(fn, func(in ssa.Instruction) {
			if u, ok := in.(*ssa.UnOp); ok && u.Op == token.ARROW && isLoadOf(p.canon(u.X), "waiter", "Done") {
				c.Ob("R-BOUNDED-WAIT", sc.key(fn, "<-w.Done"), p.InstrPos(in), false, "plain blocking receive on a waiter channel: the caller can wait forever")
			}
			sel, ok := in.(*ssa.Select)
			if !ok {
				return
			}
			hasDone, timerIdx := false, -1
			for i, st := range sel.States {
				if st.Dir != 2 {
					continue
				}
				ch := p.canon(st.Chan)
				if isLoadOf(ch, "waiter", "Done") {
					hasDone = true
				}
				if fr, base, ok := fieldOfLoad(ch); ok && fr.Field == "C" {
					for _, o := range p.origins(base) {
						if cc, ok := p.canon(o).(*ssa.Call); ok && calleeName(cc) == "time.NewTimer" && isLoadOf(p.canon(cc.Call.Args[0]), "Client", "DialTimeout") {
							timerIdx = i
						}
					}
				}
			}
			if !hasDone {
				return
			}
			nsel++
			c.Ob("R-BOUNDED-WAIT", sc.key(fn, "select{<-w.Done, <-timer(DialTimeout).C}"), p.InstrPos(in), timerIdx >= 0 && sel.Blocking, ifs(timerIdx < 0, "waiting for a live target has no DialTimeout arm"))
			if timerIdx < 0 {
				return
			}
			edges, _ := p.guardEdges(fn, func(cond ssa.Value) (bool, bool) {
				b, isB := cond.(*ssa.BinOp)
				if !isB || b.Op != token.EQL {
					return false, false
				}
				e, isE := b.X.(*ssa.Extract)
				k, isK := constInt(b.Y)
				return isE && e.Tuple == ssa.Value(sel) && e.Index == 0 && isK && int(k) == timerIdx, true
			})
			for e := range edges {
				okDel := false
				for _, d := range p.mapOps("Client", "pending") {
					if d.Kind == "delete" && p.sameFn(d.Fn, fn) && ls.Held(d.Instr, "Client.lock") {
						if _, _, miss := p.reachFromBlock(fn, e.to, isReturnLike, func(x ssa.Instruction) bool { return x == d.Instr }, nil); !miss {
							okDel = true
						}
					}
				}
				// the value returned on this arm is ErrTimeout
				_, _, missErr := p.reachFromBlock(fn, e.to, isReturnLike, func(y ssa.Instruction) bool {
					v, ok := y.(ssa.Value)
					return ok && isGlobalLoad(v, "ErrTimeout")
				}, nil)
				okErr := !missErr
				c.Ob("R-BOUNDED-WAIT", sc.key(fn, "timer arm: unregister under lock, ErrTimeout"), p.InstrPos(e.to.Instrs[0]), okDel && okErr, ifs(!(okDel && okErr), "the timeout arm does not unregister the waiter under the lock and return ErrTimeout"))
			}
		})
	}
	if nsel == 0 {
		c.Undecided("R-BOUNDED-WAIT", "no select on a waiter channel found")
	}

	// ---- R-ERR-FORMS
	c.Rule("R-ERR-FORMS", "Client.Call / CallWithContext return director's error unchanged; the other call forms forward the empty address on that edge", 6)
	dir := p.Fn("(*Client).director")
	for _, name := range []string{"Call", "CallWithContext", "RoundTrip", "Go", "NewStream", "Ping"} {
		fn := p.Fn("(*Client)." + name)
		if fn == nil || dir == nil {
			c.Undecided("R-ERR-FORMS", "(*Client)."+name+" not found")
			continue
		}
		var dcall *ssa.Call
		for _, cs := range callsIn(fn, "(*Client).director") {
			dcall = cs.(*ssa.Call)
		}
		if dcall == nil {
			c.Ob("R-ERR-FORMS", "(*Client)."+name+"#uses director", fn.Pos(), false, "does not route through director()")
			continue
		}
		edges, _ := p.guardEdges(fn, func(cond ssa.Value) (bool, bool) {
			k, eq, ok := p.condFact(cond)
			if !ok || k.c != "nil" {
				return false, false
			}
			e, isE := p.canon(k.v).(*ssa.Extract)
			if !isE || e.Tuple != ssa.Value(dcall) || e.Index != 2 {
				return false, false
			}
			return true, !eq // error present
		})
		if len(edges) == 0 {
			c.Ob("R-ERR-FORMS", "(*Client)."+name+"#tests director's error", fn.Pos(), false, "director's error is ignored")
			continue
		}
		for e := range edges {
			ok := false
			if name == "Call" || name == "CallWithContext" {
				// first return reached returns exactly director's err
				w, _, found := p.reachFromBlock(fn, e.to, isReturnLike, nil, nil)
				if found {
					r := w.(*ssa.Return)
					if ex, isE := p.canon(r.Results[len(r.Results)-1]).(*ssa.Extract); isE && ex.Tuple == ssa.Value(dcall) && ex.Index == 2 {
						ok = true
					}
				}
				c.Ob("R-ERR-FORMS", "(*Client)."+name+"#returns director's error", p.InstrPos(e.to.Instrs[0]), ok, ifs(!ok, "the waiting failure (ErrTimeout / ErrShutdown) is not returned unchanged"))
			} else {
				w, _, found := p.reachFromBlock(fn, e.to, func(x ssa.Instruction) bool {
					cc, isC := x.(*ssa.Call)
					return isC && cc.Common().IsInvoke() && namedOf(cc.Common().Value.Type()) == "RoundTripper"
				}, nil, nil)
				if found {
					cc := w.(*ssa.Call)
					for _, arg := range cc.Common().Args {
						if cst, isC := arg.(*ssa.Const); isC && isStringType(arg.Type()) && constStr(cst) == `""` {
							ok = true
						}
					}
				}
				c.Ob("R-ERR-FORMS", "(*Client)."+name+"#forwards the empty address", p.InstrPos(e.to.Instrs[0]), ok, ifs(!ok, "on a routing failure "+name+" does not complete through the transport with the empty address (ErrDial)"))
			}
		}
	}

	// ---- R-ALIVE-FLAG
	c.Rule("R-ALIVE-FLAG", "only ErrDial clears target.alive; the detector probes exactly the targets whose alive flag is false; a target found not alive during the rebuild is re-marked with ErrDial only", 3)
	ruleDeadStaysDead(c, a, "R-ALIVE-FLAG")
	if al := p.Fn("(*target).Alive"); al == nil {
		c.Undecided("R-ALIVE-FLAG", "(*target).Alive not found")
	} else {
		isDial := func(cond ssa.Value) (bool, bool) {
			b, ok := cond.(*ssa.BinOp)
			if !ok || (b.Op != token.EQL && b.Op != token.NEQ) {
				return false, false
			}
			if isGlobalLoad(b.X, "ErrDial") || isGlobalLoad(b.Y, "ErrDial") {
				return true, b.Op == token.EQL
			}
			return false, false
		}
		for _, s := range p.fieldStoresIn(al, "target", "alive") {
			cst, _ := s.Val.(*ssa.Const)
			if cst == nil {
				// the direct form: t.alive = err != ErrDial
				if m, onTrue := isDial(s.Val); m {
					c.Ob("R-ALIVE-FLAG", sc.key(al, "alive = (err != ErrDial)"), p.InstrPos(s), !onTrue, ifs(onTrue, "target.alive is set to err == ErrDial: unreachable targets count as alive and healthy ones as dead"))
					continue
				}
				c.Ob("R-ALIVE-FLAG", sc.key(al, "alive="), p.InstrPos(s), false, "target.alive set from a non-constant")
				continue
			}
			var g bool
			if constStr(cst) == "false" {
				g, _ = p.guardedBy(s, isDial)
			} else {
				g, _ = p.guardedBy(s, negate(isDial))
			}
			c.Ob("R-ALIVE-FLAG", sc.key(al, "alive="+constStr(cst)), p.InstrPos(s), g, ifs(!g, "target.alive="+constStr(cst)+" is not tied to err == ErrDial: application errors mark targets dead (or dial failures do not)"))
		}
	}
	if al := p.Fn("(*target).Alive"); al != nil {
		hasFalse, hasTrue := false, false
		for _, s := range p.fieldStoresIn(al, "target", "alive") {
			if cst, ok := s.Val.(*ssa.Const); ok {
				if constStr(cst) == "false" {
					hasFalse = true
				} else {
					hasTrue = true
				}
			} else if b, ok := s.Val.(*ssa.BinOp); ok && (isGlobalLoad(b.X, "ErrDial") || isGlobalLoad(b.Y, "ErrDial")) {
				hasFalse, hasTrue = true, true
			}
		}
		c.Ob("R-ALIVE-FLAG", "(*target).Alive#marks dead and alive", al.Pos(), hasFalse && hasTrue, ifs(!(hasFalse && hasTrue), "target.Alive never marks a target dead (or never alive): an unreachable target keeps receiving calls / a recovered one is never used"))
	}
	for _, s := range p.storesToField("target", "alive") {
		if fname(s.Fn) != "(*target).Alive" && !baseIsLocalAlloc(s.Base) {
			c.Ob("R-ALIVE-FLAG", sc.key(s.Fn, "alive= outside Alive()"), p.InstrPos(s.Instr), false, "target.alive written outside (*target).Alive")
		}
	}
	if dt := p.Fn("(*Client).detect"); dt == nil {
		c.Undecided("R-ALIVE-FLAG", "(*Client).detect not found")
	} else {
		n := 0
		eachInstr(dt, func(in ssa.Instruction) {
			if !startsProbe(in) {
				return
			}
			n++
			gd, _ := p.guardedBy(in, func(cond ssa.Value) (bool, bool) {
				cond = p.canon(cond)
				if isLoadOf(cond, "target", "alive") {
					return true, false
				}
				if b, ok := cond.(*ssa.BinOp); ok && (b.Op == token.EQL || b.Op == token.NEQ) && isLoadOf(p.canon(b.X), "target", "alive") {
					if cst, ok := b.Y.(*ssa.Const); ok {
						isFalse := constStr(cst) == "false"
						return true, (b.Op == token.EQL) == isFalse
					}
				}
				return false, false
			})
			inRange := p.inLoop(in)
			c.Ob("R-ALIVE-FLAG", sc.key(dt, "probe exactly the dead targets"), p.InstrPos(in), gd && inRange, ifs(!(gd && inRange), "the detector does not probe every not-alive target (and only those)"))
		})
		if n == 0 {
			c.Ob("R-ALIVE-FLAG", sc.key(dt, "probe exactly the dead targets"), dt.Pos(), false, "the detector never probes dead targets: a recovered target is never used again")
		}
		// every not-alive target is probed: from the edge on which alive is false
		// the probe is reached before the loop continues
		deadEdges, _ := p.guardEdges(dt, func(cond ssa.Value) (bool, bool) {
			cond = p.canon(cond)
			if isLoadOf(cond, "target", "alive") {
				return true, false
			}
			if b, ok := cond.(*ssa.BinOp); ok && (b.Op == token.EQL || b.Op == token.NEQ) && isLoadOf(p.canon(b.X), "target", "alive") {
				if cst, ok := b.Y.(*ssa.Const); ok {
					isFalse := constStr(cst) == "false"
					return true, (b.Op == token.EQL) == isFalse
				}
			}
			return false, false
		})
		for e := range deadEdges {
			_, tr, miss := p.reachFromBlock(dt, e.to, func(x ssa.Instruction) bool {
				_, isNext := x.(*ssa.Next)
				return isNext || isReturnLike(x)
			}, startsProbe, nil)
			c.Ob("R-ALIVE-FLAG", sc.key(dt, "every dead target is probed"), p.InstrPos(e.to.Instrs[0]), !miss, ifs(miss, "a not-alive target can be skipped by the detector ("+p.lineTrail(tr)+"): it is never used again after it recovers"))
		}
	}
}

var _ = strings.HasPrefix

// addressOnlyFromSchedule: every address fn returns (first result) is a
// constant or schedule()'s first result (recursively through helpers).
func addressOnlyFromSchedule(p *Prog, fn *ssa.Function, depth int) bool {
	if fn == nil || fn.Blocks == nil || depth > 2 {
		return false
	}
	ok := true
	eachInstr(fn, func(in ssa.Instruction) {
		r, isR := in.(*ssa.Return)
		if !isR || len(r.Results) < 1 || (len(in.Block().Preds) == 0 && in.Block() != fn.Blocks[0]) {
			return
		}
		for _, o := range p.origins(r.Results[0]) {
			o = p.canon(o)
			switch x := o.(type) {
			case *ssa.Const:
			case *ssa.Extract:
				call, isC := x.Tuple.(*ssa.Call)
				if isC && calleeName(call) == "(*Client).schedule" {
					continue
				}
				if isC && x.Index == 0 && addressOnlyFromSchedule(p, call.Common().StaticCallee(), depth+1) {
					continue
				}
				ok = false
			default:
				ok = false
			}
		}
	})
	return ok
}

// dependsOn: v is computed (through arithmetic, conversions and φ) from target.
func dependsOn(v, target ssa.Value, depth int) bool {
	if v == target {
		return true
	}
	if depth == 0 {
		return false
	}
	switch x := v.(type) {
	case *ssa.BinOp:
		return dependsOn(x.X, target, depth-1) || dependsOn(x.Y, target, depth-1)
	case *ssa.Convert:
		return dependsOn(x.X, target, depth-1)
	case *ssa.ChangeType:
		return dependsOn(x.X, target, depth-1)
	case *ssa.UnOp:
		return dependsOn(x.X, target, depth-1)
	case *ssa.Phi:
		for _, e := range x.Edges {
			if dependsOn(e, target, depth-1) {
				return true
			}
		}
	}
	return false
}

// latencyAssignments returns the values target.Update may store into target.latency, each
// with the instruction whose control dependence decides it: the store itself, or — when the
// store takes a φ (`latency = …` in every arm, one store at the end) — the end of the
// predecessor block that contributes the value.
type latAssign struct {
	val  ssa.Value
	site ssa.Instruction
}

func latencyAssignments(tu *ssa.Function) []latAssign {
	var out []latAssign
	eachInstr(tu, func(in ssa.Instruction) {
		cc, ok := in.(*ssa.Call)
		if !ok || calleeName(cc) != "sync/atomic.StoreInt64" {
			return
		}
		fr, _, ok := fieldOfAddr(cc.Call.Args[0])
		if !ok || fr.Field != "latency" {
			return
		}
		if phi, isPhi := cc.Call.Args[1].(*ssa.Phi); isPhi {
			for i, e := range phi.Edges {
				pb := phi.Block().Preds[i]
				out = append(out, latAssign{e, pb.Instrs[len(pb.Instrs)-1]})
			}
			return
		}
		out = append(out, latAssign{cc.Call.Args[1], in})
	})
	return out
}

// startsProbe: `go c.check(t)`, or a goroutine whose body calls check.
func startsProbe(x ssa.Instruction) bool {
	g, ok := x.(*ssa.Go)
	if !ok {
		return false
	}
	if calleeNameCommon(g.Common()) == "(*Client).check" {
		return true
	}
	var cl *ssa.Function
	switch v := g.Common().Value.(type) {
	case *ssa.MakeClosure:
		cl, _ = v.Fn.(*ssa.Function)
	case *ssa.Function:
		cl = v
	}
	if cl == nil || cl.Blocks == nil {
		return false
	}
	found := false
	eachInstr(cl, func(in ssa.Instruction) {
		if cc, ok := in.(ssa.CallInstruction); ok && calleeName(cc) == "(*Client).check" {
			found = true
		}
	})
	return found
}
