package main

import (
	"fmt"
	"go/token"
	"go/types"
	"reflect"
	"sort"
	"strings"

	"golang.org/x/tools/go/ssa"
)

func init() {
	register("C07", &propDef{
		Meta: PropMeta{
			Explanation: "Writer/reader/specification table agreement, extracted from the SSA of the hand-written codecs after constant folding (E9): (1) protobuf headers — the (field, field number, wire type) triples written by MarshalTo equal the triples accepted by Unmarshal (switch case + wire-type test + decode routine of the matching kind, into the same struct field) and equal the documented tables; (2) code headers — the order in which Marshal emits the fields equals the order in which Unmarshal consumes them and the documented order, and the short/long length threshold constant is the same on both sides; (3) json headers — struct tags and Go types are the documented i,u,m,p / i,e,r; (4) upgrade byte — per field the Marshal shift equals the Unmarshal shift, the mask covers the field's constants, bit ranges are disjoint; (5) size bound — Size()/the size preamble reserves at least tag+10-byte varint per field plus len(field), and every length-extending reslice of a caller-supplied buffer is dominated by a capacity test against the same length; (6) the request/response types of every Encoder implement the interface its codec asserts.",
			NotDecided:  "Value-level round-trip equality for all inputs, stale bytes of a reused buffer, UTF-8 behaviour of encoding/json: these need execution or symbolic reasoning (another technique family).",
			Assumptions: []string{"github.com/hslam/code Decode*/SizeofVarint implement protobuf varints (dependency)", "the documented wire format: pb request {Seq 1/varint, Upgrade 2/bytes, ServiceMethod 3/bytes, Args 4/bytes}, response {Seq 1/varint, Error 2/bytes, Reply 3/bytes}; code headers in that field order with varint length prefixes; json keys i,u,m,p / i,e,r; upgrade byte NoRequest bit7, NoResponse bit6, Heartbeat bit5, Stream bits 4-3"},
			Trusted:     commonTrusted,
		},
		Run: runC07,
	})
}

type pbTriple struct {
	Field string
	Num   int64
	Wire  int64
}

var pbSpec = map[string][]pbTriple{
	"pbRequest":  {{"Seq", 1, 0}, {"Upgrade", 2, 2}, {"ServiceMethod", 3, 2}, {"Args", 4, 2}},
	"pbResponse": {{"Seq", 1, 0}, {"Error", 2, 2}, {"Reply", 3, 2}},
}

var codeSpec = map[string][]string{
	"request":  {"Seq", "Upgrade", "ServiceMethod", "Args"},
	"response": {"Seq", "Error", "Reply"},
}

func tripleStr(ts []pbTriple) string {
	sort.Slice(ts, func(i, j int) bool { return ts[i].Field < ts[j].Field })
	var s []string
	for _, t := range ts {
		s = append(s, fmt.Sprintf("%s=%d/%d", t.Field, t.Num, t.Wire))
	}
	return strings.Join(s, " ")
}

// fieldOfFact: the struct field a register fact is about (load of st.F, or len of it).
func fieldOfFactValue(p *Prog, v ssa.Value, st string) string {
	v = p.canon(v)
	if fr, _, ok := fieldOfLoad(v); ok && fr.Struct == st {
		return fr.Field
	}
	return ""
}

func runC07(c *Check, a *Analysis) {
	p := c.P
	sc := siteCounter{}
	ruleHeaderFresh(c, a, "R-HEADER-FRESH")
	rulePBFieldsIndependent(c, a, "R-PB-FIELDS")

	// ---- (1) protobuf tables
	c.Rule("R-PB-TABLE", "protobuf header: triples (field, number, wire type) written by MarshalTo = triples accepted by Unmarshal = documented table; each field decoded by the routine of its kind into the same field", 4)
	for _, st := range []string{"pbRequest", "pbResponse"} {
		w := p.Fn("(*" + st + ").MarshalTo")
		r := p.Fn("(*" + st + ").Unmarshal")
		if w == nil || r == nil {
			c.Undecided("R-PB-TABLE", st+": MarshalTo/Unmarshal not found")
			continue
		}
		// writer: constant byte stores into the buffer, attributed to the guarding field
		var wt []pbTriple
		eachInstrCtx(w, func(in, at ssa.Instruction, res func(ssa.Value) ssa.Value) {
			s, ok := in.(*ssa.Store)
			if !ok {
				return
			}
			if _, isIdx := s.Addr.(*ssa.IndexAddr); !isIdx {
				return
			}
			// the tag may be a parameter of a field-writing helper: resolved per call site
			k, ok := constInt(res(s.Val))
			if !ok {
				return
			}
			f := ""
			for fk, fv := range p.factsAt(at) {
				if fv {
					continue // field present means "== 0" / "len0" is false
				}
				if n := fieldOfFactValue(p, fk.v, st); n != "" {
					f = n
				}
			}
			if f == "" {
				return
			}
			wt = append(wt, pbTriple{f, k >> 3, k & 7})
		})
		// reader: decode calls with &st.F
		var rt []pbTriple
		kindOK := true
		kindDet := ""
		eachInstr(r, func(in ssa.Instruction) {
			call, ok := in.(*ssa.Call)
			if !ok || !strings.HasPrefix(calleeName(call), "code.Decode") || len(call.Call.Args) < 2 {
				return
			}
			fr, _, ok := fieldOfAddr(call.Call.Args[1])
			if !ok || fr.Struct != st {
				return
			}
			num, wire := int64(-1), int64(-1)
			for fk, fv := range p.factsAt(in) {
				if !fv {
					continue
				}
				k, err := parseInt(fk.c)
				if err != nil {
					continue
				}
				switch x := stripConv(fk.v).(type) {
				case *ssa.BinOp:
					if x.Op == token.SHR {
						num = k
					} else if x.Op == token.AND {
						wire = k
					}
				}
			}
			rt = append(rt, pbTriple{fr.Field, num, wire})
			// decode routine of the matching kind
			want := "code.DecodeBytes"
			ft := fieldType(p, st, fr.Field)
			switch {
			case wire == 0:
				want = "code.DecodeVarint"
			case ft != nil && isStringType(ft):
				want = "code.DecodeString"
			}
			if calleeName(call) != want {
				kindOK = false
				kindDet = fmt.Sprintf("field %s (wire type %d) decoded with %s, expected %s", fr.Field, wire, calleeName(call), want)
			}
		})
		ws, rs, ss := tripleStr(wt), tripleStr(rt), tripleStr(append([]pbTriple{}, pbSpec[st]...))
		c.Ob("R-PB-TABLE", sc.key(w, "writer table = spec"), w.Pos(), ws == ss, ifs(ws != ss, "MarshalTo writes {"+ws+"}, documented {"+ss+"}"))
		c.Ob("R-PB-TABLE", sc.key(r, "reader table = spec"), r.Pos(), rs == ss, ifs(rs != ss, "Unmarshal accepts {"+rs+"}, documented {"+ss+"}"))
		c.Ob("R-PB-TABLE", sc.key(r, "reader table = writer table"), r.Pos(), rs == ws, ifs(rs != ws, "writer {"+ws+"} vs reader {"+rs+"}"))
		c.Ob("R-PB-TABLE", sc.key(r, "decode routine kinds"), r.Pos(), kindOK, kindDet)
	}

	// ---- (2) code header order and threshold
	c.Rule("R-CODE-ORDER", "code header: field emission order in Marshal = consumption order in Unmarshal = documented order; the short/long length threshold is the same constant on both sides and is the documented varint boundary 127", 4)
	for _, st := range []string{"request", "response"} {
		w := p.Fn("(*" + st + ").Marshal")
		r := p.Fn("(*" + st + ").Unmarshal")
		if w == nil || r == nil {
			c.Undecided("R-CODE-ORDER", st+": Marshal/Unmarshal not found")
			continue
		}
		wo := fieldOrder(p, w, st, false)
		ro := fieldOrder(p, r, st, true)
		spec := strings.Join(codeSpec[st], ",")
		c.Ob("R-CODE-ORDER", sc.key(w, "writer order = spec"), w.Pos(), strings.Join(wo, ",") == spec, ifs(strings.Join(wo, ",") != spec, "Marshal emits "+strings.Join(wo, ",")+", documented "+spec))
		c.Ob("R-CODE-ORDER", sc.key(r, "reader order = spec"), r.Pos(), strings.Join(ro, ",") == spec, ifs(strings.Join(ro, ",") != spec, "Unmarshal consumes "+strings.Join(ro, ",")+", documented "+spec))
		wth := thresholds(p, w, st, false)
		rth := thresholds(p, r, st, true)
		okT := len(wth) > 0 && reflect.DeepEqual(wth, rth)
		c.Ob("R-CODE-ORDER", sc.key(r, "length thresholds agree"), r.Pos(), okT, ifs(!okT, fmt.Sprintf("writer thresholds %v, reader thresholds %v", wth, rth)))
		// documented format: a length is a varint, so exactly the lengths 1..127 fit in one byte
		thSpec := []int64{0, 127}
		okS := reflect.DeepEqual(wth, thSpec) && reflect.DeepEqual(rth, thSpec)
		c.Ob("R-CODE-ORDER", sc.key(r, "length thresholds = documented varint boundary"), r.Pos(), okS, ifs(!okS, fmt.Sprintf("single-byte length threshold is writer %v / reader %v, the documented varint format requires %v (a length of 128 must be written as 0x80 0x01)", wth, rth, thSpec)))
	}

	ruleVarintShape(c, a, "R-VARINT-SHAPE")

	// ---- (3) json tags
	c.Rule("R-JSON-TAGS", "json header structs carry the documented keys and Go types", 2)
	jsonSpec := map[string][][3]string{
		"jsonRequest":  {{"Seq", "i", "uint64"}, {"Upgrade", "u", "[]byte"}, {"ServiceMethod", "m", "string"}, {"Args", "p", "[]byte"}},
		"jsonResponse": {{"Seq", "i", "uint64"}, {"Error", "e", "string"}, {"Reply", "r", "[]byte"}},
	}
	for name, spec := range jsonSpec {
		obj := p.Root.Types.Scope().Lookup(name)
		if obj == nil {
			c.Undecided("R-JSON-TAGS", name+" not found")
			continue
		}
		st, _ := obj.Type().Underlying().(*types.Struct)
		var got [][3]string
		for i := 0; st != nil && i < st.NumFields(); i++ {
			tag := reflect.StructTag(st.Tag(i)).Get("json")
			got = append(got, [3]string{st.Field(i).Name(), tag, strings.ReplaceAll(st.Field(i).Type().String(), "uint8", "byte")})
		}
		ok := reflect.DeepEqual(got, spec)
		c.Ob("R-JSON-TAGS", name+"#tags", obj.Pos(), ok, ifs(!ok, fmt.Sprintf("have %v, documented %v", got, spec)))
	}

	// ---- (4) upgrade byte
	c.Rule("R-UPGRADE-BITS", "upgrade byte: Marshal shift = Unmarshal shift per field, masks cover the field's constants (Stream needs 2 bits), bit ranges disjoint and documented (NoRequest 7, NoResponse 6, Heartbeat 5, Stream 3)", 5)
	um, uu := p.Fn("(*upgrade).Marshal"), p.Fn("(*upgrade).Unmarshal")
	if um == nil || uu == nil {
		c.Undecided("R-UPGRADE-BITS", "(*upgrade).Marshal/Unmarshal not found")
	} else {
		wsh := map[string]int64{}
		eachInstr(um, func(in ssa.Instruction) {
			b, ok := in.(*ssa.BinOp)
			if !ok || b.Op != token.SHL {
				return
			}
			if fr, _, ok := fieldOfLoad(stripConv(b.X)); ok && fr.Struct == "upgrade" {
				if k, ok := constInt(stripConv(b.Y)); ok {
					wsh[fr.Field] = k
				}
			}
		})
		rsh := map[string]int64{}
		rmask := map[string]int64{}
		for _, s := range storesIn(uu) {
			fr, _, ok := fieldOfAddr(s.Addr)
			if !ok || fr.Struct != "upgrade" {
				continue
			}
			v := stripConv(s.Val)
			if and, ok := v.(*ssa.BinOp); ok && and.Op == token.AND {
				if m, ok := constInt(stripConv(and.Y)); ok {
					rmask[fr.Field] = m
				}
				if sh, ok := stripConv(and.X).(*ssa.BinOp); ok && sh.Op == token.SHR {
					if k, ok := constInt(stripConv(sh.Y)); ok {
						rsh[fr.Field] = k
					}
				}
			}
		}
		spec := map[string]int64{"NoRequest": 7, "NoResponse": 6, "Heartbeat": 5, "Stream": 3}
		need := map[string]int64{"NoRequest": 1, "NoResponse": 1, "Heartbeat": 1, "Stream": 3}
		used := int64(0)
		for _, f := range []string{"NoRequest", "NoResponse", "Heartbeat", "Stream"} {
			ws, wok := wsh[f]
			rs, rok := rsh[f]
			m := rmask[f]
			ok := wok && rok && ws == rs && ws == spec[f] && m&need[f] == need[f]
			det := ""
			if !ok {
				det = fmt.Sprintf("%s: Marshal shift %d (found %v), Unmarshal shift %d mask %#x (found %v), documented shift %d, needs mask %#x", f, ws, wok, rs, m, rok, spec[f], need[f])
			}
			bits := (m << uint(rs)) & 0xff
			if ok && used&bits != 0 {
				ok = false
				det = f + ": bit range overlaps another field"
			}
			used |= bits
			c.Ob("R-UPGRADE-BITS", "(*upgrade)#"+f, um.Pos(), ok, det)
		}
		// every constant the Stream field is compared with or assigned fits the mask
		maxK := int64(0)
		for _, fn := range p.Fns {
			eachInstr(fn, func(in ssa.Instruction) {
				switch x := in.(type) {
				case *ssa.BinOp:
					if isLoadOf(p.canon(x.X), "upgrade", "Stream") {
						if k, ok := constInt(x.Y); ok && k > maxK {
							maxK = k
						}
					}
				case *ssa.Store:
					if fr, _, ok := fieldOfAddr(x.Addr); ok && fr.Struct == "upgrade" && fr.Field == "Stream" {
						if k, ok := constInt(x.Val); ok && k > maxK {
							maxK = k
						}
					}
				}
			})
		}
		okc := maxK >= 3 && maxK&rmask["Stream"] == maxK && maxK <= rmask["Stream"]
		c.Ob("R-UPGRADE-BITS", "const#stream phases fit the mask", um.Pos(), okc, ifs(!okc, fmt.Sprintf("the largest stream phase constant used is %d, mask %#x", maxK, rmask["Stream"])))
	}

	// ---- (5) size bound and capacity guards
	c.Rule("R-SIZE-BOUND", "each header size computation reserves, per field, a constant >= tag + 10-byte varint (11 pb, 10 code) plus len(field)", 4)
	type sizeSpec struct {
		fn     string
		st     string
		per    int64
		fields []string
	}
	for _, ss := range []sizeSpec{
		{"(*pbRequest).Size", "pbRequest", 11, []string{"Upgrade", "ServiceMethod", "Args"}},
		{"(*pbResponse).Size", "pbResponse", 11, []string{"Error", "Reply"}},
		{"(*request).Marshal", "request", 10, []string{"Upgrade", "ServiceMethod", "Args"}},
		{"(*response).Marshal", "response", 10, []string{"Error", "Reply"}},
	} {
		fn := p.Fn(ss.fn)
		if fn == nil {
			c.Undecided("R-SIZE-BOUND", ss.fn+" not found")
			continue
		}
		total, lens := sizeSum(p, fn, ss.st)
		want := ss.per * int64(len(ss.fields)+1)
		ok := total >= want
		for _, f := range ss.fields {
			if lens[f] < 1 {
				ok = false
			}
		}
		c.Ob("R-SIZE-BOUND", sc.key(fn, "size >= per-field bound"), fn.Pos(), ok, ifs(!ok, fmt.Sprintf("size computation reserves constant %d (need >= %d) and len() terms %v (need each of %v): the encoder can write past the sized buffer at a varint boundary", total, want, lens, ss.fields)))
	}
	ruleResliceGuard(c, a, "R-RESLICE-GUARD", 6)

	// ---- (5b) the encoded bytes handed on are exactly the n bytes MarshalTo reported
	c.Rule("R-MARSHAL-LEN", "wherever a buffer filled by MarshalTo is returned or written to the wire it is resliced to the byte count MarshalTo returned (buf[:n])", 4)
	for _, fn := range p.Fns {
		eachInstr(fn, func(in ssa.Instruction) {
			cc, ok := in.(*ssa.Call)
			if !ok {
				return
			}
			n := calleeName(cc)
			if !strings.HasSuffix(n, ".MarshalTo") {
				return
			}
			args := cc.Common().Args
			buf := p.canon(args[len(args)-1])
			rootOf := func(v ssa.Value) ssa.Value {
				for i := 0; i < 6; i++ {
					v = p.canon(v)
					if sl, ok := v.(*ssa.Slice); ok {
						v = sl.X
						continue
					}
					break
				}
				return v
			}
			bufRoot := rootOf(buf)
			goodSlice := func(v ssa.Value) bool {
				sl, ok := p.canon(v).(*ssa.Slice)
				if !ok || sl.High == nil {
					return false
				}
				e, ok := p.canon(sl.High).(*ssa.Extract)
				return ok && e.Tuple == ssa.Value(cc) && e.Index == 0
			}
			check := func(v ssa.Value, at ssa.Instruction, what string) {
				for _, o := range p.origins(v) {
					if rootOf(o) != bufRoot {
						continue
					}
					ok := goodSlice(o)
					c.Ob("R-MARSHAL-LEN", sc.key(fn, what+" is buf[:n]"), p.InstrPos(at), ok, ifs(!ok, "the whole conservatively sized buffer is handed on instead of the n bytes MarshalTo wrote: trailing zero bytes follow the header (invalid protobuf; output depends on the scratch buffer)"))
				}
			}
			eachInstr(fn, func(x ssa.Instruction) {
				if !p.canReach(in, x, nil) {
					return
				}
				switch y := x.(type) {
				case *ssa.Return:
					for _, r := range y.Results {
						if isByteSlice(r.Type()) {
							check(r, x, "returned slice")
						}
					}
				case *ssa.Call:
					if calleeName(y) == "invoke socket.Messages.WriteMessage" {
						check(y.Common().Args[0], x, "written frame")
					}
				}
			})
		})
	}

	for _, st := range []string{"request", "response"} {
		fn := p.Fn("(*" + st + ").Marshal")
		if fn == nil {
			continue
		}
		// the size the buffer was grown to
		var grown ssa.Value
		eachInstr(fn, func(in ssa.Instruction) {
			if sl, ok := in.(*ssa.Slice); ok && sl.Low == nil && sl.High != nil {
				if _, isP := p.canon(sl.X).(*ssa.Parameter); isP {
					grown = p.canon(sl.High)
				}
			}
		})
		eachInstr(fn, func(in ssa.Instruction) {
			r, ok := in.(*ssa.Return)
			if !ok || len(r.Results) < 1 {
				return
			}
			for _, o := range p.origins(r.Results[0]) {
				sl, isS := p.canon(o).(*ssa.Slice)
				ok := isS && sl.High != nil && p.canon(sl.High) != grown
				c.Ob("R-MARSHAL-LEN", sc.key(fn, "returned slice is buf[:offset]"), p.InstrPos(in), ok, ifs(!ok, "the code header Marshal returns the whole sized buffer instead of the bytes written (buf[:offset])"))
			}
		})
	}

	c.Rule("R-FIELD-COPIED", "every header writer copies the bytes of each length-prefixed field into the buffer on every path on which the field is non-empty; the code header's single-byte length form is used only for lengths up to 127 (writer) and only for a first byte up to 127 (reader)", 10)
	for _, spec := range []struct {
		fn, st string
		fields []string
	}{
		{"(*pbRequest).MarshalTo", "pbRequest", []string{"Upgrade", "ServiceMethod", "Args"}},
		{"(*pbResponse).MarshalTo", "pbResponse", []string{"Error", "Reply"}},
		{"(*request).Marshal", "request", []string{"Upgrade", "ServiceMethod", "Args"}},
		{"(*response).Marshal", "response", []string{"Error", "Reply"}},
	} {
		fn := p.Fn(spec.fn)
		if fn == nil {
			c.Undecided("R-FIELD-COPIED", spec.fn+" not found")
			continue
		}
		for _, f := range spec.fields {
			field := f
			nonEmpty := func(cond ssa.Value) (bool, bool) {
				k, eq, ok := p.condFact(cond)
				if !ok || k.c != "len0" || !isLoadOf(p.canon(k.v), spec.st, field) {
					// len(F) > 127 also implies non-empty
					if b, isB := p.canon(cond).(*ssa.BinOp); isB && b.Op == token.GTR {
						if lc, isL := stripConv(b.X).(*ssa.Call); isL && calleeName(lc) == "builtin len" && isLoadOf(p.canon(lc.Call.Args[0]), spec.st, field) {
							if kk, isK := constInt(b.Y); isK && kk >= 0 {
								return true, true
							}
						}
					}
					return false, false
				}
				return true, !eq
			}
			edges, n := p.guardEdges(fn, nonEmpty)
			if n == 0 {
				c.Undecided("R-FIELD-COPIED", spec.fn+": no emptiness test for field "+field)
				continue
			}
			isCopyOfField := func(x ssa.Instruction) bool {
				cc, ok := x.(*ssa.Call)
				if !ok || calleeName(cc) != "builtin copy" {
					return false
				}
				return isLoadOf(p.canon(stripConv(cc.Call.Args[1])), spec.st, field)
			}
			for e := range edges {
				// a nested test may exclude the field again (len > 127 false → short form): follow until return
				_, tr, miss := p.reachFromBlock(fn, e.to, isReturnLike, isCopyOfField, nil)
				// the path through the explicit "empty" arm is fine: it is reachable only via len0 facts, which prune it
				c.Ob("R-FIELD-COPIED", sc.key(fn, "copy("+field+") when non-empty"), p.InstrPos(e.to.Instrs[0]), !miss, ifs(miss, "field "+field+" can be non-empty without its bytes being copied into the header ("+p.lineTrail(tr)+"): the peer decodes garbage / stale buffer contents"))
			}
		}
	}
	// code header: single-byte length form only below the varint boundary
	for _, st := range []string{"request", "response"} {
		if w := p.Fn("(*" + st + ").Marshal"); w != nil {
			for _, s := range storesIn(w) {
				if _, isIdx := s.Addr.(*ssa.IndexAddr); !isIdx {
					continue
				}
				cv, isConv := s.Val.(*ssa.Convert)
				if !isConv {
					continue
				}
				inner := stripConv(cv.X)
				lc, isL := inner.(*ssa.Call)
				if !isL || calleeName(lc) != "builtin len" {
					continue
				}
				fr, _, isF := fieldOfLoad(p.canon(lc.Call.Args[0]))
				if !isF || fr.Struct != st {
					continue
				}
				field := fr.Field
				g, _ := p.guardedBy(s, func(cond ssa.Value) (bool, bool) {
					b, isB := p.canon(cond).(*ssa.BinOp)
					if !isB {
						return false, false
					}
					l2, isL2 := stripConv(b.X).(*ssa.Call)
					k, isK := constInt(b.Y)
					if !isL2 || !isK || calleeName(l2) != "builtin len" || !isLoadOf(p.canon(l2.Call.Args[0]), st, field) {
						return false, false
					}
					switch {
					case b.Op == token.GTR && k == 127, b.Op == token.GEQ && k == 128:
						return true, false // short form allowed on the false edge
					case b.Op == token.LEQ && k == 127, b.Op == token.LSS && k == 128:
						return true, true
					}
					return false, false
				})
				c.Ob("R-FIELD-COPIED", sc.key(w, "single-byte length only for len("+field+") <= 127"), p.InstrPos(s), g, ifs(!g, "the single-byte length form is written for "+field+" without being limited to lengths <= 127: longer fields are truncated on the wire"))
			}
		}
	}

	// ---- (6) encoder/codec interface agreement
	c.Rule("R-ENCODER-IFACE", "for every Encoder in the package, the dynamic types returned by NewRequest/NewResponse implement the interface that the codec returned by NewCodec type-asserts", 3)
	for _, enc := range []string{"PBEncoder", "CODEEncoder", "JSONEncoder"} {
		nc := p.Fn("(*" + enc + ").NewCodec")
		nr := p.Fn("(*" + enc + ").NewRequest")
		ns := p.Fn("(*" + enc + ").NewResponse")
		if nc == nil || nr == nil || ns == nil {
			c.Undecided("R-ENCODER-IFACE", enc+" methods not found")
			continue
		}
		ct := dynamicReturnType(p, nc, 0)
		if ct == nil {
			c.Undecided("R-ENCODER-IFACE", enc+".NewCodec: cannot resolve the codec type")
			continue
		}
		// interfaces asserted on the value parameter of the codec's Marshal/Unmarshal
		var need []*types.Interface
		var needNames []string
		for _, m := range []string{"Marshal", "Unmarshal"} {
			mf := p.SSA.LookupMethod(ct, p.Root.Types, m)
			if mf == nil {
				continue
			}
			eachInstr(mf, func(in ssa.Instruction) {
				if ta, ok := in.(*ssa.TypeAssert); ok {
					if it, ok := ta.AssertedType.Underlying().(*types.Interface); ok {
						need = append(need, it)
						needNames = append(needNames, ta.AssertedType.String())
					}
				}
			})
		}
		for _, f := range []*ssa.Function{nr, ns} {
			dt := dynamicReturnType(p, f, 0)
			ok := dt != nil
			det := ""
			if dt == nil {
				det = "cannot resolve the dynamic type returned by " + fname(f)
			}
			for i, it := range need {
				if dt != nil && !types.Implements(dt, it) {
					ok = false
					det = fmt.Sprintf("%s returns %s which does not implement %s asserted by %s", fname(f), dt, shortName(needNames[i]), ct)
				}
			}
			c.Ob("R-ENCODER-IFACE", sc.key(f, "implements codec's interface"), f.Pos(), ok, det)
		}
	}
}

func ifs(b bool, s string) string {
	if b {
		return s
	}
	return ""
}

func parseInt(s string) (int64, error) {
	var k int64
	_, err := fmt.Sscanf(s, "%d", &k)
	return k, err
}

func stripConv(v ssa.Value) ssa.Value {
	for {
		switch x := v.(type) {
		case *ssa.Convert:
			v = x.X
		case *ssa.ChangeType:
			v = x.X
		default:
			return v
		}
	}
}

func fieldType(p *Prog, st, field string) types.Type {
	obj := p.Root.Types.Scope().Lookup(st)
	if obj == nil {
		return nil
	}
	s, ok := obj.Type().Underlying().(*types.Struct)
	if !ok {
		return nil
	}
	for i := 0; i < s.NumFields(); i++ {
		if s.Field(i).Name() == field {
			return s.Field(i).Type()
		}
	}
	return nil
}

func storesIn(fn *ssa.Function) []*ssa.Store {
	var out []*ssa.Store
	eachInstr(fn, func(in ssa.Instruction) {
		if s, ok := in.(*ssa.Store); ok {
			out = append(out, s)
		}
	})
	return out
}

// fieldOrder: the order in which fn first touches the fields of st (reads for a
// writer, writes/address-takes for a reader), by CFG precedence.
func fieldOrder(p *Prog, fn *ssa.Function, st string, reader bool) []string {
	first := map[string][]ssa.Instruction{}
	eachInstr(fn, func(in ssa.Instruction) {
		fa, ok := in.(*ssa.FieldAddr)
		if !ok {
			return
		}
		fr, _, ok := fieldOfAddr(fa)
		if !ok || fr.Struct != st {
			return
		}
		first[fr.Field] = append(first[fr.Field], in)
	})
	if !reader {
		// the size preamble reads every length first: only consider accesses
		// that feed a copy()/store into the buffer, i.e. those after the first
		// buffer write
		var firstWrite ssa.Instruction
		eachInstr(fn, func(in ssa.Instruction) {
			if s, ok := in.(*ssa.Store); ok && firstWrite == nil {
				if _, isIdx := s.Addr.(*ssa.IndexAddr); isIdx {
					firstWrite = in
				}
			}
		})
		if firstWrite != nil {
			for f, ins := range first {
				var keep []ssa.Instruction
				for _, in := range ins {
					if !p.dominatesInstr(in, firstWrite) {
						keep = append(keep, in)
					}
				}
				// Seq: the value is loaded before the first write (var t = req.Seq)
				if len(keep) == 0 {
					keep = ins[len(ins)-1:]
				}
				first[f] = keep
			}
		}
	}
	var fields []string
	for f := range first {
		fields = append(fields, f)
	}
	before := func(a, b string) bool {
		// a precedes b if some access of a reaches an access of b and no access of b reaches any access of a
		ab, ba := false, false
		for _, x := range first[a] {
			for _, y := range first[b] {
				if p.dominatesInstr(x, y) {
					ab = true
				}
				if p.dominatesInstr(y, x) {
					ba = true
				}
			}
		}
		if ab != ba {
			return ab
		}
		return p.InstrPos(first[a][0]) < p.InstrPos(first[b][0])
	}
	sort.Slice(fields, func(i, j int) bool { return before(fields[i], fields[j]) })
	return fields
}

// thresholds: constants the length of a field (writer) or the first length
// byte (reader) is compared with.
func thresholds(p *Prog, fn *ssa.Function, st string, reader bool) []int64 {
	set := map[int64]bool{}
	eachInstr(fn, func(in ssa.Instruction) {
		b, ok := in.(*ssa.BinOp)
		if !ok || (b.Op != token.GTR && b.Op != token.LSS && b.Op != token.GEQ && b.Op != token.LEQ) {
			return
		}
		k, ok := constInt(stripConv(b.Y))
		if !ok {
			return
		}
		x := stripConv(b.X)
		if reader {
			if u, ok := x.(*ssa.UnOp); ok && u.Op == token.MUL {
				if _, isIdx := u.X.(*ssa.IndexAddr); isIdx {
					set[k] = true
				}
			}
		} else if cc, ok := x.(*ssa.Call); ok && calleeName(cc) == "builtin len" {
			if fr, _, ok := fieldOfLoad(p.canon(cc.Call.Args[0])); ok && fr.Struct == st {
				set[k] = true
			}
		}
	})
	var out []int64
	for k := range set {
		out = append(out, k)
	}
	sort.Slice(out, func(i, j int) bool { return out[i] < out[j] })
	return out
}

// sizeSum follows the additive chain that produces the size: the sum of its
// integer constants and the len(field) terms it contains.
func sizeSum(p *Prog, fn *ssa.Function, st string) (int64, map[string]int) {
	lens := map[string]int{}
	// find the largest additive expression tree in the function
	best := int64(0)
	var bestLens map[string]int
	var walk func(v ssa.Value, l map[string]int, depth int) int64
	walk = func(v ssa.Value, l map[string]int, depth int) int64 {
		if depth > 40 {
			return 0
		}
		v = stripConv(v)
		if k, ok := constInt(v); ok {
			return k
		}
		switch x := v.(type) {
		case *ssa.BinOp:
			if x.Op == token.ADD {
				return walk(x.X, l, depth+1) + walk(x.Y, l, depth+1)
			}
		case *ssa.Call:
			if calleeName(x) == "builtin len" {
				if fr, _, ok := fieldOfLoad(p.canon(x.Call.Args[0])); ok && fr.Struct == st {
					l[fr.Field]++
				}
			}
		}
		return 0
	}
	eachInstr(fn, func(in ssa.Instruction) {
		b, ok := in.(*ssa.BinOp)
		if !ok || b.Op != token.ADD {
			return
		}
		l := map[string]int{}
		t := walk(b, l, 0)
		if t > best || (t == best && len(l) > len(bestLens)) {
			best, bestLens = t, l
		}
	})
	if bestLens != nil {
		lens = bestLens
	}
	return best, lens
}

// derivedFrom: v is computed from len(x)/cap(x) of the same slice.
func derivedFrom(p *Prog, v, x ssa.Value) bool {
	v = stripConv(p.canon(v))
	switch y := v.(type) {
	case *ssa.Call:
		n := calleeName(y)
		if (n == "builtin len" || n == "builtin cap") && sameSliceVar(p, y.Call.Args[0], x) {
			return true
		}
	case *ssa.BinOp:
		return derivedFrom(p, y.X, x) || derivedFrom(p, y.Y, x)
	}
	return false
}

func sameSliceVar(p *Prog, a, b ssa.Value) bool {
	a, b = p.canon(a), p.canon(b)
	if a == b {
		return true
	}
	fa, ba, oka := fieldOfLoad(a)
	fb, bb, okb := fieldOfLoad(b)
	return oka && okb && fa == fb && p.canon(ba) == p.canon(bb)
}

// sameExpr: structural equality of two small expressions (registers, len(x),
// conversions).
func sameExpr(p *Prog, a, b ssa.Value) bool {
	a, b = stripConv(p.canon(a)), stripConv(p.canon(b))
	if a == b {
		return true
	}
	ca, oka := a.(*ssa.Call)
	cb, okb := b.(*ssa.Call)
	if oka && okb && calleeName(ca) == calleeName(cb) && strings.HasPrefix(calleeName(ca), "builtin ") && len(ca.Call.Args) == 1 && len(cb.Call.Args) == 1 {
		return sameSliceVar(p, ca.Call.Args[0], cb.Call.Args[0]) || sameExpr(p, ca.Call.Args[0], cb.Call.Args[0])
	}
	fa, ba, okfa := fieldOfLoad(a)
	fb, bb, okfb := fieldOfLoad(b)
	if okfa && okfb && fa == fb && p.canon(ba) == p.canon(bb) {
		return true
	}
	return false
}

// dynamicReturnType: the concrete type fn's i-th result is made from
// (following one level of static calls).
func dynamicReturnType(p *Prog, fn *ssa.Function, i int) types.Type {
	var res types.Type
	var look func(f *ssa.Function, depth int)
	look = func(f *ssa.Function, depth int) {
		eachInstr(f, func(in ssa.Instruction) {
			r, ok := in.(*ssa.Return)
			if !ok || i >= len(r.Results) {
				return
			}
			v := r.Results[i]
			if mi, ok := v.(*ssa.MakeInterface); ok {
				res = mi.X.Type()
				return
			}
			if cc, ok := v.(*ssa.Call); ok && depth < 3 {
				if cal := cc.Common().StaticCallee(); cal != nil && cal.Blocks != nil {
					look(cal, depth+1)
				}
			}
		})
	}
	look(fn, 0)
	return res
}

func init() {
	prev := props["C07"].Run
	props["C07"].Run = func(c *Check, a *Analysis) {
		prev(c, a)
		ruleAccessors(c, a)
		ruleHeaderMap(c, a, "R-HEADER-MAP")
	}
}

// ruleAccessors: Get<F>/Set<F> of every header type read/write field F.
func ruleAccessors(c *Check, a *Analysis) {
	p := c.P
	c.Rule("R-ACCESSORS", "every Get<F>/Set<F> method of a header type returns / stores exactly its own field F", 28)
	for _, st := range []string{"pbRequest", "pbResponse", "request", "response", "jsonRequest", "jsonResponse"} {
		obj := p.Root.Types.Scope().Lookup(st)
		if obj == nil {
			c.Undecided("R-ACCESSORS", st+" not found")
			continue
		}
		ms := p.SSA.MethodSets.MethodSet(types.NewPointer(obj.Type()))
		for i := 0; i < ms.Len(); i++ {
			fn := p.SSA.MethodValue(ms.At(i))
			if fn == nil || fn.Blocks == nil {
				continue
			}
			name := fn.Name()
			switch {
			case strings.HasPrefix(name, "Get"):
				f := name[3:]
				ok := false
				eachInstr(fn, func(in ssa.Instruction) {
					if r, isR := in.(*ssa.Return); isR && len(r.Results) == 1 {
						ok = isLoadOf(r.Results[0], st, f)
					}
				})
				c.Ob("R-ACCESSORS", "(*"+st+")."+name, fn.Pos(), ok, ifs(!ok, name+" does not return field "+f))
			case strings.HasPrefix(name, "Set"):
				f := name[3:]
				ok := false
				n := 0
				for _, s := range storesIn(fn) {
					fr, _, isF := fieldOfAddr(s.Addr)
					if !isF {
						continue
					}
					n++
					if fr.Struct == st && fr.Field == f && len(fn.Params) == 2 && s.Val == ssa.Value(fn.Params[1]) {
						ok = true
					}
				}
				ok = ok && n == 1
				c.Ob("R-ACCESSORS", "(*"+st+")."+name, fn.Pos(), ok, ifs(!ok, name+" does not store its argument into field "+f+" only"))
			}
		}
	}
}

// ruleHeaderMap: the codecs move header fields between Context and the
// Request/Response objects field-for-field, identically in the encoder arm and
// in the default (pb) arm.
func ruleHeaderMap(c *Check, a *Analysis, rule string) {
	p := c.P
	c.Rule(rule, "client/server codecs map Context fields to header fields one-to-one (Seq↔Seq, Upgrade↔Upgrade, ServiceMethod↔ServiceMethod, Error↔Error, args/reply bytes↔Args/Reply) in both the encoder arm and the default pb arm", 20)
	sc := siteCounter{}
	// readers: Context.F = x.Get<G>()
	getMap := map[string]map[string]string{
		"(*serverCodec).ReadRequestHeader":  {"ServiceMethod": "GetServiceMethod", "Upgrade": "GetUpgrade", "Seq": "GetSeq", "value": "GetArgs"},
		"(*clientCodec).ReadResponseHeader": {"Seq": "GetSeq", "Error": "GetError", "value": "GetReply"},
	}
	for fnName, m := range getMap {
		fn := p.Fn(fnName)
		if fn == nil {
			c.Undecided(rule, fnName+" not found")
			continue
		}
		seen := map[string]int{}
		eachInstrCtx(fn, func(in, at ssa.Instruction, res func(ssa.Value) ssa.Value) {
			s, isStore := in.(*ssa.Store)
			if !isStore {
				return
			}
			fr, _, ok := fieldOfAddr(s.Addr)
			if !ok || fr.Struct != "Context" {
				return
			}
			want, known := m[fr.Field]
			got := ""
			if cc, isC := p.canon(res(s.Val)).(*ssa.Call); isC {
				if cc.Common().IsInvoke() {
					got = cc.Common().Method.Name()
				} else if cal := cc.Common().StaticCallee(); cal != nil {
					got = cal.Name()
				}
			}
			ok = known && got == want
			seen[fr.Field]++
			c.Ob(rule, sc.key(fn, "Context."+fr.Field+"="+want), p.InstrPos(s), ok, ifs(!ok, "Context."+fr.Field+" is filled from "+got+" (expected "+want+")"))
		})
		for f := range m {
			if seen[f] < 2 {
				c.Ob(rule, sc.key(fn, "both arms fill Context."+f), fn.Pos(), false, fmt.Sprintf("Context.%s is filled in %d arm(s); the encoder arm and the default pb arm must both fill it", f, seen[f]))
			}
		}
	}
	// writers: x.Set<G>(origin)
	type want struct{ field, kind string }
	setMap := map[string]map[string]want{
		"(*clientCodec).WriteRequest":  {"SetSeq": {"Seq", "ctx"}, "SetUpgrade": {"Upgrade", "ctx"}, "SetServiceMethod": {"ServiceMethod", "ctx"}, "SetArgs": {"", "body"}},
		"(*serverCodec).WriteResponse": {"SetSeq": {"Seq", "ctx"}, "SetError": {"Error", "ctx"}, "SetReply": {"", "body"}},
	}
	for fnName, m := range setMap {
		fn := p.Fn(fnName)
		if fn == nil {
			c.Undecided(rule, fnName+" not found")
			continue
		}
		seen := map[string]int{}
		eachInstrCtx(fn, func(in, at ssa.Instruction, res func(ssa.Value) ssa.Value) {
			hw, ok := headerWriteOf(in)
			if !ok {
				return
			}
			name := hw.Setter
			w, known := m[name]
			if !known {
				return
			}
			seen[name]++
			arg := res(hw.Val)
			good := true
			det := ""
			for _, o := range p.origins(arg) {
				o = p.canon(res(o))
				switch w.kind {
				case "ctx":
					if !isLoadOf(o, "Context", w.field) {
						good = false
						det = name + " receives " + describe(o) + " instead of Context." + w.field
					}
				case "body":
					// marshalled body bytes, the pass-through Context.value, or nil
					if nilConst(o) || isLoadOf(o, "Context", "value") {
						continue
					}
					if e, isE := o.(*ssa.Extract); isE {
						if mc, isC := e.Tuple.(*ssa.Call); isC && mc.Common().IsInvoke() && mc.Common().Method.Name() == "Marshal" {
							continue
						}
					}
					good = false
					det = name + " receives " + describe(o) + " instead of the marshalled body"
				}
			}
			c.Ob(rule, sc.key(fn, name), p.InstrPos(in), good, det)
		})
		for n := range m {
			if seen[n] < 2 {
				c.Ob(rule, sc.key(fn, "both arms call "+n), fn.Pos(), false, fmt.Sprintf("%s is called in %d arm(s); the encoder arm and the default pb arm must both call it", n, seen[n]))
			}
		}
	}
}

// ruleResliceGuard is shared by C07, C12 and C19.
func ruleResliceGuard(c *Check, a *Analysis, rule string, floor int) {
	p := c.P
	sc := siteCounter{}
	c.Rule(rule, "every length-extending reslice x[:n] of a caller-supplied buffer (parameter or Call.Buffer) is dominated by a test cap(x) >= n (or > n) on the same n", floor)
	for _, fn := range p.Fns {
		eachInstr(fn, func(in ssa.Instruction) {
			sl, ok := in.(*ssa.Slice)
			if !ok || sl.High == nil || sl.Low != nil {
				return
			}
			if _, isSlice := sl.X.Type().Underlying().(*types.Slice); !isSlice {
				return
			}
			x := p.canon(sl.X)
			_, isParam := x.(*ssa.Parameter)
			isBuf := isLoadOf(x, "Call", "Buffer")
			if !isParam && !isBuf {
				return
			}
			if derivedFrom(p, sl.High, x) {
				return // shrinking relative to the slice itself
			}
			h := sl.High
			g, _ := p.guardedBy(in, func(cond ssa.Value) (bool, bool) {
				b, ok := cond.(*ssa.BinOp)
				if !ok {
					return false, false
				}
				l, r, op := b.X, b.Y, b.Op
				isCap := func(v ssa.Value) bool {
					cc, ok := stripConv(v).(*ssa.Call)
					return ok && calleeName(cc) == "builtin cap" && sameSliceVar(p, cc.Call.Args[0], sl.X)
				}
				if isCap(r) {
					l, r = r, l
					switch op {
					case token.LSS:
						op = token.GTR
					case token.LEQ:
						op = token.GEQ
					case token.GTR:
						op = token.LSS
					case token.GEQ:
						op = token.LEQ
					}
				}
				if !isCap(l) || !sameExpr(p, r, h) {
					return false, false
				}
				switch op {
				case token.GEQ, token.GTR:
					return true, true
				case token.LSS, token.LEQ:
					return true, false
				}
				return false, false
			})
			det := ""
			if !g {
				det = "reslice " + describe(sl) + " extends a caller-supplied buffer without a dominating capacity test on the same length: the library writes beyond the length it reports / panics"
			}
			c.Ob(rule, sc.key(fn, "x[:n] under cap(x)>=n"), p.InstrPos(in), g, det)
		})
	}

}

// headerWrite is one assignment of a header field of a request/response object: a setter
// call (x.SetSeq(v)) or, for the built-in header structs, the equivalent direct field store
// (&pbResponse{Seq: v, …}).
type headerWrite struct {
	Setter string // "SetSeq", …
	Val    ssa.Value
	Instr  ssa.Instruction
}

var headerStructs = map[string]bool{"pbRequest": true, "pbResponse": true, "request": true, "response": true, "jsonRequest": true, "jsonResponse": true}

func headerWriteOf(in ssa.Instruction) (headerWrite, bool) {
	switch x := in.(type) {
	case *ssa.Call:
		name := ""
		if x.Common().IsInvoke() {
			name = x.Common().Method.Name()
		} else if cal := x.Common().StaticCallee(); cal != nil && cal.Signature.Recv() != nil {
			name = cal.Name()
		}
		if strings.HasPrefix(name, "Set") && len(x.Common().Args) > 0 {
			return headerWrite{name, x.Common().Args[len(x.Common().Args)-1], in}, true
		}
	case *ssa.Store:
		if fr, _, ok := fieldOfAddr(x.Addr); ok && headerStructs[fr.Struct] && x.Parent().Signature.Recv() == nil || ok && headerStructs[fr.Struct] && namedOf(x.Parent().Signature.Recv().Type()) != fr.Struct {
			return headerWrite{"Set" + fr.Field, x.Val, in}, true
		}
	}
	return headerWrite{}, false
}
