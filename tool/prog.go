package main

// Front end (E0): load and type-check /repo on every run, build go/ssa for the
// whole program (dependencies included, so callee bodies are available for
// summaries) and index the functions of package github.com/hslam/rpc.

import (
	"fmt"
	"go/token"
	"go/types"
	"os"
	"sort"
	"strings"

	"golang.org/x/tools/go/packages"
	"golang.org/x/tools/go/ssa"
	"golang.org/x/tools/go/ssa/ssautil"
)

const rpcPath = "github.com/hslam/rpc"

// Prog is the loaded program.
type Prog struct {
	Dir    string
	Fset   *token.FileSet
	Pkgs   []*packages.Package // initial packages (root first)
	Root   *packages.Package
	SSA    *ssa.Program
	RPC    *ssa.Package
	Fns    []*ssa.Function // the source functions of package rpc the rules iterate over: closures included, plain helpers (read as in-line code of their callers) excluded
	AllFns []*ssa.Function // every source function of package rpc (engines)
	byName map[string]*ssa.Function
	// static call sites inside package rpc, keyed by callee
	callers map[*ssa.Function][]ssa.CallInstruction
	// uses of a function (or of a closure made from it) as a value
	valueUse  map[*ssa.Function]bool // function used as a value (method value, func value, go/defer target excluded)
	localFunc map[*ssa.Function]bool // closure bound to a local variable and only ever called through it (`helper := func(…){…}; helper(x)`)
	idx       map[ssa.Instruction]int
	NumPkgs   int
	AllFuncs  int
	GOARCH    string
	Roles     []string // helper functions recognised by role under a different declared name
	bind        map[*ssa.Parameter]ssa.Value // parameters of helpers on the call chain a path search is following
	cutMatchers map[uintptr]*cutInfo
	flowCells   bool // origins reads local cells flow-sensitively (originsFlow)
	qwrap       map[*ssa.Function]*ssa.Call
	curFacts  facts    // facts of the path currently examined by reachCut (read by target predicates)
	noDescend bool     // switch the in-line exploration of helpers off (used by summaries that do their own lifting)
}

// CallSite is one resolved call.
type CallSite struct {
	Instr  ssa.CallInstruction
	Caller *ssa.Function
}

func shortName(s string) string {
	s = strings.ReplaceAll(s, rpcPath+".", "")
	s = strings.ReplaceAll(s, "github.com/hslam/", "")
	return s
}

// fname is the short, stable name of a function: "(*Conn).send", "Dial",
// "(*Conn).write$1".
func fname(fn *ssa.Function) string {
	if fn == nil {
		return "<nil>"
	}
	if cn, ok := canonName[fn]; ok {
		return cn
	}
	if par := fn.Parent(); par != nil {
		// closures inherit the (possibly canonical) name of their parent
		s := shortName(fn.String())
		if i := strings.LastIndex(s, "$"); i >= 0 {
			return fname(par) + s[i:]
		}
	}
	return canonRecv(shortName(fn.String()))
}

// canonRecv rewrites the receiver type of a method name to its recorded name ("(*flags).Marshal"
// ⇒ "(*upgrade).Marshal" when the type was renamed).
func canonRecv(s string) string {
	if len(canonTypeOf) == 0 || !strings.HasPrefix(s, "(") {
		return s
	}
	i := strings.Index(s, ")")
	if i < 0 {
		return s
	}
	recv := strings.TrimPrefix(s[1:i], "*")
	if c, ok := canonTypeOf[recv]; ok {
		return strings.Replace(s, recv+")", c+")", 1)
	}
	return s
}

// Load type-checks dir (pattern ".", or "./..." when all is set) without test
// files and builds SSA. goarch may be "" for the host architecture.
func Load(dir string, all bool, goarch string) (*Prog, error) {
	env := append(os.Environ(), "GOFLAGS=-mod=mod", "GOPROXY=off", "GOSUMDB=off", "GOTOOLCHAIN=local", "GOWORK=off")
	if goarch != "" {
		env = append(env, "GOARCH="+goarch, "CGO_ENABLED=0")
	}
	cfg := &packages.Config{Mode: packages.LoadAllSyntax, Dir: dir, Tests: false, Env: env}
	pats := []string{"."}
	if all {
		pats = []string{"./..."}
	}
	pkgs, err := packages.Load(cfg, pats...)
	if err != nil {
		return nil, fmt.Errorf("load: %v", err)
	}
	if len(pkgs) == 0 {
		return nil, fmt.Errorf("load: zero packages matched in %s", dir)
	}
	var errs []string
	n := 0
	packages.Visit(pkgs, nil, func(p *packages.Package) {
		n++
		for _, e := range p.Errors {
			errs = append(errs, e.Error())
		}
	})
	if len(errs) > 0 {
		if len(errs) > 5 {
			errs = errs[:5]
		}
		return nil, fmt.Errorf("type-check errors: %s", strings.Join(errs, "; "))
	}
	p := &Prog{Dir: dir, Pkgs: pkgs, NumPkgs: n, GOARCH: goarch}
	for _, pk := range pkgs {
		if pk.PkgPath == rpcPath {
			p.Root = pk
		}
	}
	if p.Root == nil {
		return nil, fmt.Errorf("package %s not found in %s", rpcPath, dir)
	}
	p.Fset = p.Root.Fset
	resolveNames(p.Root.Types)
	prog, _ := ssautil.AllPackages(pkgs, ssa.InstantiateGenerics)
	prog.Build()
	p.SSA = prog
	p.RPC = prog.Package(p.Root.Types)
	if p.RPC == nil {
		return nil, fmt.Errorf("no SSA for %s", rpcPath)
	}
	p.index()
	theProg = p
	return p, nil
}

func (p *Prog) index() {
	p.byName = map[string]*ssa.Function{}
	p.callers = map[*ssa.Function][]ssa.CallInstruction{}
	p.idx = map[ssa.Instruction]int{}
	p.valueUse = map[*ssa.Function]bool{}
	all := ssautil.AllFunctions(p.SSA)
	p.AllFuncs = len(all)
	for fn := range all {
		if fn.Pkg != p.RPC || fn.Blocks == nil || fn.Synthetic != "" {
			continue
		}
		p.Fns = append(p.Fns, fn)
	}
	sort.Slice(p.Fns, func(i, j int) bool {
		if p.Fns[i].Pos() != p.Fns[j].Pos() {
			return p.Fns[i].Pos() < p.Fns[j].Pos()
		}
		return fname(p.Fns[i]) < fname(p.Fns[j])
	})
	p.AllFns = p.Fns
	p.Roles = p.resolveRoles()
	for _, fn := range p.Fns {
		p.byName[fname(fn)] = fn
		for _, b := range fn.Blocks {
			for i, in := range b.Instrs {
				p.idx[in] = i
				if c, ok := in.(ssa.CallInstruction); ok {
					if cal := c.Common().StaticCallee(); cal != nil {
						p.callers[cal] = append(p.callers[cal], c)
					}
				}
				// a function or bound method used as a value
				for _, op := range in.Operands(nil) {
					if op == nil || *op == nil {
						continue
					}
					if c, ok := in.(ssa.CallInstruction); ok && c.Common().Value == *op {
						continue
					}
					switch f := (*op).(type) {
					case *ssa.Function:
						if f.Parent() == nil {
							p.valueUse[f] = true
						}
					case *ssa.MakeClosure:
						if fn2, ok := f.Fn.(*ssa.Function); ok && fn2.Synthetic != "" {
							// bound method wrapper: the method itself escapes as a value
							for _, b2 := range fn2.Blocks {
								for _, in2 := range b2.Instrs {
									if c2, ok := in2.(ssa.CallInstruction); ok {
										if cal := c2.Common().StaticCallee(); cal != nil {
											p.valueUse[cal] = true
										}
									}
								}
							}
						}
					}
				}
			}
		}
	}
	p.AllFns = p.Fns
	theProg = p
	p.findLocalFuncs()
	var rules []*ssa.Function
	for _, fn := range p.AllFns {
		excluded := false
		for f := fn; f != nil; f = f.Parent() {
			if p.isPlainHelper(f) {
				excluded = true
			}
		}
		if !excluded {
			rules = append(rules, fn)
		}
	}
	p.Fns = rules
}

// Fn returns the function with the given short name, or nil.
func (p *Prog) Fn(name string) *ssa.Function { return p.byName[name] }

// Callers returns the static call sites of fn inside package rpc.
func (p *Prog) Callers(fn *ssa.Function) []ssa.CallInstruction { return p.callers[fn] }

// Pos renders a position relative to the repository root.
func (p *Prog) Pos(pos token.Pos) string {
	if !pos.IsValid() {
		return "-"
	}
	ps := p.Fset.Position(pos)
	f := ps.Filename
	if strings.HasPrefix(f, p.Dir+"/") {
		f = f[len(p.Dir)+1:]
	} else if i := strings.Index(f, "/pkg/mod/"); i >= 0 {
		f = f[i+9:]
	}
	return fmt.Sprintf("%s:%d:%d", f, ps.Line, ps.Column)
}

// InstrPos returns the best source position for an instruction.
func (p *Prog) InstrPos(in ssa.Instruction) token.Pos {
	if in == nil {
		return token.NoPos
	}
	if in.Pos().IsValid() {
		return in.Pos()
	}
	// fall back to an operand position or a neighbour in the block
	for _, op := range in.Operands(nil) {
		if *op != nil && (*op).Pos().IsValid() {
			if _, isParam := (*op).(*ssa.Parameter); !isParam {
				return (*op).Pos()
			}
		}
	}
	b := in.Block()
	i := p.idx[in]
	for j := i - 1; j >= 0; j-- {
		if b.Instrs[j].Pos().IsValid() {
			return b.Instrs[j].Pos()
		}
	}
	for j := i + 1; j < len(b.Instrs); j++ {
		if b.Instrs[j].Pos().IsValid() {
			return b.Instrs[j].Pos()
		}
	}
	return in.Parent().Pos()
}

func (p *Prog) At(in ssa.Instruction) string { return p.Pos(p.InstrPos(in)) }

// namedOf returns the name of the (possibly pointer-to) named type of t.
func namedOf(t types.Type) string {
	if t == nil {
		return ""
	}
	if pt, ok := t.Underlying().(*types.Pointer); ok {
		t = pt.Elem()
	}
	if pt, ok := t.(*types.Pointer); ok {
		t = pt.Elem()
	}
	if n, ok := t.(*types.Named); ok {
		if n.Obj().Pkg() != nil && n.Obj().Pkg().Path() != rpcPath {
			return n.Obj().Pkg().Name() + "." + n.Obj().Name()
		}
		return canonTypeName(n.Obj().Name())
	}
	return ""
}

// FieldRef names a struct field: Struct "Conn", Field "pending".
type FieldRef struct{ Struct, Field string }

func (f FieldRef) String() string { return f.Struct + "." + f.Field }

// fieldOfAddr decodes v as &base.field.
func fieldOfAddr(v ssa.Value) (FieldRef, ssa.Value, bool) {
	fa, ok := v.(*ssa.FieldAddr)
	if !ok {
		return FieldRef{}, nil, false
	}
	pt, ok := fa.X.Type().Underlying().(*types.Pointer)
	if !ok {
		return FieldRef{}, nil, false
	}
	st, ok := pt.Elem().Underlying().(*types.Struct)
	if !ok {
		return FieldRef{}, nil, false
	}
	sn := namedOf(pt.Elem())
	return FieldRef{sn, canonFieldName(sn, st.Field(fa.Field).Name())}, fa.X, true
}

// fieldOfLoad decodes v as a load of base.field (UnOp * on a FieldAddr, or an
// ssa.Field on a struct value).
func fieldOfLoad(v ssa.Value) (FieldRef, ssa.Value, bool) {
	switch x := v.(type) {
	case *ssa.UnOp:
		if x.Op == token.MUL {
			return fieldOfAddr(x.X)
		}
	case *ssa.Field:
		if st, ok := x.X.Type().Underlying().(*types.Struct); ok {
			sn := namedOf(x.X.Type())
			return FieldRef{sn, canonFieldName(sn, st.Field(x.Field).Name())}, x.X, true
		}
	}
	return FieldRef{}, nil, false
}

// isLoadOf reports whether v is a load of the given field.
func isLoadOf(v ssa.Value, st, field string) bool {
	fr, _, ok := fieldOfLoad(v)
	return ok && fr.Struct == st && fr.Field == field
}

// calleeName returns a stable short name for the call target:
// static callee "(*sync.Mutex).Lock", interface method "invoke ClientCodec.WriteRequest",
// builtin "builtin delete", or "dynamic".
func calleeName(c ssa.CallInstruction) string {
	cc := c.Common()
	if cc.IsInvoke() {
		return "invoke " + namedOf(cc.Value.Type()) + "." + cc.Method.Name()
	}
	switch v := cc.Value.(type) {
	case *ssa.Builtin:
		return "builtin " + v.Name()
	case *ssa.Function:
		if theProg != nil && theProg.queueWrapper(v) != nil {
			return "scheduler.New" // a constructor helper that only wraps scheduler.New
		}
		return fname(v)
	case *ssa.MakeClosure:
		return fname(v.Fn.(*ssa.Function))
	}
	return "dynamic"
}

// asCall returns in as a call instruction (Call, Go or Defer).
func asCall(in ssa.Instruction) (ssa.CallInstruction, bool) {
	c, ok := in.(ssa.CallInstruction)
	return c, ok
}

// isCallTo reports whether in is a plain call (not go/defer) to name.
func isCallTo(in ssa.Instruction, names ...string) bool {
	c, ok := in.(*ssa.Call)
	if !ok {
		return false
	}
	n := calleeName(c)
	for _, x := range names {
		if n == x {
			return true
		}
	}
	return false
}

// callArgs returns the actual arguments including the receiver (first) for
// static method calls; for invokes the receiver is Common().Value.
func callArgs(c ssa.CallInstruction) []ssa.Value {
	cc := c.Common()
	if cc.IsInvoke() {
		return append([]ssa.Value{cc.Value}, cc.Args...)
	}
	return cc.Args
}

// eachInstr visits every instruction of fn.
func eachInstrLocal(fn *ssa.Function, f func(ssa.Instruction)) {
	for _, b := range fn.Blocks {
		for _, in := range b.Instrs {
			f(in)
		}
	}
}

// theProg is the program under analysis (set by Load); eachInstr needs it to see through helpers.
var theProg *Prog

// eachInstr visits the instructions of fn and, in line, those of every plain helper
// (isPlainHelper) fn calls, transitively: code moved into a new private function by an
// extract-function refactoring is still found where the rules look for it.
func eachInstr(fn *ssa.Function, f func(ssa.Instruction)) {
	seen := map[*ssa.Function]bool{fn: true}
	var saved map[*ssa.Parameter]ssa.Value
	if theProg != nil {
		saved = theProg.bind
		defer func() { theProg.bind = saved }()
	}
	var visit func(g *ssa.Function, depth int, bind map[*ssa.Parameter]ssa.Value)
	visit = func(g *ssa.Function, depth int, bind map[*ssa.Parameter]ssa.Value) {
		for _, b := range g.Blocks {
			for _, in := range b.Instrs {
				if _, isRet := in.(*ssa.Return); isRet && depth > 0 {
					continue // a helper's return is not a return of fn
				}
				if theProg != nil {
					theProg.bind = bind
				}
				f(in)
				if theProg == nil || depth >= 3 {
					continue
				}
				if c, ok := in.(*ssa.Call); ok {
					if h := theProg.calleeOf(c); h != nil && theProg.isPlainHelper(h) && theProg.queueWrapper(h) == nil {
						if len(theProg.callers[h]) > 1 && len(h.Params) > 0 && !seen[h] {
							// a helper with several call sites is read once per call, its
							// parameters standing for what that call passes
							nb := map[*ssa.Parameter]ssa.Value{}
							for k, v := range bind {
								nb[k] = v
							}
							for i, prm := range h.Params {
								if as := c.Common().Args; i < len(as) {
									nb[prm] = as[i]
								}
							}
							seen[h] = true
							visit(h, depth+1, nb)
							delete(seen, h)
						} else if !seen[h] {
							seen[h] = true
							visit(h, depth+1, bind)
						}
						// closures handed to the helper to be called there
						for _, cl := range theProg.closureArgs(c, h) {
							if !seen[cl] {
								seen[cl] = true
								visit(cl, depth+1, bind)
							}
						}
					}
				}
			}
		}
	}
	visit(fn, 0, saved)
}

// withClosures returns fn followed by all closures nested in it.
func withClosures(fn *ssa.Function) []*ssa.Function {
	out := []*ssa.Function{fn}
	for _, a := range fn.AnonFuncs {
		out = append(out, withClosures(a)...)
	}
	// `go func() {…}()` rewritten as `go x.helper(…)` (or defer): the plain helper plays the closure's part
	if theProg != nil {
		have := map[*ssa.Function]bool{}
		for _, f := range out {
			have[f] = true
		}
		for _, f := range append([]*ssa.Function{}, out...) {
			eachInstr(f, func(in ssa.Instruction) {
				switch in.(type) {
				case *ssa.Go, *ssa.Defer:
					if h := in.(ssa.CallInstruction).Common().StaticCallee(); h != nil && !have[h] && theProg.isPlainHelper(h) {
						have[h] = true
						out = append(out, h)
					}
				}
			})
		}
	}
	return out
}

// topParent returns the outermost enclosing named function.
func topParent(fn *ssa.Function) *ssa.Function {
	for fn.Parent() != nil {
		fn = fn.Parent()
	}
	return fn
}

// unwrap strips value-preserving wrappers.
func unwrap(v ssa.Value) ssa.Value {
	for {
		switch x := v.(type) {
		case *ssa.ChangeType:
			v = x.X
		case *ssa.MakeInterface:
			v = x.X
		case *ssa.ChangeInterface:
			v = x.X
		default:
			return v
		}
	}
}

// isHelper: fn is a package-private, named function or method that is only ever called
// statically from package rpc (never used as a value): an extract-function refactoring
// produces exactly such functions, and all their callers are known.
func (p *Prog) isHelper(fn *ssa.Function) bool {
	if fn != nil && p.localFunc[fn] {
		return len(p.callers[fn]) > 0
	}
	if fn == nil || fn.Pkg != p.RPC || fn.Blocks == nil || fn.Parent() != nil || fn.Synthetic != "" {
		return false
	}
	if token.IsExported(fn.Name()) || p.valueUse[fn] || len(p.callers[fn]) == 0 {
		return false
	}
	if fn.Name() == "init" || fn.Name() == "main" {
		return false
	}
	return true
}

// plainCallers returns the plain (not go / defer) call sites of fn.
func (p *Prog) plainCallers(fn *ssa.Function) []*ssa.Call {
	var out []*ssa.Call
	for _, c := range p.callers[fn] {
		if cc, ok := c.(*ssa.Call); ok {
			out = append(out, cc)
		}
	}
	return out
}

// isPlainHelper: a helper that no rule anchors on by name. Such a function is what an
// extract-function refactoring creates; it is analysed as if written in line.
func (p *Prog) isPlainHelper(fn *ssa.Function) bool {
	return p.isHelper(fn) && !anchoredNames[fname(fn)]
}

// homes returns the functions a piece of code belongs to for the purposes of the rules: the
// function itself, or — for a plain helper, which is analysed as in-line code — the homes of
// every function that calls it.
func (p *Prog) homes(fn *ssa.Function) map[*ssa.Function]bool {
	out := map[*ssa.Function]bool{}
	var walk func(f *ssa.Function, d int)
	walk = func(f *ssa.Function, d int) {
		if f == nil || out[f] {
			return
		}
		out[f] = true
		if d < 3 && p.isPlainHelper(f) {
			for _, cs := range p.callers[f] {
				walk(cs.Parent(), d+1)
			}
		}
	}
	walk(fn, 0)
	return out
}

// sameFn: a and b are the same function once plain helpers are read as in-line code.
func (p *Prog) sameFn(a, b *ssa.Function) bool {
	if a == b {
		return true
	}
	if !p.isPlainHelper(a) && !p.isPlainHelper(b) {
		return false
	}
	ha := p.homes(a)
	for f := range p.homes(b) {
		if ha[f] {
			return true
		}
	}
	return false
}

// eachInstrCtx is eachInstr with context: for an instruction inside a plain helper, `at` is the
// call in fn through which it is reached and res maps the helper's parameters to the arguments
// passed on that call chain (so that values can be compared in fn's own terms even when the
// helper has several call sites).
func eachInstrCtx(fn *ssa.Function, f func(in, at ssa.Instruction, res func(ssa.Value) ssa.Value)) {
	ident := func(v ssa.Value) ssa.Value { return v }
	var visit func(g *ssa.Function, depth int, at ssa.Instruction, res func(ssa.Value) ssa.Value, stack map[*ssa.Function]bool)
	visit = func(g *ssa.Function, depth int, at ssa.Instruction, res func(ssa.Value) ssa.Value, stack map[*ssa.Function]bool) {
		for _, b := range g.Blocks {
			for _, in := range b.Instrs {
				if _, isRet := in.(*ssa.Return); isRet && depth > 0 {
					continue
				}
				a := at
				if depth == 0 {
					a = in
				}
				f(in, a, res)
				if theProg == nil || depth >= 3 {
					continue
				}
				c, ok := in.(ssa.CallInstruction) // plain, go and defer calls alike
				if !ok {
					continue
				}
				h := theProg.calleeOf(c)
				if h == nil || stack[h] || !theProg.isPlainHelper(h) {
					continue
				}
				args := c.Common().Args
				outer := res
				inner := func(v ssa.Value) ssa.Value {
					if prm, ok := v.(*ssa.Parameter); ok && prm.Parent() == h {
						for i, q := range h.Params {
							if q == prm && i < len(args) {
								return outer(args[i])
							}
						}
					}
					return outer(v)
				}
				stack[h] = true
				visit(h, depth+1, a, inner, stack)
				for _, cl := range theProg.closureArgs(c, h) {
					if !stack[cl] {
						stack[cl] = true
						visit(cl, depth+1, a, outer, stack)
						delete(stack, cl)
					}
				}
				delete(stack, h)
			}
		}
	}
	visit(fn, 0, nil, ident, map[*ssa.Function]bool{fn: true})
}

// findLocalFuncs recognises local functions: a closure whose only uses are being stored into
// one local variable and being called through that variable (or directly). Its calls are
// entered into the call-site table, so that it is treated like any other plain helper.
func (p *Prog) findLocalFuncs() {
	p.localFunc = map[*ssa.Function]bool{}
	for _, fn := range p.AllFns {
		eachInstrLocal(fn, func(in ssa.Instruction) {
			mc, ok := in.(*ssa.MakeClosure)
			if !ok || mc.Referrers() == nil {
				return
			}
			cl, ok := mc.Fn.(*ssa.Function)
			if !ok || cl.Synthetic != "" {
				return
			}
			var calls []ssa.CallInstruction
			okAll := true
			nStore := 0
			for _, r := range *mc.Referrers() {
				switch u := r.(type) {
				case *ssa.Call:
					if u.Common().Value == ssa.Value(mc) {
						calls = append(calls, u)
					} else {
						okAll = false
					}
				case *ssa.Store:
					cell := p.localCell(u.Addr)
					if cell == nil || u.Val != ssa.Value(mc) || len(p.storesToCell(cell)) != 1 {
						okAll = false
						continue
					}
					nStore++
					// every load of the cell (in the whole family) is the operand of a call
					for _, f := range withClosuresLocal(topParent(fn)) {
						eachInstrLocal(f, func(x ssa.Instruction) {
							ld, isLd := x.(*ssa.UnOp)
							if !isLd || ld.Op != token.MUL || p.localCell(ld.X) != cell || ld.Referrers() == nil {
								return
							}
							for _, lr := range *ld.Referrers() {
								if c, isC := lr.(*ssa.Call); isC && c.Common().Value == ssa.Value(ld) {
									calls = append(calls, c)
								} else if _, isDbg := lr.(*ssa.DebugRef); !isDbg {
									okAll = false
								}
							}
						})
					}
				case *ssa.DebugRef:
				default:
					okAll = false
				}
			}
			if !okAll || len(calls) == 0 {
				return
			}
			p.localFunc[cl] = true
			for _, c := range calls {
				p.callers[cl] = append(p.callers[cl], c)
			}
		})
	}
}

func withClosuresLocal(fn *ssa.Function) []*ssa.Function {
	out := []*ssa.Function{fn}
	for _, a := range fn.AnonFuncs {
		out = append(out, withClosuresLocal(a)...)
	}
	return out
}

// calleeOf resolves the function a call instruction enters: the static callee, or the local
// function bound to the variable the call goes through.
func (p *Prog) calleeOf(c ssa.CallInstruction) *ssa.Function {
	if g := c.Common().StaticCallee(); g != nil {
		return g
	}
	if c.Common().IsInvoke() {
		return nil
	}
	if mc, ok := p.canon(c.Common().Value).(*ssa.MakeClosure); ok {
		if g, ok := mc.Fn.(*ssa.Function); ok && p.localFunc[g] {
			return g
		}
	}
	return nil
}

// closureArgs: the closures a call passes to a plain helper in parameters the helper only ever
// calls (`c.timed(t, func() error {…})` with `err := do()` inside timed): for the analysis the
// closure body is in-line code of the calling function, executed where the helper calls it.
func (p *Prog) closureArgs(c ssa.CallInstruction, h *ssa.Function) map[*ssa.Parameter]*ssa.Function {
	out := map[*ssa.Parameter]*ssa.Function{}
	args := c.Common().Args
	for i, prm := range h.Params {
		if i >= len(args) {
			break
		}
		if _, isSig := prm.Type().Underlying().(*types.Signature); !isSig {
			continue
		}
		mc, ok := p.canon(args[i]).(*ssa.MakeClosure)
		if !ok {
			continue
		}
		cl, ok := mc.Fn.(*ssa.Function)
		if !ok || !p.calledOnly(prm) {
			continue
		}
		out[prm] = cl
	}
	return out
}

// calledOnly: every use of the func-typed parameter is a plain call of it.
func (p *Prog) calledOnly(prm *ssa.Parameter) bool {
	if prm.Referrers() == nil {
		return false
	}
	n := 0
	for _, r := range *prm.Referrers() {
		switch u := r.(type) {
		case *ssa.Call:
			if u.Common().Value != ssa.Value(prm) {
				return false
			}
			n++
		case *ssa.DebugRef:
		default:
			return false
		}
	}
	return n > 0
}

// homeOf: the function a plain helper's code belongs to, when there is exactly one (the helper is
// read as in-line code of its callers); fn itself otherwise.
func (p *Prog) homeOf(fn *ssa.Function) *ssa.Function {
	top := fn
	for top.Parent() != nil && !p.isPlainHelper(top) {
		top = top.Parent()
	}
	if !p.isPlainHelper(top) {
		return fn
	}
	var homes []*ssa.Function
	for h := range p.homes(top) {
		if !p.isPlainHelper(h) {
			homes = append(homes, h)
		}
	}
	if len(homes) == 1 {
		return homes[0]
	}
	return fn
}

// queueWrapper: fn is a plain helper that does nothing but hand back a fresh scheduler.New(…)
// (`func newQueue() scheduler.Scheduler { return scheduler.New(1, &scheduler.Options{…}) }`); the inner
// call is returned. Calls of such a helper are read as scheduler.New calls (calleeName, newArgs) and the
// helper's body is not expanded into its callers.
func (p *Prog) queueWrapper(fn *ssa.Function) *ssa.Call {
	if fn == nil || fn.Blocks == nil || fn.Pkg != p.RPC {
		return nil
	}
	if p.qwrap == nil {
		p.qwrap = map[*ssa.Function]*ssa.Call{}
	}
	if c, ok := p.qwrap[fn]; ok {
		return c
	}
	p.qwrap[fn] = nil
	if !p.isPlainHelper(fn) || len(fn.Blocks) != 1 {
		return nil
	}
	var inner *ssa.Call
	nCalls := 0
	for _, in := range fn.Blocks[0].Instrs {
		switch x := in.(type) {
		case *ssa.Call:
			nCalls++
			if cal := x.Common().StaticCallee(); cal != nil && cal.String() == "github.com/hslam/scheduler.New" {
				inner = x
			}
		case *ssa.Return:
			if inner == nil || len(x.Results) != 1 || x.Results[0] != ssa.Value(inner) {
				return nil
			}
		case *ssa.Go, *ssa.Defer:
			return nil
		}
	}
	if inner == nil || nCalls != 1 {
		return nil
	}
	p.qwrap[fn] = inner
	return inner
}

// newArgs returns the arguments (workers, options) of a scheduler.New call, looking into a constructor helper.
func (p *Prog) newArgs(call *ssa.Call) []ssa.Value {
	if cal := call.Common().StaticCallee(); cal != nil {
		if inner := p.queueWrapper(cal); inner != nil {
			out := make([]ssa.Value, len(inner.Call.Args))
			for i, a := range inner.Call.Args {
				out[i] = a
				if prm, ok := a.(*ssa.Parameter); ok {
					for j, q := range cal.Params {
						if q == prm && j < len(call.Call.Args) {
							out[i] = call.Call.Args[j]
						}
					}
				}
			}
			return out
		}
	}
	return call.Call.Args
}
