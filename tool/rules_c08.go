package main

import (
	"fmt"
	"go/token"
	"strings"

	"golang.org/x/tools/go/ssa"
)

func init() {
	register("C08", &propDef{
		Meta: PropMeta{
			Explanation: "The panic surface of peer-controlled data, decided statically in four parts: (1) R-PANIC-BYTES — every function of package rpc that hands the raw frame bytes (Context.data) to a decoder has a deferred recover barrier that dominates the hand-off and turns the panic into the function's error result, and the upgrade-byte decoder indexes only under a length test (thorough tier: cross-checked against the Go compiler's own bounds-check-elimination facts — every unproven bounds check on reader-side peer bytes lies in a function only entered below a barrier); (2) R-PANIC-FLAGS — an abstract interpretation of the server request path (ServeRequest and everything it reaches in package rpc, including scheduled and go closures) over ALL 32 values of the peer-controlled upgrade flags × every outcome of the unknown tests, tracking nil-ness of pointers and zero-ness of funcs.Value: no trace reaches a method call on a nil *funcs.Func, Interface() or a handler argument of a zero Value, or a nil stream; (3) R-TEARDOWN-QUIESCE — in both per-connection teardown sequences the decode queue is closed (drained) before wg.Wait() and before the stream table is ranged over; (4) R-DROP-AND-CONTINUE — serve loops ignore ServeRequest's error (the connection survives a bad frame) and the client reader returns on a header error before touching any call.",
			NotDecided:  "Panics inside user handlers and user body codecs; the panic on an oversized varint inside socket.Messages.ReadMessage (dependency); that later well-formed traffic is actually served (liveness).",
			Assumptions: []string{"a recovered panic leaves no lock held in the decoders (they take none)", "funcs.Funcs.GetFunc returns nil or a valid *Func; Func.GetValueIn returns ZeroValue or a valid Value; reflect's documented panic preconditions"},
			Trusted:     commonTrusted,
		},
		Run:      runC08,
		Thorough: thoroughC08,
	})
}

// hasRecoverBarrier: fn defers a closure that calls recover() directly, the
// defer dominates `at`, and the closure stores into a named result of fn.
func hasRecoverBarrier(p *Prog, fn *ssa.Function, at ssa.Instruction) (bool, string) {
	found := false
	why := "no deferred recover()"
	eachInstr(fn, func(in ssa.Instruction) {
		d, ok := in.(*ssa.Defer)
		if !ok {
			return
		}
		var cl *ssa.Function
		switch v := d.Call.Value.(type) {
		case *ssa.MakeClosure:
			cl = v.Fn.(*ssa.Function)
		case *ssa.Function:
			cl = v
		}
		if cl == nil {
			return
		}
		rec := false
		var recCall *ssa.Call
		// recover() stops a panic only when the deferred function itself calls it: a recover one
		// call deeper (in a helper the deferred function calls) returns nil
		eachInstrLocal(cl, func(x ssa.Instruction) {
			if c, ok := x.(*ssa.Call); ok && calleeName(c) == "builtin recover" {
				rec = true
				recCall = c
			}
		})
		if !rec {
			nested := false
			eachInstr(cl, func(x ssa.Instruction) {
				if c, ok := x.(*ssa.Call); ok && calleeName(c) == "builtin recover" {
					nested = true
				}
			})
			if nested {
				why = "recover() is not called by the deferred function itself but by a function it calls: it returns nil there and the panic continues"
			}
		}
		if !rec {
			return
		}
		nilEdges, _ := p.guardEdges(cl, matchValueNil(p, recCall))
		if !p.dominatesInstr(in, at) {
			why = "the deferred recover() does not dominate the decoder call"
			return
		}
		// stores to a named result (captured cell of fn with an error type)
		setsResult := false
		eachInstr(cl, func(x ssa.Instruction) {
			if s, ok := x.(*ssa.Store); ok {
				addr := s.Addr
				// `defer recoverInto(&err, …)`: the named result is reached through a pointer parameter
				if prm, isP := addr.(*ssa.Parameter); isP && prm.Parent() == cl {
					for i, q := range cl.Params {
						if q == prm && i < len(d.Call.Args) {
							addr = d.Call.Args[i]
						}
					}
				}
				if cell := p.localCell(addr); cell != nil && cell.Parent() == fn && isNamedResult(fn, cell) {
					// a non-nil error, stored on the edge on which a panic was actually recovered
					if !nilConst(s.Val) && p.reachableCutting(cl, s, nilEdges) {
						setsResult = true
					}
				}
			}
		})
		if !setsResult {
			why = "the recover closure does not set the function's error result to a non-nil error when a panic was recovered: the caller would see success"
			return
		}
		found = true
	})
	return found, why
}

func isNamedResult(fn *ssa.Function, cell *ssa.Alloc) bool {
	res := fn.Signature.Results()
	for i := 0; i < res.Len(); i++ {
		if res.At(i).Name() != "" && res.At(i).Name() == cell.Comment {
			return true
		}
	}
	return false
}

func runC08(c *Check, a *Analysis) {
	p := c.P
	sc := siteCounter{}
	// a stream context that is recycled while the stream table still points at it is dereferenced at teardown
	ruleStreamCtxStable(c, a, "R-STREAM-CTX-STABLE")
	ruleFixedPoolSizes(c, a, "R-FIXED-POOL-SIZE")
	ruleQuiesceBeforeClose(c, a, "R-QUIESCE-BEFORE-CLOSE")

	// ---- R-PANIC-BYTES
	c.Rule("R-PANIC-BYTES", "every function that passes the raw frame bytes (Context.data) to a decoder has a dominating deferred recover() barrier that sets its error result", 2)
	n := 0
	for _, fn := range p.Fns {
		eachInstr(fn, func(in ssa.Instruction) {
			call, ok := in.(ssa.CallInstruction)
			if !ok {
				return
			}
			if strings.HasPrefix(calleeName(call), "builtin ") {
				return
			}
			uses := false
			for _, arg := range callArgs(call) {
				for _, o := range p.origins(arg) {
					if isLoadOf(p.canon(o), "Context", "data") {
						uses = true
					}
				}
			}
			if !uses {
				return
			}
			n++
			ok, why := hasRecoverBarrier(p, fn, in)
			det := ""
			if !ok {
				det = "peer-supplied frame bytes reach " + calleeName(call) + " (which indexes them without bounds checks) and " + why + ": a truncated or corrupted frame panics the process"
			}
			c.Ob("R-PANIC-BYTES", sc.key(fn, "decode(Context.data) under recover"), p.InstrPos(in), ok, det)
		})
	}
	if n == 0 {
		c.Undecided("R-PANIC-BYTES", "no decoder call on Context.data found")
	}
	// who reads Context.data at all
	c.Rule("R-DATA-READERS", "Context.data is read only inside functions with a recover barrier", 2)
	for _, ac := range p.fieldAccesses("Context", "data") {
		if ac.Kind != "read" {
			continue
		}
		ok, why := hasRecoverBarrier(p, ac.Fn, ac.Instr)
		c.Ob("R-DATA-READERS", sc.key(ac.Fn, "read Context.data"), p.InstrPos(ac.Instr), ok, ifs(!ok, "Context.data read outside a recover barrier: "+why))
	}
	// upgrade byte decoder
	c.Rule("R-UPGRADE-LEN", "every index into the peer-supplied upgrade bytes in (*upgrade).Unmarshal is dominated by a length test that excludes it", 1)
	if uu := p.Fn("(*upgrade).Unmarshal"); uu == nil {
		c.Undecided("R-UPGRADE-LEN", "(*upgrade).Unmarshal not found")
	} else {
		eachInstr(uu, func(in ssa.Instruction) {
			ia, ok := in.(*ssa.IndexAddr)
			if !ok {
				return
			}
			k, isK := constInt(ia.Index)
			g := false
			if isK {
				g, _ = p.guardedBy(in, func(cond ssa.Value) (bool, bool) {
					b, ok := cond.(*ssa.BinOp)
					if !ok {
						return false, false
					}
					lc, ok := stripConv(b.X).(*ssa.Call)
					if !ok || calleeName(lc) != "builtin len" || p.canon(lc.Call.Args[0]) != p.canon(ia.X) {
						return false, false
					}
					m, ok := constInt(stripConv(b.Y))
					if !ok {
						// len(data) < offset+1 with offset constant-folded
						if bb, isB := stripConv(b.Y).(*ssa.BinOp); isB {
							x, okx := constInt(stripConv(bb.X))
							y, oky := constInt(stripConv(bb.Y))
							if okx && oky && bb.Op == token.ADD {
								m, ok = x+y, true
							}
						}
					}
					if !ok {
						return false, false
					}
					switch b.Op {
					case token.LSS: // len < m : safe on false edge if m > k
						return m > k, false
					case token.LEQ:
						return m >= k, false
					case token.GEQ:
						return m > k, true
					case token.GTR:
						return m >= k, true
					}
					return false, false
				})
			}
			c.Ob("R-UPGRADE-LEN", sc.key(uu, "data[k] under len test"), p.InstrPos(in), g, ifs(!g, "index into peer-supplied upgrade bytes without a dominating length test"))
		})
	}

	// ---- R-TEARDOWN-QUIESCE
	c.Rule("R-TEARDOWN-QUIESCE", "in every per-connection teardown sequence the decode queue (the queue that runs ServeRequest tasks) is closed before wg.Wait() and before the stream table is ranged over", 4)
	nt := 0
	for _, fn := range p.Fns {
		if !strings.HasPrefix(fname(topParent(fn)), "(*Server).") {
			continue
		}
		waits := callsIn(fn, "(*sync.WaitGroup).Wait")
		if len(waits) == 0 {
			continue
		}
		// the decode queue: receiver of the Schedule call whose closure calls ServeRequest
		var q ssa.Value
		for _, ev := range eventsOf(fn, "(*Server).ServeRequest") {
			if cc, ok := ev.(*ssa.Call); ok && cc.Common().IsInvoke() {
				q = p.canon(cc.Common().Value)
			}
		}
		if q == nil {
			c.Undecided("R-TEARDOWN-QUIESCE", fname(fn)+" waits for handlers but its decode queue was not identified")
			continue
		}
		nt++
		isCloseQ := func(in ssa.Instruction) bool {
			cc, ok := in.(*ssa.Call)
			if !ok || !cc.Common().IsInvoke() || cc.Common().Method.Name() != "Close" {
				return false
			}
			return sameQueue(p, cc.Common().Value, q)
		}
		// a nil queue never had tasks: cut the "queue == nil" edges
		cut := map[edge]bool{}
		if fr, _, ok := fieldOfLoad(q); ok {
			cut, _ = p.guardEdges(fn, matchFieldNil(p, fr.Struct, fr.Field))
		}
		for _, w := range waits {
			_, tr, found := p.reachCut(fn, nil, func(x ssa.Instruction) bool { return x == w.(ssa.Instruction) }, isCloseQ, cut)
			det := ""
			if found {
				det = "wg.Wait() is reachable before the decode queue is closed (path " + p.lineTrail(tr) + "): queued decode tasks still call wg.Add — 'WaitGroup is reused before previous Wait has returned' is a fatal, unrecoverable panic"
			}
			c.Ob("R-TEARDOWN-QUIESCE", sc.key(fn, "Close(decode queue) before wg.Wait"), p.InstrPos(w), !found, det)
		}
		// stream table
		eachInstr(fn, func(in ssa.Instruction) {
			r, ok := in.(*ssa.Range)
			if !ok {
				return
			}
			if !isStreamTable(p, r.X) {
				return
			}
			_, tr, found := p.reachCut(fn, nil, func(x ssa.Instruction) bool { return x == in }, isCloseQ, cut)
			det := ""
			if found {
				det = "the stream table is ranged over while decode tasks may still insert into it (path " + p.lineTrail(tr) + "): concurrent map read and write is a fatal error"
			}
			c.Ob("R-TEARDOWN-QUIESCE", sc.key(fn, "Close(decode queue) before range streams"), p.InstrPos(in), !found, det)
		})
	}
	if nt < 2 {
		c.Undecided("R-TEARDOWN-QUIESCE", fmt.Sprintf("expected two teardown sequences (blocking and poll), found %d", nt))
	}
	// the wait group counts a handler from the moment it is queued
	c.Rule("R-WG-COUNT-AT-QUEUE", "every handler task handed to a queue with the connection's wait group is counted (wg.Add) by the queueing function before the hand-off; a function that does the matching wg.Done never does the Add itself", 3)
	if srq := p.Fn("(*Server).ServeRequest"); srq != nil {
		adds := callsIn(srq, "(*sync.WaitGroup).Add")
		for _, ev := range eventsOf(srq, "(*Server).handleRequest") {
			cc, isCall := ev.(*ssa.Call)
			if !isCall || calleeName(cc) == "(*Server).handleRequest" {
				continue // inline call passes a nil wait group
			}
			dom := false
			for _, ad := range adds {
				if p.dominatesInstr(ad.(ssa.Instruction), ev) {
					dom = true
				}
			}
			c.Ob("R-WG-COUNT-AT-QUEUE", sc.key(srq, "wg.Add before the task is queued"), p.InstrPos(ev), dom, ifs(!dom, "a handler task is queued without having been added to the connection's wait group: teardown's wg.Wait() can return (or be re-entered: 'WaitGroup is reused before previous Wait has returned') while accepted requests are still queued"))
		}
	}
	for _, fn := range p.Fns {
		hasDone := false
		eachInstr(fn, func(in ssa.Instruction) {
			if d, ok := in.(*ssa.Defer); ok && calleeNameCommon(d.Common()) == "(*sync.WaitGroup).Done" {
				hasDone = true
			}
			if isCallTo(in, "(*sync.WaitGroup).Done") {
				hasDone = true
			}
		})
		if !hasDone || !strings.HasPrefix(fname(topParent(fn)), "(*Server).") {
			continue
		}
		nAdd := len(callsIn(fn, "(*sync.WaitGroup).Add"))
		c.Ob("R-WG-COUNT-AT-QUEUE", sc.key(fn, "Done without Add in the worker"), fn.Pos(), nAdd == 0, ifs(nAdd != 0, "the worker adds itself to the wait group when it starts running: a task that is still queued is not counted"))
	}

	ruleWGDiscipline(c, a, "R-WG-COUNT-AT-QUEUE")

	// ---- R-DROP-AND-CONTINUE
	c.Rule("R-DROP-AND-CONTINUE", "serve loops do not let a ServeRequest error end the connection; the client reader returns right after a header error without touching a call", 3)
	sr := p.Fn("(*Server).ServeRequest")
	if sr != nil {
		for _, fn := range p.Fns {
			for _, call := range callsIn(fn, "(*Server).ServeRequest") {
				v := call.Value()
				used := v != nil && v.Referrers() != nil && len(*v.Referrers()) > 0
				// uses other than a plain return of the value
				if fn.Parent() != nil || strings.HasPrefix(fname(fn), "(*Server).") {
					c.Ob("R-DROP-AND-CONTINUE", sc.key(fn, "ServeRequest error ignored"), p.InstrPos(call), !used, ifs(used, "the serve loop reacts to ServeRequest's error: one malformed frame ends the connection or the loop"))
				}
			}
		}
	}
	comp := computeCompletion(p)
	for _, l := range pendingOps(p, "lookup") {
		fn := l.Fn
		if len(pendingOps2(p, topParent(fn), "update")) > 0 {
			continue
		}
		for _, h := range invokesIn(fn, "ClientCodec", "ReadResponseHeader") {
			// the error edge reaches a return without any completion site and without the lookup
			for _, b := range fn.Blocks {
				iff, ok := b.Instrs[len(b.Instrs)-1].(*ssa.If)
				if !ok {
					continue
				}
				k, eq, ok := p.condFact(iff.Cond)
				if !ok || k.c != "nil" || p.canon(k.v) != ssa.Value(h.Value()) {
					continue
				}
				fail := b.Succs[0]
				if eq {
					fail = b.Succs[1]
				}
				sites := comp.sitesIn(fn)
				w, _, found := p.reachFromBlock(fn, fail, func(x ssa.Instruction) bool {
					if x == l.Instr {
						return true
					}
					for _, s := range sites {
						if s.Instr == x {
							return true
						}
					}
					return false
				}, nil, nil)
				det := ""
				if found {
					det = "after a response header that failed to decode the reader still looks up / completes a call at " + p.At(w)
				}
				c.Ob("R-DROP-AND-CONTINUE", sc.key(fn, "header error: drop"), p.InstrPos(iff), !found, det)
			}
		}
	}

	runFlagSpace(c, a)
}

func sameQueue(p *Prog, a, b ssa.Value) bool {
	a, b = p.canon(a), p.canon(b)
	if a == b {
		return true
	}
	fa, ba, oka := fieldOfLoad(a)
	fb, bb, okb := fieldOfLoad(b)
	if oka && okb && fa == fb && p.canon(ba) == p.canon(bb) {
		return true
	}
	// an element of a slice literal built on the spot (`for _, q := range []T{x.a, x.b}`)
	for _, e := range p.elemCandidates(a) {
		if e != a && sameQueue(p, e, b) {
			return true
		}
	}
	return false
}

// elemCandidates: when v is an element read from a slice/array literal of the same function, the values
// the literal was built from.
func (p *Prog) elemCandidates(v ssa.Value) []ssa.Value {
	u, ok := v.(*ssa.UnOp)
	if !ok || u.Op != token.MUL {
		return nil
	}
	ia, ok := u.X.(*ssa.IndexAddr)
	if !ok {
		return nil
	}
	x := ia.X
	if sl, ok := x.(*ssa.Slice); ok {
		x = sl.X
	}
	al, ok := x.(*ssa.Alloc)
	if !ok || al.Referrers() == nil {
		return nil
	}
	var out []ssa.Value
	for _, r := range *al.Referrers() {
		ea, ok := r.(*ssa.IndexAddr)
		if !ok || ea.Referrers() == nil {
			continue
		}
		for _, rr := range *ea.Referrers() {
			if st, ok := rr.(*ssa.Store); ok && st.Addr == ssa.Value(ea) {
				out = append(out, st.Val)
			}
		}
	}
	return out
}

// isStreamTable: v is the per-connection server stream table (map[uint64]*Context).
func isStreamTable(p *Prog, v ssa.Value) bool {
	return strings.HasSuffix(v.Type().String(), "map[uint64]*"+rpcPath+".Context")
}

func thoroughC08(c *Check, a *Analysis, verifDir string) map[string]interface{} {
	return bceCrossCheck(c, a)
}
