package main

import (
	"go/constant"
	"go/token"
	"strings"

	"golang.org/x/tools/go/ssa"
)

func init() {
	register("C06", &propDef{
		Meta: PropMeta{
			Explanation: "Error-path shape decided statically: (1) on the server every failure edge (request body error, handler error, reply marshal error) stores the error's text into Context.Error before the one response is sent, and still sends it; (2) on the client the Call.Error of a failed call originates only from the response's Context.Error (copied, with no concatenation) or is the ErrShutdown value; (3) nothing stored into Call.Error / Call.Value aliases the pooled read buffer; (4) decoding into the caller's reply object is reachable only when the response's error field is empty; (5) a request whose write failed is removed from the pending table (and the stream table for a stream open) under an identity test, and only it.",
			NotDecided:  "Isolation between concurrently failing and succeeding calls at value level; very long texts (size handling is C07's bound).",
			Assumptions: []string{"error.Error() of handler errors returns the text the user expects"},
			Trusted:     commonTrusted,
		},
		Run: runC06,
	})
}

// matchLenZero recognises conditions equivalent to len(load st.field) == 0.
func matchFieldLenZero(p *Prog, st, field string) condMatch {
	return func(cond ssa.Value) (bool, bool) {
		k, eq, ok := p.condFact(cond)
		if !ok || k.c != "len0" {
			return false, false
		}
		if !isLoadOf(p.canon(k.v), st, field) {
			return false, false
		}
		return true, eq
	}
}

// errTextOrigin follows the text of an error value back to its source.
// Returns the leaf, and whether a concatenation / formatting was crossed.
func errTextOrigin(p *Prog, v ssa.Value) (leaf ssa.Value, altered bool) {
	for i := 0; i < 10; i++ {
		v = p.canon(unwrap(v))
		switch x := v.(type) {
		case *ssa.Call:
			n := calleeName(x)
			switch n {
			case "errors.New":
				v = x.Call.Args[0]
				continue
			case "builtin append":
				v = x.Call.Args[1]
				continue
			}
			if strings.HasPrefix(n, "fmt.") {
				return v, true
			}
			return v, false
		case *ssa.Convert:
			v = x.X
			continue
		case *ssa.Slice:
			v = x.X
			continue
		case *ssa.BinOp:
			if x.Op == token.ADD {
				return v, true
			}
			return v, false
		}
		return v, false
	}
	return v, false
}

func runC06(c *Check, a *Analysis) {
	p := c.P
	sc := siteCounter{}
	ruleHeaderFresh(c, a, "R-HEADER-FRESH")
	ruleSeqMonotone(c, a, "R-SEQ-MONOTONE")
	ruleMarkDeadExact(c, a, "R-MARK-DEAD-EXACT")
	ruleCodeThresholds(c, a, "R-CODE-THRESHOLD")
	ruleReaderExitCause(c, a, "R-READER-EXIT-CAUSE")

	// ---- R-MUST-RESPOND
	c.Rule("R-MUST-RESPOND", "every server failure edge stores err.Error() into Context.Error before the response is sent and the response is still sent", 3)
	isCtxErrStore := func(in ssa.Instruction) bool {
		s, ok := in.(*ssa.Store)
		if !ok {
			return false
		}
		fr, _, ok := fieldOfAddr(s.Addr)
		if !ok || fr.Struct != "Context" || fr.Field != "Error" {
			return false
		}
		// value is the text of an error
		if cc, ok := p.canon(s.Val).(*ssa.Call); ok && cc.Common().IsInvoke() && cc.Common().Method.Name() == "Error" {
			return true
		}
		return false
	}
	type failSrc struct {
		fn     string
		callee []string // calls whose error result opens a failure edge
		sendBy []string // how the response is sent
	}
	srcs := []failSrc{
		{"(*Server).handleRequest", []string{"(*Server).readRequestBody"}, []string{"(*Server).sendResponse"}},
		{"(*Server).callService", []string{"(*funcs.Func).ValueCall"}, []string{"(*Server).sendResponse"}},
		{"(*serverCodec).WriteResponse", []string{"invoke Codec.Marshal"}, []string{"invoke socket.Messages.WriteMessage"}},
	}
	for _, fs := range srcs {
		fn := p.Fn(fs.fn)
		if fn == nil {
			c.Undecided("R-MUST-RESPOND", fs.fn+" not found")
			continue
		}
		var sends []ssa.Instruction
		for _, n := range fs.sendBy {
			if strings.HasPrefix(n, "invoke ") {
				parts := strings.SplitN(strings.TrimPrefix(n, "invoke "), ".", 3)
				iface, m := strings.Join(parts[:len(parts)-1], "."), parts[len(parts)-1]
				for _, w := range invokesIn(fn, iface, m) {
					sends = append(sends, w)
				}
			} else {
				sends = append(sends, eventsOf(fn, n)...)
			}
		}
		nEdges := 0
		var famBlocks []*ssa.BasicBlock
		famSeen := map[*ssa.BasicBlock]bool{}
		eachInstr(fn, func(in ssa.Instruction) {
			if b := in.Block(); !famSeen[b] {
				famSeen[b] = true
				famBlocks = append(famBlocks, b)
			}
		})
		for _, b := range famBlocks {
			iff, ok := b.Instrs[len(b.Instrs)-1].(*ssa.If)
			if !ok {
				continue
			}
			k, eq, ok := p.condFact(iff.Cond)
			if !ok || k.c != "nil" {
				continue
			}
			// is k.v an error produced by one of the failure sources?
			fromSrc := false
			for _, o := range p.origins(k.v) {
				o = p.canon(o)
				if e, isE := o.(*ssa.Extract); isE {
					o = e.Tuple
				}
				if cc, isC := o.(*ssa.Call); isC {
					for _, n := range fs.callee {
						if calleeName(cc) == n {
							if cc.Common().IsInvoke() && n == "invoke Codec.Marshal" && !isLoadOf(p.canon(cc.Common().Value), "serverCodec", "bodyCodec") {
								continue // header encoding failure: nothing can be sent
							}
							fromSrc = true
						}
					}
				}
			}
			if !fromSrc {
				continue
			}
			nEdges++
			failSucc := b.Succs[0]
			if eq {
				failSucc = b.Succs[1]
			}
			site := sc.key(fn, "failure edge")
			// the text is stored before any send
			_, tr, found := p.reachFromBlock(fn, failSucc, func(x ssa.Instruction) bool { return isIn(x, sends) }, isCtxErrStore, nil)
			det := ""
			if found {
				det = "on a failure edge the response is sent without the error text stored in Context.Error (path " + p.lineTrail(tr) + "): the client sees success"
			}
			c.Ob("R-MUST-RESPOND", site+"/text-before-send", p.InstrPos(iff), !found, det)
			// and a response is sent
			_, tr, miss := p.reachFromBlock(fn, failSucc, isReturnLike, func(x ssa.Instruction) bool { return isIn(x, sends) }, nil)
			if fs.fn == "(*serverCodec).WriteResponse" {
				// a second, independent failure (header encoding) may legitimately
				// prevent the write: require only that the write is still reachable
				_, _, can := p.reachFromBlock(fn, failSucc, func(x ssa.Instruction) bool { return isIn(x, sends) }, nil, nil)
				miss = !can
			}
			det = ""
			if miss {
				det = "a failure path returns without sending the response (" + p.lineTrail(tr) + "): the caller hangs"
			}
			c.Ob("R-MUST-RESPOND", site+"/still-responds", p.InstrPos(iff), !miss, det)
		}
		if nEdges == 0 {
			c.Undecided("R-MUST-RESPOND", "no failure edge found in "+fs.fn)
		}
	}

	// ---- R-VERBATIM
	c.Rule("R-VERBATIM", "in the response reader, the Call.Error of a failed call is errors.New of (a copy of) the response's Context.Error, with no concatenation or formatting, or the ErrShutdown value", 2)
	n := 0
	for _, l := range pendingOps(p, "lookup") {
		fn := l.Fn
		if len(pendingOps2(p, topParent(fn), "update")) > 0 {
			continue
		}
		for _, s := range p.fieldStoresIn(fn, "Call", "Error") {
			// only the error arm: guarded by len(ctx.Error) > 0
			g, _ := p.guardedBy(s, negate(matchFieldLenZero(p, "Context", "Error")))
			if !g {
				continue
			}
			n++
			ok := true
			det := ""
			for _, o := range p.origins(s.Val) {
				if isGlobalLoad(o, "ErrShutdown") {
					// the sentinel replaces the text only when the text is the shutdown message
					g, _ := p.guardedBy(s, matchCtxErrorIsShutdownText(p))
					if !g {
						ok = false
						det = "a failed call is given ErrShutdown although the server's text was not tested equal to the shutdown message: the handler's own error text is lost"
					}
					continue
				}
				if g, _ := p.guardedBy(s, matchCtxErrorIsShutdownText(p)); g {
					ok = false
					det = "the server's text replaces... the shutdown message is delivered as an ordinary error while ordinary texts are mapped to ErrShutdown"
				}
				leaf, altered := errTextOrigin(p, o)
				if altered || !isLoadOf(leaf, "Context", "Error") {
					ok = false
					det = "Call.Error of a failed call is not the server's text verbatim: " + describe(o) + " (leaf " + describe(leaf) + ")"
				}
			}
			c.Ob("R-VERBATIM", sc.key(fn, "Call.Error from Context.Error"), p.InstrPos(s), ok, det)
		}
	}
	if n == 0 {
		c.Undecided("R-VERBATIM", "no Call.Error store in the reader's error arm")
	}

	// ---- R-ALIAS
	ruleAliasSinks(c, a, "R-ALIAS", FieldRef{"Call", "Error"}, FieldRef{"Call", "Value"})

	// ---- R-REPLY-UNTOUCHED
	c.Rule("R-REPLY-UNTOUCHED", "decoding into the caller's reply (ReadResponseBody with a non-nil object) is reachable only when the response's error field is empty", 1)
	nr := 0
	var readers []*ssa.Function
	for _, l := range pendingOps(p, "lookup") {
		if len(pendingOps2(p, topParent(l.Fn), "update")) == 0 {
			readers = append(readers, l.Fn)
		}
	}
	for _, fn := range p.Fns {
		for _, call := range invokesIn(fn, "ClientCodec", "ReadResponseBody") {
			if nilConst(call.Common().Args[1]) {
				continue
			}
			// sites in the reader that lead here
			top := topParent(fn)
			var sites []ssa.Instruction
			for _, rd := range readers {
				if rd == fn {
					sites = append(sites, call)
					continue
				}
				for _, f := range withClosures(rd) {
					for _, cs := range callsIn(f, fname(top)) {
						if f == rd {
							sites = append(sites, cs)
						} else {
							// closure: the MakeClosure in rd
							eachInstr(rd, func(in ssa.Instruction) {
								if mc, ok := in.(*ssa.MakeClosure); ok && mc.Fn == f {
									sites = append(sites, in)
								}
							})
						}
					}
				}
			}
			if len(sites) == 0 {
				c.Undecided("R-REPLY-UNTOUCHED", "cannot relate "+fname(fn)+" to the response reader")
			}
			for _, s := range sites {
				nr++
				g, _ := p.guardedBy(s, matchFieldLenZero(p, "Context", "Error"))
				det := ""
				if !g {
					det = "the reply object can be decoded into although the response carries an error text"
				}
				c.Ob("R-REPLY-UNTOUCHED", sc.key(s.Parent(), "decode only when Error empty"), p.InstrPos(s), g, det)
			}
		}
	}
	if nr == 0 {
		c.Undecided("R-REPLY-UNTOUCHED", "no reply-decoding site found")
	}

	// a failed call must not poison later calls through a recycled flag object
	ruleUpgradeOwner(c, a, "R-UPGRADE-OWNER")

	ruleClientDecodeErr(c, a, "R-CLIENT-DECODE-ERR")

	// ---- R-NO-RESIDUE
	c.Rule("R-NO-RESIDUE", "on the write-error edge of ClientCodec.WriteRequest the sender removes this call from Conn.pending (identity-tested) and, for a stream open, from Conn.streams; no other delete exists on that path", 2)
	ls := a.Locks()
	comp := computeCompletion(p)
	lookups := pendingOps(p, "lookup")
	for _, m := range pendingOps(p, "update") {
		fn := m.Fn
		for _, w := range invokesIn(fn, "ClientCodec", "WriteRequest") {
			// find the error edge
			for _, b := range fn.Blocks {
				iff, ok := b.Instrs[len(b.Instrs)-1].(*ssa.If)
				if !ok {
					continue
				}
				k, eq, ok := p.condFact(iff.Cond)
				if !ok || k.c != "nil" || p.canon(k.v) != ssa.Value(w.Value()) {
					continue
				}
				fail := b.Succs[0]
				if eq {
					fail = b.Succs[1]
				}
				okDel := false
				for _, d := range pendingOps(p, "delete") {
					if !p.sameFn(d.Fn, fn) {
						continue
					}
					if _, _, r := p.reachFromBlock(fn, fail, func(x ssa.Instruction) bool { return x == d.Instr }, nil, nil); r && comp.identityGuarded(ls, d, m.Val, lookups) && p.originsSubset(d.Key, m.Key) {
						okDel = true
					}
				}
				det := ""
				if !okDel {
					det = "after a failed write the call stays registered in Conn.pending (no identity-tested delete on the error edge): it is still counted as outstanding"
				}
				c.Ob("R-NO-RESIDUE", sc.key(fn, "write error: unregister pending"), p.InstrPos(iff), okDel, det)
				okS := false
				for _, d := range p.mapOps("Conn", "streams") {
					if d.Kind == "delete" && p.sameFn(d.Fn, fn) {
						if _, _, r := p.reachFromBlock(fn, fail, func(x ssa.Instruction) bool { return x == d.Instr }, nil, nil); r {
							if g, _ := p.guardedBy(d.Instr, matchFieldEqConst("upgrade", "Stream", 1)); g {
								okS = true
							}
						}
					}
				}
				det = ""
				if !okS {
					det = "after a failed stream-open write the call stays in Conn.streams"
				}
				c.Ob("R-NO-RESIDUE", sc.key(fn, "write error: unregister stream"), p.InstrPos(iff), okS, det)
			}
		}
	}
}

// matchCtxErrorIsShutdownText recognises Context.Error == <the text ErrShutdown is built from>.
func matchCtxErrorIsShutdownText(p *Prog) condMatch {
	return func(cond ssa.Value) (bool, bool) {
		b, ok := cond.(*ssa.BinOp)
		if !ok || (b.Op != token.EQL && b.Op != token.NEQ) {
			return false, false
		}
		x, y := b.X, b.Y
		if _, isC := x.(*ssa.Const); isC {
			x, y = y, x
		}
		k, isC := y.(*ssa.Const)
		if !isC || k.Value == nil || k.Value.Kind() != constant.String || !isLoadOf(p.canon(x), "Context", "Error") {
			return false, false
		}
		if constant.StringVal(k.Value) != shutdownText(p) {
			return false, false
		}
		return true, b.Op == token.EQL
	}
}

// shutdownText: the string ErrShutdown is created from (package initialiser).
func shutdownText(p *Prog) string {
	init := p.RPC.Func("init")
	text := ""
	if init == nil {
		return text
	}
	eachInstr(init, func(in ssa.Instruction) {
		st, ok := in.(*ssa.Store)
		if !ok {
			return
		}
		g, ok := st.Addr.(*ssa.Global)
		if !ok || g.Name() != "ErrShutdown" {
			return
		}
		if cc, ok := p.canon(st.Val).(*ssa.Call); ok && calleeName(cc) == "errors.New" {
			if k, ok := cc.Call.Args[0].(*ssa.Const); ok && k.Value != nil && k.Value.Kind() == constant.String {
				text = constant.StringVal(k.Value)
			}
		}
	})
	return text
}
