package main

// E7 — use-after-release typestate for pooled objects, with may-release
// summaries across static calls and guard correlation, and ownership transfer
// to scheduled closures.

import (
	"fmt"
	"go/token"
	"go/types"
	"strings"

	"golang.org/x/tools/go/ssa"
)

// resKind describes one pooled resource class.
type resKind struct {
	Name string
	// typ is the pointee struct name of the resource ("Context", "Call", "upgrade", "event")
	Typ string
}

var (
	resContext = resKind{"pooled Context", "Context"}
	resCall    = resKind{"pooled Call", "Call"}
	resUpgrade = resKind{"pooled upgrade", "upgrade"}
	resEvent   = resKind{"pooled event", "event"}
	resBuffer  = resKind{"read buffer of Context", "Context"} // poisons alias fields of the context
)

// alias-carrying fields of a Context: they may point into the pooled read buffer.
var ctxAliasFields = map[string]bool{"buffer": true, "data": true, "value": true, "Error": true, "ServiceMethod": true, "Upgrade": true}

// varKey identifies a variable: a single-assignment register (canonical) or a
// local cell.
func (p *Prog) varKey(v ssa.Value) interface{} {
	for i := 0; i < 8; i++ {
		v = unwrap(v)
		// the parameter of a single-site plain helper is the argument passed there
		if prm, isP := v.(*ssa.Parameter); isP {
			if c := p.canon(prm); c != ssa.Value(prm) {
				v = c
				continue
			}
			break
		}
		u, ok := v.(*ssa.UnOp)
		if !ok || u.Op != token.MUL {
			break
		}
		cell := p.localCell(u.X)
		if cell == nil {
			break
		}
		st := p.storesToCell(cell)
		if len(st) != 1 {
			return cell
		}
		v = st[0] // single-assignment variable: identify it with its value
	}
	return v
}

type releaseSite struct {
	Instr ssa.Instruction
	Kind  resKind
	Res   ssa.Value // the released object (for resBuffer: the Context)
	Via   string    // callee through which the release happens ("" = direct)
	// Guards: conditions on fields of Res under which the (summarised) release executes
	Guards []pathGuard
}

// pointeeName returns the struct name v points to.
func pointeeName(v ssa.Value) string {
	v = unwrap(v)
	if pt, ok := v.Type().Underlying().(*types.Pointer); ok {
		return namedOf(pt.Elem())
	}
	return ""
}

// directRelease recognises the pool-return calls of this package.
func (p *Prog) directRelease(in ssa.Instruction) (releaseSite, bool) {
	c, ok := in.(*ssa.Call)
	if !ok {
		return releaseSite{}, false
	}
	name := calleeName(c)
	args := c.Call.Args
	switch name {
	case "putContext":
		return releaseSite{in, resContext, args[0], "", nil}, true
	case "PutCall":
		return releaseSite{in, resCall, args[0], "", nil}, true
	case "putUpgrade":
		return releaseSite{in, resUpgrade, args[0], "", nil}, true
	case "(*Server).putUpgrade":
		return releaseSite{in, resUpgrade, args[1], "", nil}, true
	case "freeEvent":
		return releaseSite{in, resEvent, args[0], "", nil}, true
	case "(*sync.Pool).Put":
		x := unwrap(args[1])
		switch pointeeName(x) {
		case "Context":
			return releaseSite{in, resContext, x, "", nil}, true
		case "Call":
			return releaseSite{in, resCall, x, "", nil}, true
		case "upgrade":
			return releaseSite{in, resUpgrade, x, "", nil}, true
		case "event":
			return releaseSite{in, resEvent, x, "", nil}, true
		}
	case "(*buffer.Pool).PutBuffer", "PutBuffer":
		b := args[len(args)-1]
		for _, o := range p.origins(b) {
			if fr, base, ok := fieldOfLoad(o); ok && fr.Struct == "Context" && fr.Field == "buffer" {
				return releaseSite{in, resBuffer, base, "", nil}, true
			}
		}
	}
	return releaseSite{}, false
}

// relSummary: function releases parameter i (may-release), under guards.
type relSummary struct {
	Param  int
	Kind   resKind
	Guards []pathGuard // conditions on fields of the parameter that hold whenever the release executes
	Via    string
}

// pathGuard is "load(root.path) == Const" (Eq) or != (when !Eq).
type pathGuard struct {
	Path  string // ".upgrade.Stream"
	Const string
	Eq    bool
}

// apath renders v as root + field path when v is a chain of field loads from
// root; ok=false otherwise.
func (p *Prog) apath(v ssa.Value, root interface{}) (string, bool) {
	path := ""
	for i := 0; i < 6; i++ {
		if p.varKey(v) == root {
			return path, true
		}
		fr, base, ok := fieldOfLoad(p.canon(v))
		if !ok {
			return "", false
		}
		path = "." + fr.Field + path
		v = base
	}
	return "", false
}

// dominatingGuards collects the field-path conditions (rooted at root) that
// hold at `in` because of dominating branches.
func (p *Prog) dominatingGuards(in ssa.Instruction, root interface{}) []pathGuard {
	var out []pathGuard
	b := in.Block()
	for d := b; d != nil; d = d.Idom() {
		id := d.Idom()
		if id == nil {
			break
		}
		iff, ok := id.Instrs[len(id.Instrs)-1].(*ssa.If)
		if !ok {
			continue
		}
		cond, neg := stripNot(iff.Cond)
		if phi, isPhi := p.canon(cond).(*ssa.Phi); isPhi {
			// boolean flag: if exactly one incoming edge makes the flag take the
			// value that leads here, the guards of that edge hold here too.
			t, e := id.Succs[0], id.Succs[1]
			want := ""
			if t != e && len(t.Preds) == 1 && t.Dominates(b) {
				want = "true"
			} else if t != e && len(e.Preds) == 1 && e.Dominates(b) {
				want = "false"
			}
			if neg && want != "" {
				if want == "true" {
					want = "false"
				} else {
					want = "true"
				}
			}
			if want != "" {
				idx, n := -1, 0
				allConst := true
				for i, ed := range phi.Edges {
					cst, isC := ed.(*ssa.Const)
					if !isC {
						allConst = false
						break
					}
					if constStr(cst) == want {
						idx = i
						n++
					}
				}
				if allConst && n == 1 {
					pred := phi.Block().Preds[idx]
					out = append(out, p.dominatingGuards(pred.Instrs[len(pred.Instrs)-1], root)...)
				}
			}
			continue
		}
		bo, ok := cond.(*ssa.BinOp)
		if !ok || (bo.Op != token.EQL && bo.Op != token.NEQ) {
			continue
		}
		x, y := bo.X, bo.Y
		if _, isC := x.(*ssa.Const); isC {
			x, y = y, x
		}
		cst, isC := y.(*ssa.Const)
		if !isC {
			continue
		}
		path, ok := p.apath(x, root)
		if !ok || path == "" {
			continue
		}
		eq := bo.Op == token.EQL
		if neg {
			eq = !eq
		}
		t, e := id.Succs[0], id.Succs[1]
		if t == e {
			continue
		}
		if len(t.Preds) == 1 && t.Dominates(b) {
			out = append(out, pathGuard{path, constStr(cst), eq})
		} else if len(e.Preds) == 1 && e.Dominates(b) {
			out = append(out, pathGuard{path, constStr(cst), !eq})
		}
	}
	return out
}

// factGuards converts the register facts of the current path into field-path
// guards rooted at root.
func (p *Prog) factGuards(f facts, root interface{}) []pathGuard {
	var out []pathGuard
	for k, v := range f {
		if k.c == "true" || k.c == "len0" {
			continue
		}
		if path, ok := p.apath(k.v, root); ok && path != "" {
			out = append(out, pathGuard{path, k.c, v})
		}
	}
	return out
}

// entails: every equality guard of need is established by have.
func entails(have, need []pathGuard) bool {
	for _, n := range need {
		if !n.Eq {
			continue
		}
		ok := false
		for _, h := range have {
			if h.Path == n.Path && h.Const == n.Const && h.Eq {
				ok = true
			}
		}
		if !ok {
			return false
		}
	}
	return true
}

func contradicts(a, b []pathGuard) bool {
	for _, x := range a {
		for _, y := range b {
			if x.Path != y.Path {
				continue
			}
			if x.Const == y.Const && x.Eq != y.Eq {
				return true
			}
			if x.Const != y.Const && x.Eq && y.Eq {
				return true
			}
		}
	}
	return false
}

// Releases computes may-release summaries for the package functions.
type Releases struct {
	p   *Prog
	sum map[*ssa.Function][]relSummary
}

func paramIndex(fn *ssa.Function, key interface{}, p *Prog) int {
	for i, prm := range fn.Params {
		if p.varKey(prm) == key {
			return i
		}
		// parameter spilled into a cell (captured by a closure)
		if cell, ok := key.(*ssa.Alloc); ok {
			for _, s := range p.storesToCell(cell) {
				if s == ssa.Value(prm) && len(p.storesToCell(cell)) == 1 {
					return i
				}
			}
		}
	}
	return -1
}

func ComputeReleases(p *Prog) *Releases {
	r := &Releases{p: p, sum: map[*ssa.Function][]relSummary{}}
	for iter := 0; iter < 4; iter++ {
		changed := false
		for _, fn := range p.AllFns {
			if fn.Parent() != nil {
				continue
			}
			have := map[string]bool{}
			for _, s := range r.sum[fn] {
				have[fmt.Sprintf("%d/%s", s.Param, s.Kind.Name)] = true
			}
			for _, rs := range r.sitesIn(fn) {
				key := p.varKey(rs.Res)
				i := paramIndex(fn, key, p)
				if i < 0 {
					continue
				}
				k := fmt.Sprintf("%d/%s", i, rs.Kind.Name)
				if have[k] {
					continue
				}
				have[k] = true
				via := fname(fn)
				if rs.Via != "" {
					via = fname(fn) + "→" + rs.Via
				}
				g := p.dominatingGuards(rs.Instr, key)
				r.sum[fn] = append(r.sum[fn], relSummary{i, rs.Kind, g, via})
				changed = true
			}
		}
		if !changed {
			break
		}
	}
	return r
}

// sitesIn returns the direct and summarised release sites of fn (not its closures).
func (r *Releases) sitesIn(fn *ssa.Function) []releaseSite {
	p := r.p
	var out []releaseSite
	eachInstrLocal(fn, func(in ssa.Instruction) {
		if rs, ok := p.directRelease(in); ok {
			out = append(out, rs)
			return
		}
		c, ok := in.(*ssa.Call)
		if !ok {
			return
		}
		cal := c.Common().StaticCallee()
		if cal == nil {
			return
		}
		for _, s := range r.sum[cal] {
			if s.Param >= len(c.Call.Args) {
				continue
			}
			arg := c.Call.Args[s.Param]
			here := p.dominatingGuards(in, p.varKey(arg))
			if contradicts(s.Guards, here) {
				continue
			}
			// a release that only happens in one special mode of the object
			// (field == K) is attributed to a caller only if the caller
			// establishes that mode (see DESIGN.md, E7 precision rule).
			if !entails(here, s.Guards) {
				continue
			}
			out = append(out, releaseSite{in, s.Kind, arg, s.Via, s.Guards})
		}
	})
	return out
}

// usesVar reports whether in reads the variable key (directly, or through a
// load of its cell). kind-specific filtering is done by the caller.
func (p *Prog) usesVar(in ssa.Instruction, key interface{}) (ssa.Value, bool) {
	for _, op := range in.Operands(nil) {
		if *op == nil {
			continue
		}
		if p.varKey(*op) == key {
			return *op, true
		}
	}
	return nil, false
}

// uarScope selects which functions a property looks at.
type uarScope func(fn *ssa.Function) bool

func uarAll(fn *ssa.Function) bool { return true }

func fileOf(p *Prog, fn *ssa.Function) string {
	f := p.Fset.Position(topParent(fn).Pos()).Filename
	if i := strings.LastIndex(f, "/"); i >= 0 {
		f = f[i+1:]
	}
	return f
}

func uarClient(fn *ssa.Function) bool {
	n := fname(topParent(fn))
	return strings.HasPrefix(n, "(*Conn).") || n == "PutCall" || n == "putContext" || strings.HasPrefix(n, "(*stream).")
}

func uarServer(fn *ssa.Function) bool {
	n := fname(topParent(fn))
	return strings.HasPrefix(n, "(*Server).") || strings.HasPrefix(n, "(*stream).")
}

// badUseAfter decides whether instruction `in` is a forbidden use of the
// released resource.
func (p *Prog) badUseAfter(in ssa.Instruction, rs releaseSite, key interface{}) (string, bool) {
	if _, isDbg := in.(*ssa.DebugRef); isDbg {
		return "", false
	}
	opv, uses := p.usesVar(in, key)
	if !uses {
		return "", false
	}
	switch rs.Kind.Name {
	case resBuffer.Name:
		// only loads of alias-carrying fields (and calls that read them) are forbidden
		if fa, ok := in.(*ssa.FieldAddr); ok && fa.X == opv {
			fr, _, _ := fieldOfAddr(fa)
			if !ctxAliasFields[fr.Field] || fa.Referrers() == nil {
				return "", false
			}
			for _, r := range *fa.Referrers() {
				if u, ok := r.(*ssa.UnOp); ok && u.Op == token.MUL {
					// a load that only feeds another release of the same buffer is the release idiom itself
					return "load of " + fr.String() + " after its buffer was returned to the pool", true
				}
			}
			return "", false
		}
		if c, ok := in.(*ssa.Call); ok {
			if cal := c.Common().StaticCallee(); cal != nil && cal.Pkg == p.RPC {
				for i, a := range c.Call.Args {
					if p.varKey(a) == key && p.readsAliasFields(cal, i, 0) {
						return "call " + fname(cal) + " reads buffer-aliasing fields after the buffer was returned to the pool", true
					}
				}
			}
		}
		return "", false
	default:
		// loading the variable itself is not yet a use of the object; the
		// instruction consuming the loaded register is.
		if u, ok := in.(*ssa.UnOp); ok && u.Op == token.MUL {
			if p.localCell(u.X) != nil {
				if _, isCell := key.(*ssa.Alloc); isCell {
					return "", false
				}
			}
		}
		if _, ok := in.(*ssa.Store); ok {
			// storing a fresh value into the variable cell re-initialises it
			if st := in.(*ssa.Store); p.localCell(st.Addr) != nil && p.varKey(st.Val) != key {
				return "", false
			}
		}
		return "use of " + rs.Kind.Name + " after release: " + strings.TrimSpace(in.String()), true
	}
}

var readsAliasCache = map[string]bool{}

// readsAliasFields: does fn (transitively, depth ≤ 3) load an alias-carrying
// field of its i-th parameter?
func (p *Prog) readsAliasFields(fn *ssa.Function, i int, depth int) bool {
	if fn.Blocks == nil || i >= len(fn.Params) || depth > 3 {
		return false
	}
	ck := fmt.Sprintf("%p/%s/%d", p, fname(fn), i)
	if v, ok := readsAliasCache[ck]; ok {
		return v
	}
	readsAliasCache[ck] = false
	key := p.varKey(fn.Params[i])
	// parameter may be spilled
	keys := []interface{}{key}
	eachInstrLocal(fn, func(in ssa.Instruction) {
		if s, ok := in.(*ssa.Store); ok && s.Val == ssa.Value(fn.Params[i]) {
			if cell := p.localCell(s.Addr); cell != nil {
				keys = append(keys, cell)
			}
		}
	})
	res := false
	for _, f := range withClosures(fn) {
		eachInstrLocal(f, func(in ssa.Instruction) {
			if res {
				return
			}
			for _, k := range keys {
				opv, uses := p.usesVar(in, k)
				if !uses {
					continue
				}
				if fa, ok := in.(*ssa.FieldAddr); ok && fa.X == opv {
					fr, _, _ := fieldOfAddr(fa)
					if ctxAliasFields[fr.Field] && fa.Referrers() != nil {
						for _, r := range *fa.Referrers() {
							if u, ok := r.(*ssa.UnOp); ok && u.Op == token.MUL {
								// loads that only feed a pool release do not read the bytes
								onlyRelease := u.Referrers() != nil && len(*u.Referrers()) > 0
								if u.Referrers() != nil {
									for _, rr := range *u.Referrers() {
										if _, isRel := p.directRelease(rr); !isRel {
											if c, ok := rr.(*ssa.Call); ok && (calleeName(c) == "builtin cap" || calleeName(c) == "builtin len") {
												continue
											}
											if _, ok := rr.(*ssa.DebugRef); ok {
												continue
											}
											onlyRelease = false
										}
									}
								}
								if !onlyRelease {
									res = true
								}
							}
						}
					}
				}
				if c, ok := in.(*ssa.Call); ok {
					if cal := c.Common().StaticCallee(); cal != nil && cal.Pkg == p.RPC {
						for j, a := range c.Call.Args {
							if p.varKey(a) == k && p.readsAliasFields(cal, j, depth+1) {
								res = true
							}
						}
					}
				}
			}
		})
	}
	readsAliasCache[ck] = res
	return res
}

// escapingClosuresOf returns the MakeClosure instructions in fn that capture
// variable key and are handed to another goroutine/queue (go, Schedule, stored).
func (p *Prog) escapingClosures(fn *ssa.Function, key interface{}) []*ssa.MakeClosure {
	var out []*ssa.MakeClosure
	eachInstrLocal(fn, func(in ssa.Instruction) {
		mc, ok := in.(*ssa.MakeClosure)
		if !ok {
			return
		}
		captures := false
		for _, b := range mc.Bindings {
			if cell := p.localCell(b); cell != nil && interface{}(cell) == key {
				captures = true
			}
			if p.varKey(b) == key || p.varKeyOfBinding(b) == key {
				captures = true
			}
		}
		if !captures || mc.Referrers() == nil {
			return
		}
		for _, r := range *mc.Referrers() {
			switch u := r.(type) {
			case *ssa.Go:
				out = append(out, mc)
			case *ssa.Call:
				if u.Common().Value == ssa.Value(mc) {
					continue // called on the spot
				}
				n := calleeName(u)
				if n == "invoke scheduler.Scheduler.Schedule" || n == "scheduler.Schedule" {
					out = append(out, mc)
				}
			}
		}
	})
	return out
}

// closureBadUse: would the closure's accesses be forbidden after release rs?
func (p *Prog) closureBadUse(mc *ssa.MakeClosure, rs releaseSite, key interface{}) bool {
	fn := mc.Fn.(*ssa.Function)
	bad := false
	for _, f := range withClosures(fn) {
		eachInstrLocal(f, func(in ssa.Instruction) {
			if _, ok := p.badUseAfter(in, rs, key); ok {
				bad = true
			}
		})
	}
	return bad
}

// closureTouches: does the closure (transitively) use the captured variable?
func (p *Prog) closureTouches(mc *ssa.MakeClosure, key interface{}) bool {
	fn := mc.Fn.(*ssa.Function)
	touch := false
	for _, f := range withClosures(fn) {
		eachInstrLocal(f, func(in ssa.Instruction) {
			if _, ok := in.(*ssa.DebugRef); ok {
				return
			}
			if _, uses := p.usesVar(in, key); uses {
				touch = true
			}
		})
	}
	return touch
}

// ruleUseAfterRelease (E7): for every release site of a pooled object, no
// feasible path from the release reaches a use of the released object in the
// same function; no second release; and once the object has been handed to a
// scheduled closure the scheduling function neither uses nor releases it.
func ruleUseAfterRelease(c *Check, a *Analysis, rule string, scope uarScope) {
	p := c.P
	c.Rule(rule, "no use of a pooled Context/Call/upgrade/event (or of a Context field that aliases its read buffer) is reachable from the point where it was returned to its pool; no double release; an object handed to a scheduled closure is not touched again by the scheduling function", 6)
	rel := a.Releases()
	sc := siteCounter{}
	for _, fn := range p.AllFns {
		if !scope(fn) {
			continue
		}
		sites := rel.sitesIn(fn)
		for _, rs := range sites {
			key := p.varKey(rs.Res)
			var bad ssa.Instruction
			var why string
			// an upgrade object released through its owner (putUpgrade(x.upgrade)): x still points to it
			var ownerKey interface{}
			if rs.Kind.Name == resUpgrade.Name {
				if fr, base, ok := fieldOfLoad(p.canon(rs.Res)); ok && fr.Field == "upgrade" {
					ownerKey = p.varKey(base)
				}
			}
			w, tr, found := p.reachFrom(fn, rs.Instr, func(in ssa.Instruction) bool {
				if in == rs.Instr {
					// reaching the same release again in a loop is only a double release if the variable was not re-initialised
					return false
				}
				if ownerKey != nil {
					if ci, ok := in.(ssa.CallInstruction); ok && ci.Common().IsInvoke() {
						if m := ci.Common().Method.Name(); m == "WriteResponse" || m == "WriteRequest" {
							for _, a := range ci.Common().Args {
								if p.varKey(a) == ownerKey {
									why = "the owner of the released upgrade object is handed to " + m + ", which reads its flags"
									return true
								}
							}
						}
					}
				}
				if s, ok := p.badUseAfter(in, rs, key); ok {
					why = s
					return true
				}
				return false
			}, func(in ssa.Instruction) bool {
				// re-initialisation of the variable ends the released state
				if st, ok := in.(*ssa.Store); ok {
					if cell := p.localCell(st.Addr); cell != nil && interface{}(cell) == key {
						return true
					}
					if ownerKey != nil {
						if fr, base, ok := fieldOfAddr(st.Addr); ok && fr.Field == "upgrade" && p.varKey(base) == ownerKey {
							return true
						}
					}
				}
				if kv, ok := key.(ssa.Value); ok && redefines(p, in, kv) {
					return true
				}
				return false
			})
			if found {
				bad = w
			}
			what := strings.ReplaceAll(rs.Kind.Name, " ", "-")
			if rs.Via != "" {
				what += " via " + rs.Via
			}
			site := sc.key(fn, "release "+what)
			det := ""
			if bad != nil {
				det = fmt.Sprintf("%s released at %s, then %s at %s (path %s)", rs.Kind.Name, p.At(rs.Instr), why, p.At(bad), p.lineTrail(tr))
			}
			c.Ob(rule, site, p.InstrPos(rs.Instr), bad == nil, det)
		}
		// ownership transfer
		seenKey := map[interface{}]bool{}
		for _, rs := range sites {
			key := p.varKey(rs.Res)
			if seenKey[key] || rs.Kind.Name == resUpgrade.Name {
				continue
			}
			seenKey[key] = true
			for _, mc := range p.escapingClosures(fn, key) {
				if !p.closureTouches(mc, key) {
					continue
				}
				// does the closure (transitively) release the object?
				releasesContext := false
				for _, f := range withClosures(mc.Fn.(*ssa.Function)) {
					for _, r3 := range rel.sitesIn(f) {
						if p.varKey(r3.Res) == key && r3.Kind.Name != resUpgrade.Name {
							releasesContext = true
						}
					}
				}
				var why string
				w, tr, found := p.reachFrom(fn, mc, func(in ssa.Instruction) bool {
					if _, ok := in.(*ssa.DebugRef); ok {
						return false
					}
					isSite := false
					for _, r2 := range sites {
						if r2.Instr == in && p.varKey(r2.Res) == key {
							isSite = true
							if len(r2.Guards) > 0 && contradicts(r2.Guards, p.factGuards(p.curFacts, key)) {
								continue // the callee's release cannot execute on this path
							}
							if !p.closureBadUse(mc, r2, key) {
								continue
							}
							why = "released (" + r2.Kind.Name + ")"
							return true
						}
					}
					if isSite || !releasesContext {
						return false
					}
					// the closure owns (and will release) the object: the scheduling
					// function must not read it any more
					if fa, ok := in.(*ssa.FieldAddr); ok {
						if _, uses := p.usesVar(in, key); uses && fa.Referrers() != nil {
							for _, r := range *fa.Referrers() {
								if u, ok := r.(*ssa.UnOp); ok && u.Op == token.MUL {
									why = "read (" + strings.TrimSpace(in.String()) + ")"
									return true
								}
							}
						}
					}
					return false
				}, func(in ssa.Instruction) bool {
					if st, ok := in.(*ssa.Store); ok {
						if cell := p.localCell(st.Addr); cell != nil && interface{}(cell) == key {
							return true
						}
					}
					if kv, ok := key.(ssa.Value); ok && redefines(p, in, kv) {
						return true
					}
					return false
				})
				det := ""
				if found {
					det = fmt.Sprintf("object handed to a scheduled/go closure at %s is %s by the scheduling function at %s (path %s)", p.At(mc), why, p.At(w), p.lineTrail(tr))
				}
				c.Ob(rule, sc.key(fn, "handoff to "+fname(mc.Fn.(*ssa.Function))), p.InstrPos(mc), !found, det)
			}
		}
	}
}

func (a *Analysis) Releases() *Releases {
	if a.rel == nil {
		a.rel = ComputeReleases(a.P)
	}
	return a.rel
}
