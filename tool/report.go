package main

// Obligations, violations, known findings and evidence files.

import (
	"bufio"
	"crypto/sha1"
	"encoding/json"
	"fmt"
	"go/token"
	"os"
	"path/filepath"
	"sort"
	"strings"
	"time"
)

// Obligation is one decided instance of a rule.
type Obligation struct {
	Rule   string `json:"rule"`
	Site   string `json:"site"` // function#construct, never a line number
	Pos    string `json:"pos"`
	OK     bool   `json:"ok"`
	Detail string `json:"detail,omitempty"`
	Arch   string `json:"arch,omitempty"`
}

func (o Obligation) key() string { return o.Rule + " " + o.Site }

// Check collects the obligations of one property run.
type Check struct {
	P       *Prog
	Prop    string
	Tier    string
	Obs     []Obligation
	floors  map[string]int
	rules   map[string]string // rule -> one-line statement
	order   []string
	Notes   []string
	undec   []string
	started time.Time
	extras  map[string]interface{}
}

func (c *Check) extra(k string, v interface{}) {
	if c.extras == nil {
		c.extras = map[string]interface{}{}
	}
	c.extras[k] = v
}

func NewCheck(p *Prog, prop, tier string) *Check {
	return &Check{P: p, Prop: prop, Tier: tier, floors: map[string]int{}, rules: map[string]string{}, started: time.Now()}
}

// Rule declares a rule with its statement and the minimum number of instances
// that must be matched (a rule matching fewer passes vacuously and is failed).
func (c *Check) Rule(id, statement string, floor int) {
	if _, ok := c.rules[id]; !ok {
		c.order = append(c.order, id)
	}
	c.rules[id] = statement
	c.floors[id] = floor
}

// Ob records one obligation.
func (c *Check) Ob(rule, site string, pos token.Pos, ok bool, detail string) {
	if _, declared := c.rules[rule]; !declared {
		panic("undeclared rule " + rule)
	}
	arch := ""
	if c.P != nil {
		arch = c.P.GOARCH
	}
	ps := "-"
	if c.P != nil {
		ps = c.P.Pos(pos)
	}
	c.Obs = append(c.Obs, Obligation{Rule: rule, Site: site, Pos: ps, OK: ok, Detail: detail, Arch: arch})
}

// Undecided records an anchor that could not be resolved: always a failure.
func (c *Check) Undecided(rule, what string) {
	c.undec = append(c.undec, rule+": "+what)
}

// Finding is one line of known_findings.txt.
type Finding struct {
	Kind string // known | fixed
	Prop string
	Rule string
	Site string
	Text string
}

func loadFindings(path string) ([]Finding, error) {
	f, err := os.Open(path)
	if err != nil {
		if os.IsNotExist(err) {
			return nil, nil
		}
		return nil, err
	}
	defer f.Close()
	var out []Finding
	sc := bufio.NewScanner(f)
	for sc.Scan() {
		line := strings.TrimSpace(sc.Text())
		if line == "" || strings.HasPrefix(line, "#") {
			continue
		}
		var fd Finding
		switch {
		case strings.HasPrefix(line, "known:"):
			fd.Kind = "known"
			line = strings.TrimSpace(line[6:])
		case strings.HasPrefix(line, "fixed:"):
			fd.Kind = "fixed"
			line = strings.TrimSpace(line[6:])
		default:
			return nil, fmt.Errorf("known_findings: bad line %q", line)
		}
		rest := []string{}
		for _, w := range strings.Fields(line) {
			switch {
			case strings.HasPrefix(w, "property=") && fd.Prop == "":
				fd.Prop = w[9:]
			case strings.HasPrefix(w, "rule=") && fd.Rule == "":
				fd.Rule = w[5:]
			case strings.HasPrefix(w, "site=") && fd.Site == "":
				fd.Site = w[5:]
			default:
				rest = append(rest, w)
			}
		}
		fd.Text = strings.Join(rest, " ")
		out = append(out, fd)
	}
	return out, sc.Err()
}

type evidence struct {
	PropertyID  string                 `json:"property_id"`
	Tier        string                 `json:"tier"`
	Seed        int                    `json:"seed"`
	Level       string                 `json:"level"`
	Coverage    map[string]interface{} `json:"coverage"`
	Assumptions []string               `json:"assumptions"`
	WallS       float64                `json:"wall_s"`
	Violations  int                    `json:"violations"`
}

// PropMeta is the static description of a property check.
type PropMeta struct {
	Explanation string
	Assumptions []string
	Trusted     []string
	NotDecided  string
}

// Finish evaluates floors and known findings, writes evidence and replay files
// and returns the process exit code.
func (c *Check) Finish(verifDir string, meta PropMeta, seed int, extra map[string]interface{}) int {
	findings, err := loadFindings(filepath.Join(verifDir, "known_findings.txt"))
	if err != nil {
		fmt.Println("error:", err)
		return 2
	}
	perRule := map[string][2]int{}
	distinct := map[string]bool{}
	for _, o := range c.Obs {
		x := perRule[o.Rule]
		x[0]++
		if o.OK {
			x[1]++
		}
		perRule[o.Rule] = x
		distinct[o.key()] = true
	}
	type viol struct {
		Ob    Obligation
		Known *Finding
	}
	var viols []viol
	seenV := map[string]bool{}
	for _, o := range c.Obs {
		if o.OK {
			continue
		}
		if seenV[o.key()] {
			continue
		}
		seenV[o.key()] = true
		v := viol{Ob: o}
		for i := range findings {
			f := &findings[i]
			if f.Kind == "known" && f.Prop == c.Prop && f.Rule == o.Rule && f.Site == o.Site {
				v.Known = f
			}
		}
		viols = append(viols, v)
	}
	// vacuity
	var vac []string
	for _, r := range c.order {
		if perRule[r][0] < c.floors[r] {
			vac = append(vac, fmt.Sprintf("%s: matched %d instance(s), floor %d", r, perRule[r][0], c.floors[r]))
		}
	}
	exit := 0
	replayDir := filepath.Join(verifDir, "evidence", "replays")
	os.MkdirAll(replayDir, 0o755)
	// remove stale replays of this property
	if old, _ := filepath.Glob(filepath.Join(replayDir, c.Prop+"-*.json")); old != nil {
		for _, f := range old {
			os.Remove(f)
		}
	}
	nviol := 0
	writeReplay := func(kind, rule, site, pos, detail string) string {
		h := sha1.Sum([]byte(rule + "|" + site))
		name := fmt.Sprintf("%s-%s-%x.json", c.Prop, sanitize(rule), h[:4])
		path := filepath.Join(replayDir, name)
		rp := map[string]interface{}{"property": c.Prop, "kind": kind, "rule": rule, "statement": c.rules[rule], "site": site, "pos": pos, "detail": detail, "repo": c.repoDir()}
		b, _ := json.MarshalIndent(rp, "", " ")
		os.WriteFile(path, b, 0o644)
		return path
	}
	for _, v := range viols {
		if v.Known != nil {
			fmt.Printf("KNOWN-FINDING: property=%s rule=%s site=%s %s\n", c.Prop, v.Ob.Rule, v.Ob.Site, v.Known.Text)
			continue
		}
		nviol++
		exit = 1
		path := writeReplay("violation", v.Ob.Rule, v.Ob.Site, v.Ob.Pos, v.Ob.Detail)
		fmt.Printf("  rule %s violated at %s [%s]: %s\n    rule: %s\n", v.Ob.Rule, v.Ob.Pos, v.Ob.Site, v.Ob.Detail, c.rules[v.Ob.Rule])
		fmt.Printf("VIOLATION property=%s replay=%s\n", c.Prop, path)
	}
	for _, u := range c.undec {
		nviol++
		exit = 1
		path := writeReplay("undecided", "undecided", u, "-", u)
		fmt.Printf("  undecided: %s\n", u)
		fmt.Printf("VIOLATION property=%s replay=%s\n", c.Prop, path)
	}
	for _, v := range vac {
		nviol++
		exit = 1
		path := writeReplay("vacuous", "vacuous", v, "-", v)
		fmt.Printf("  vacuous rule: %s\n", v)
		fmt.Printf("VIOLATION property=%s replay=%s\n", c.Prop, path)
	}
	// evidence
	rules := []map[string]interface{}{}
	for _, r := range c.order {
		rules = append(rules, map[string]interface{}{"rule": r, "statement": c.rules[r], "instances": perRule[r][0], "discharged": perRule[r][1], "floor": c.floors[r]})
	}
	var samples []interface{}
	perRuleSample := map[string]int{}
	for _, o := range c.Obs {
		if perRuleSample[o.Rule] >= 2 && o.OK {
			continue
		}
		perRuleSample[o.Rule]++
		samples = append(samples, o)
		if len(samples) >= 60 {
			break
		}
	}
	if len(samples) == 0 {
		samples = append(samples, "no obligations generated")
	}
	disch := 0
	for _, o := range c.Obs {
		if o.OK {
			disch++
		}
	}
	known := []string{}
	for _, v := range viols {
		if v.Known != nil {
			known = append(known, v.Ob.key())
		}
	}
	sort.Strings(known)
	cov := map[string]interface{}{
		"explanation":         meta.Explanation,
		"not_decided":         meta.NotDecided,
		"obligations":         len(c.Obs),
		"discharged":          disch,
		"evaluations":         len(c.Obs),
		"distinct_nontrivial": len(distinct),
		"rule":                "one obligation per (rule, function#construct) instance found in the current source; distinct = distinct (rule,site) keys; every instance is non-trivial in that it is a concrete instruction or path query in package rpc",
		"rules":               rules,
		"samples":             samples,
		"trusted_base":        meta.Trusted,
		"checker_cmd":         "bin/rpcverif check -prop " + c.Prop + " -tier " + c.Tier,
		"known_findings":      known,
		"notes":               c.Notes,
	}
	if c.P != nil {
		cov["packages_loaded"] = c.P.NumPkgs
		cov["rpc_functions_analysed"] = len(c.P.AllFns)
		cov["program_functions"] = c.P.AllFuncs
		cov["repo"] = c.P.Dir
		if len(c.P.Roles) > 0 {
			cov["renamed_helpers_recognised_by_role"] = c.P.Roles
		}
	}
	for k, v := range c.extras {
		cov[k] = v
	}
	for k, v := range extra {
		cov[k] = v
	}
	ev := evidence{PropertyID: c.Prop, Tier: c.Tier, Seed: seed, Level: "other", Coverage: cov, Assumptions: meta.Assumptions, WallS: time.Since(c.started).Seconds(), Violations: nviol}
	b, _ := json.MarshalIndent(ev, "", " ")
	os.MkdirAll(filepath.Join(verifDir, "evidence"), 0o755)
	if err := os.WriteFile(filepath.Join(verifDir, "evidence", c.Prop+".json"), b, 0o644); err != nil {
		fmt.Println("error writing evidence:", err)
		return 2
	}
	fmt.Printf("%s tier=%s: %d obligations over %d rules, %d discharged, %d known finding(s), %d violation(s) [%.1fs]\n",
		c.Prop, c.Tier, len(c.Obs), len(c.order), disch, len(known), nviol, time.Since(c.started).Seconds())
	return exit
}

func (c *Check) repoDir() string {
	if c.P != nil {
		return c.P.Dir
	}
	return ""
}

func sanitize(s string) string {
	var b strings.Builder
	for _, r := range s {
		if r >= 'a' && r <= 'z' || r >= 'A' && r <= 'Z' || r >= '0' && r <= '9' || r == '-' {
			b.WriteRune(r)
		} else {
			b.WriteRune('_')
		}
	}
	return b.String()
}
