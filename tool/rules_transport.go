package main

import (
	"fmt"
	"go/token"
	"go/types"
	"strings"

	"golang.org/x/tools/go/ssa"
)

func init() {
	register("C13", &propDef{
		Meta: PropMeta{
			Explanation: "Pool-limit invariant by enumeration of mutation sites: (1) every access to Transport.conns/idleConns/running and to the containers reachable through them (conns.Conns/cursor, connQueue.*) holds Transport.connsMu; (2) every growth of an active list (conns.Append / append to conns.Conns) is dominated by the true edge of len(cs.Conns) < t.MaxConnsPerHost or works on a list allocated in the same function, and every dial in getConn is reachable only when the idle queue is absent/empty or replaces a connection just found dead; in-place replacement stores into an existing slot; (3) connQueue.Enqueue refuses at length == capacity, every queue is created with capacity t.MaxIdleConnsPerHost, and a connection rejected by Enqueue is closed; (4) every removal from an active list is followed on all paths by Enqueue or Close of the removed connection; (5) the limit fields are written only in the sync.Once initialiser under the `< 1 → default` and `idle > conns → clamp` guards; (6) marking a connection dead is always followed by closing it.",
			NotDecided:  "The bound over all schedules follows from 1–6 by an inductive argument (DESIGN.md), not mechanised; dial errors racing with housekeeping.",
			Assumptions: []string{"only package rpc can touch the unexported pool structures"},
			Trusted:     commonTrusted,
		},
		Run: runC13,
	})
	register("C14", &propDef{
		Meta: PropMeta{
			Explanation: "(1) R-ADDR — in getConn/newPersistConn the dial argument, the pool map keys and the addr of new containers originate from the one addr parameter; housekeeping files connections only under the container's own addr; (2) R-ALIVE-RECHECK — every pooled hand-out in getConn (a Dequeue result or an element of an active list) reaches a return only through a load of that connection's alive flag taken under persistConn.mu, and the not-alive edge reaches a return only through a fresh dial; (3) R-MARK-DEAD — in each Transport call form the connection call is followed on every path by checkPersistConnErr, which on ErrShutdown clears alive under the lock and closes; (4) R-ERRDIAL — every error returned by newPersistConn and by the empty-address path of getConn is the ErrDial value.",
			NotDecided:  "Timing relative to KeepAlive/IdleConnTimeout; asynchronous Go failures observed later by the user cannot mark the connection.",
			Assumptions: []string{"Conn reports connection loss as ErrShutdown (C03)"},
			Trusted:     commonTrusted,
		},
		Run: runC14,
	})
	register("C15", &propDef{
		Meta: PropMeta{
			Explanation: "(1) R-BUSY-GUARD — in housekeeping (run) and CloseIdleConnections every Close or removal of an active-list entry is dominated by the true edge of NumCalls() == 0 on that same connection; (2) R-CLOSE-ALL — past its guards Transport.Close ranges over conns and idleConns closing every element, replaces both maps and closes t.done on every path; run has an exit arm on <-t.done; (3) NumCalls reads len(pending) and len(streams) under Conn.mutex and returns a value that has both among its origins (max).",
			NotDecided:  "\"Retired after KeepAlive / closed after IdleConnTimeout\" are timing/liveness claims; the idle sweep tests the newest entry and closes the oldest (noted in DESIGN.md §6).",
			Assumptions: []string{},
			Trusted:     commonTrusted,
		},
		Run: runC15,
	})
}

// ---- condition matchers

func matchLenConnsLtMax(p *Prog) condMatch {
	return func(cond ssa.Value) (bool, bool) {
		b, ok := cond.(*ssa.BinOp)
		if !ok {
			return false, false
		}
		isLen := func(v ssa.Value) bool {
			cc, ok := stripConv(v).(*ssa.Call)
			return ok && calleeName(cc) == "builtin len" && isLoadOf(p.canon(cc.Call.Args[0]), "conns", "Conns")
		}
		isMax := func(v ssa.Value) bool { return isLoadOf(p.canon(stripConv(v)), "Transport", "MaxConnsPerHost") }
		switch {
		case isLen(b.X) && isMax(b.Y):
			switch b.Op {
			case token.LSS:
				return true, true
			case token.GEQ:
				return true, false
			}
		case isMax(b.X) && isLen(b.Y):
			switch b.Op {
			case token.GTR:
				return true, true
			case token.LEQ:
				return true, false
			}
		}
		return false, false
	}
}

// matchIdleEmpty: holds when the idle queue for the address is absent or empty.
func matchIdleEmpty(p *Prog) condMatch {
	return func(cond ssa.Value) (bool, bool) {
		cond = p.canon(cond)
		if e, ok := cond.(*ssa.Extract); ok && e.Index == 1 {
			if l, ok := e.Tuple.(*ssa.Lookup); ok && isLoadOf(p.canon(l.X), "Transport", "idleConns") {
				return true, false // absent on the false edge
			}
		}
		if b, ok := cond.(*ssa.BinOp); ok {
			cc, isC := stripConv(b.X).(*ssa.Call)
			k, isK := constInt(b.Y)
			if isC && isK && calleeName(cc) == "(*connQueue).Length" {
				switch {
				case b.Op == token.GTR && k == 0, b.Op == token.NEQ && k == 0, b.Op == token.GEQ && k == 1:
					return true, false
				case b.Op == token.EQL && k == 0, b.Op == token.LEQ && k == 0, b.Op == token.LSS && k == 1:
					return true, true
				}
			}
		}
		return false, false
	}
}

func matchAlive(p *Prog) condMatch {
	return func(cond ssa.Value) (bool, bool) {
		if isLoadOf(p.canon(cond), "persistConn", "alive") {
			return true, true
		}
		return false, false
	}
}

// matchNumCallsZero: `X.NumCalls() == 0` (holds on true).
func matchNumCallsZero(p *Prog) condMatch {
	return func(cond ssa.Value) (bool, bool) {
		b, ok := cond.(*ssa.BinOp)
		if !ok || (b.Op != token.EQL && b.Op != token.NEQ && b.Op != token.GTR) {
			return false, false
		}
		cc, isC := stripConv(b.X).(*ssa.Call)
		k, isK := constInt(b.Y)
		if !isC || !isK || k != 0 || calleeName(cc) != "(*Conn).NumCalls" {
			return false, false
		}
		return true, b.Op == token.EQL
	}
}

func runC13(c *Check, a *Analysis) {
	p := c.P
	ruleConnCloseReleases(c, a, "R-CLOSE-RELEASES")
	c.Rule("R-DRAIN-ALL", "the counted loops that empty a pool container (housekeeping, CloseIdleConnections, Close) visit every element: they start at element 0 and do not count upwards against a length they re-read while the body removes elements — connections left behind are open but tracked nowhere, and the next calls dial up to the limit next to them", 3)
	ruleDrainLoops(c, a, "R-DRAIN-ALL")
	ruleShrinkingBound(c, a, "R-DRAIN-ALL")
	ruleLockBalance(c, a, "R-LOCK-BALANCE", "Transport.connsMu", "persistConn.mu")
	sc := siteCounter{}
	c.Rule("R-LOCK", "Transport.conns/idleConns/running, conns.Conns/cursor and connQueue.front/rear/length are only accessed with Transport.connsMu held", 30)
	ruleLock(c, a, "R-LOCK", "Transport", "conns", "idleConns", "running")
	ruleLock(c, a, "R-LOCK", "conns", "Conns", "cursor")
	ruleLock(c, a, "R-LOCK", "connQueue", "front", "rear", "length")

	// ---- R-GROW-GUARD
	c.Rule("R-GROW-GUARD", "every growth of an active connection list is dominated by len(cs.Conns) < t.MaxConnsPerHost or targets a list allocated in the same function; growth by append happens only inside the container's own method", 2)
	for _, fn := range p.Fns {
		for _, call := range callsIn(fn, "(*conns).Append") {
			recv := p.canon(call.Common().Args[0])
			fresh := baseIsLocalAlloc(recv)
			g, _ := p.guardedBy(call.(ssa.Instruction), matchLenConnsLtMax(p))
			c.Ob("R-GROW-GUARD", sc.key(fn, "conns.Append"), p.InstrPos(call), fresh || g, ifs(!(fresh || g), "an active list grows without the test len(cs.Conns) < t.MaxConnsPerHost: more than MaxConnsPerHost connections to one address"))
		}
	}
	for _, op := range p.mapOps("conns", "Conns") {
		if op.Kind == "append" {
			if isRemovalAppend(p, op.Instr) {
				continue // append(s[:i], s[i+1:]...) shrinks the list
			}
			ok := fname(op.Fn) == "(*conns).Append"
			if !ok {
				// the container method written in line: the growth itself must then be guarded (or target a fresh list)
				var recv ssa.Value
				if ld, isLd := op.Load.(*ssa.UnOp); isLd {
					if _, base, okf := fieldOfLoad(ld); okf {
						recv = p.canon(base)
					}
				}
				fresh := recv != nil && baseIsLocalAlloc(recv)
				g, _ := p.guardedBy(op.Instr, matchLenConnsLtMax(p))
				ok = fresh || g
			}
			c.Ob("R-GROW-GUARD", sc.key(op.Fn, "append(c.Conns)"), p.InstrPos(op.Instr), ok, ifs(!ok, "conns.Conns grows by a direct append without the test len(cs.Conns) < t.MaxConnsPerHost (and not on a list allocated here): more than MaxConnsPerHost connections to one address"))
		}
	}
	c.Rule("R-DIAL-GUARD", "every dial in getConn is reachable only when the idle queue for the address is absent/empty, or replaces a pooled connection just found not alive", 3)
	gc := p.Fn("(*Transport).getConn")
	if gc == nil {
		c.Undecided("R-DIAL-GUARD", "(*Transport).getConn not found")
	} else {
		for _, d := range callsIn(gc, "(*Transport).newPersistConn") {
			in := d.(ssa.Instruction)
			gIdle, _ := p.guardedBy(in, matchIdleEmpty(p))
			gDead, _ := p.guardedBy(in, negate(matchAlive(p)))
			c.Ob("R-DIAL-GUARD", sc.key(gc, "dial only if idle queue empty or replacing a dead conn"), p.InstrPos(in), gIdle || gDead, ifs(!(gIdle || gDead), "a new connection is dialed although idle connections to the address are available: active + idle can exceed MaxConnsPerHost"))
		}
		// in-place replacement: stores into an existing slot are not growth; check they are guarded by !alive
		for _, s := range storesIn(gc) {
			ia, ok := s.Addr.(*ssa.IndexAddr)
			if !ok || !isLoadOf(p.canon(ia.X), "conns", "Conns") {
				continue
			}
			g, _ := p.guardedBy(s, negate(matchAlive(p)))
			if !g {
				// `pc = slot; if dead { pc = dial() }; slot = pc`: what is stored is either what the
				// slot already holds or a connection dialed because the entry was found dead
				all := true
				for _, o := range p.originsFlow(s.Val) {
					o = p.canon(o)
					same := false
					if ld, isLd := o.(*ssa.UnOp); isLd && ld.Op == token.MUL {
						if ib, isIA := ld.X.(*ssa.IndexAddr); isIA && p.canon(ib.Index) == p.canon(ia.Index) && isLoadOf(p.canon(ib.X), "conns", "Conns") && sameBase(p, ib.X, ia.X) {
							same = true
						}
					}
					dialed := false
					if e, isX := o.(*ssa.Extract); isX && e.Index == 0 {
						if dc, isC := e.Tuple.(*ssa.Call); isC && calleeName(dc) == "(*Transport).newPersistConn" {
							dialed, _ = p.guardedBy(dc, negate(matchAlive(p)))
						}
					}
					if !same && !dialed {
						all = false
					}
				}
				g = all
			}
			c.Ob("R-DIAL-GUARD", sc.key(gc, "in-place replacement only of a dead entry"), p.InstrPos(s), g, ifs(!g, "an active-list slot is overwritten although its connection may be alive (the old connection leaks open)"))
		}
	}

	// ---- R-ATOMIC-POOL / R-FRESH-LOOKUP (check-then-act)
	c.Rule("R-ATOMIC-POOL", "in getConn every pool read, liveness test and dial lies in the same critical section of Transport.connsMu as every pool update it can reach (no unlock between deciding and acting), and every dial happens with the lock held", 6)
	if gc != nil {
		ls := a.Locks()
		isPoolRead := func(in ssa.Instruction) bool {
			if v, ok := in.(ssa.Value); ok {
				for _, fr := range []FieldRef{{"Transport", "conns"}, {"Transport", "idleConns"}, {"conns", "Conns"}, {"persistConn", "alive"}} {
					if isLoadOf(v, fr.Struct, fr.Field) {
						return true
					}
				}
			}
			return isCallTo(in, "(*connQueue).Length", "(*connQueue).Dequeue", "(*conns).Cursor", "(*Transport).newPersistConn")
		}
		isPoolWrite := func(in ssa.Instruction) bool {
			switch x := in.(type) {
			case *ssa.MapUpdate:
				return isLoadOf(p.canon(x.Map), "Transport", "conns") || isLoadOf(p.canon(x.Map), "Transport", "idleConns")
			case *ssa.Store:
				if ia, ok := x.Addr.(*ssa.IndexAddr); ok && isLoadOf(p.canon(ia.X), "conns", "Conns") {
					return true
				}
			}
			return isCallTo(in, "(*conns).Append")
		}
		var reads, writes []ssa.Instruction
		eachInstr(gc, func(in ssa.Instruction) {
			if isPoolRead(in) {
				reads = append(reads, in)
			}
			if isPoolWrite(in) {
				writes = append(writes, in)
			}
		})
		for _, w := range writes {
			ok := true
			var badR ssa.Instruction
			for _, r := range reads {
				if p.canReach(r, w, nil) && !ls.SameSection(r, w, "Transport.connsMu") {
					ok, badR = false, r
				}
			}
			det := ""
			if !ok {
				det = "the pool is updated in a different critical section than the one in which " + p.At(badR) + " decided it (the lock is released in between): concurrent callers all act on the same stale decision and exceed the limit / leak connections"
			}
			c.Ob("R-ATOMIC-POOL", sc.key(gc, "decide and update in one section"), p.InstrPos(w), ok, det)
		}
		for _, d := range callsIn(gc, "(*Transport).newPersistConn") {
			held := ls.Held(d.(ssa.Instruction), "Transport.connsMu")
			c.Ob("R-ATOMIC-POOL", sc.key(gc, "dial under connsMu"), p.InstrPos(d), held, ifs(!held, "getConn dials with the pool lock released: several callers dial for the same slot"))
		}
	}
	ruleFreshLookup(c, a, "R-FRESH-LOOKUP")

	// ---- R-IDLE-CAP
	c.Rule("R-IDLE-CAP", "connQueue.Enqueue refuses at length == capacity; every queue is created with capacity t.MaxIdleConnsPerHost; a connection rejected by Enqueue is closed (Enqueue on a queue created in the same function is exempt)", 4)
	if enq := p.Fn("(*connQueue).Enqueue"); enq == nil {
		c.Undecided("R-IDLE-CAP", "(*connQueue).Enqueue not found")
	} else {
		for _, s := range p.fieldStoresIn(enq, "connQueue", "length") {
			g, _ := p.guardedBy(s, func(cond ssa.Value) (bool, bool) {
				b, ok := cond.(*ssa.BinOp)
				if !ok {
					return false, false
				}
				l, r := p.canon(stripConv(b.X)), p.canon(stripConv(b.Y))
				lc := isLoadOf(l, "connQueue", "length") && isLoadOf(r, "connQueue", "capacity")
				rc := isLoadOf(r, "connQueue", "length") && isLoadOf(l, "connQueue", "capacity")
				if !lc && !rc {
					return false, false
				}
				switch b.Op {
				case token.EQL:
					return true, false // room on the false edge
				case token.NEQ:
					return true, true
				case token.GEQ:
					return lc, false
				case token.LSS:
					return lc, true
				}
				return false, false
			})
			c.Ob("R-IDLE-CAP", sc.key(enq, "length++ only below capacity"), p.InstrPos(s), g, ifs(!g, "Enqueue grows the idle queue without testing length against capacity: more than MaxIdleConnsPerHost idle connections"))
		}
	}
	for _, fn := range p.Fns {
		for _, nq := range callsIn(fn, "newConnQueue") {
			ok := isLoadOf(p.canon(nq.Common().Args[0]), "Transport", "MaxIdleConnsPerHost")
			c.Ob("R-IDLE-CAP", sc.key(fn, "newConnQueue(t.MaxIdleConnsPerHost)"), p.InstrPos(nq), ok, ifs(!ok, "idle queue created with capacity "+describe(nq.Common().Args[0])+" instead of t.MaxIdleConnsPerHost"))
		}
	}
	ruleTracked(c, a, "R-TRACKED")
	ruleEnqueueOrClose(c, a, "R-IDLE-CAP")

	ruleMovePair(c, a, "R-MOVE-PAIR")

	// ---- R-NORMALISE
	c.Rule("R-NORMALISE", "Transport.MaxConnsPerHost / MaxIdleConnsPerHost are written only inside the sync.Once initialiser, under `< 1 → default` and `idle > conns → clamp to conns`", 3)
	clampSeen := false
	for _, f := range []string{"MaxConnsPerHost", "MaxIdleConnsPerHost"} {
		for _, s := range p.storesToField("Transport", f) {
			st := s.Instr.(*ssa.Store)
			if baseIsLocalAlloc(s.Base) {
				continue
			}
			inOnce := len(boundOnceSites(p, s.Fn)) > 0
			if par := s.Fn.Parent(); par != nil {
				eachInstr(par, func(in ssa.Instruction) {
					if cc, ok := in.(*ssa.Call); ok && calleeName(cc) == "(*sync.Once).Do" {
						if mc, ok := cc.Call.Args[1].(*ssa.MakeClosure); ok && mc.Fn == s.Fn {
							inOnce = true
						}
					}
				})
			}
			// guard: field < 1, or (idle) field > MaxConnsPerHost with value MaxConnsPerHost
			lt1, _ := p.guardedBy(st, func(cond ssa.Value) (bool, bool) {
				b, ok := cond.(*ssa.BinOp)
				if !ok || !isLoadOf(p.canon(b.X), "Transport", f) {
					return false, false
				}
				k, isK := constInt(b.Y)
				if isK && ((b.Op == token.LSS && k == 1) || (b.Op == token.LEQ && k == 0)) {
					return true, true
				}
				return false, false
			})
			clamp := false
			if f == "MaxIdleConnsPerHost" && isLoadOf(p.canon(st.Val), "Transport", "MaxConnsPerHost") {
				clamp, _ = p.guardedBy(st, func(cond ssa.Value) (bool, bool) {
					b, ok := cond.(*ssa.BinOp)
					if !ok {
						return false, false
					}
					if b.Op == token.GTR && isLoadOf(p.canon(b.X), "Transport", "MaxIdleConnsPerHost") && isLoadOf(p.canon(b.Y), "Transport", "MaxConnsPerHost") {
						return true, true
					}
					return false, false
				})
				if clamp {
					clampSeen = true
				}
			}
			ok := inOnce && (lt1 || clamp)
			c.Ob("R-NORMALISE", sc.key(s.Fn, "Transport."+f+"="), p.InstrPos(st), ok, ifs(!ok, "limit field written outside the once-initialiser or without the `< 1` / clamp guard"))
		}
	}
	ruleDefaults(c, a, "R-NORMALISE", "MaxConnsPerHost", "MaxIdleConnsPerHost")
	ruleNormaliseOrder(c, a, "R-NORMALISE")
	ruleReplaceSlot(c, a, "R-REPLACE-SLOT")
	c.Ob("R-NORMALISE", "once#idle limit clamped to connection limit", token.NoPos, clampSeen, ifs(!clampSeen, "MaxIdleConnsPerHost is never clamped to MaxConnsPerHost: the idle queue alone can exceed the connection limit"))

	// ---- dead ⇒ closed
	c.Rule("R-DEAD-CLOSED", "storing persistConn.alive = false is followed on every path by closing that connection", 1)
	for _, s := range p.storesToField("persistConn", "alive") {
		st := s.Instr.(*ssa.Store)
		if cst, ok := st.Val.(*ssa.Const); !ok || constStr(cst) != "false" {
			continue
		}
		_, tr, okp := p.mustPass(s.Fn, st, func(x ssa.Instruction) bool { return isCallTo(x, "(*Conn).Close") })
		c.Ob("R-DEAD-CLOSED", sc.key(s.Fn, "alive=false then Close"), p.InstrPos(st), okp, ifs(!okp, "a connection marked dead is not closed on path "+p.lineTrail(tr)+": it stays open and uncounted"))
	}
}

func runC14(c *Check, a *Analysis) {
	p := c.P
	ruleLockBalance(c, a, "R-LOCK-BALANCE", "Transport.connsMu", "persistConn.mu")
	ls := a.Locks()
	sc := siteCounter{}
	gc := p.Fn("(*Transport).getConn")
	np := p.Fn("(*Transport).newPersistConn")
	if gc == nil || np == nil {
		c.Rule("R-ADDR", "anchors", 0)
		c.Undecided("R-ADDR", "getConn/newPersistConn not found")
		return
	}
	isParamNamed := func(v ssa.Value, fn *ssa.Function, name string) bool {
		v = p.canon(v)
		prm, ok := v.(*ssa.Parameter)
		return ok && prm.Parent() == fn && prm.Name() == name
	}
	addrParam := func(fn *ssa.Function) string {
		for _, prm := range fn.Params {
			if prm.Name() == "addr" {
				return "addr"
			}
		}
		return ""
	}
	// ---- R-ADDR
	c.Rule("R-ADDR", "dial arguments, pool map keys and container addresses originate from the addr parameter; housekeeping files connections under the container's own addr", 8)
	if addrParam(gc) == "" || addrParam(np) == "" {
		c.Undecided("R-ADDR", "no addr parameter")
	}
	eachInstrCtx(gc, func(in, _ ssa.Instruction, res func(ssa.Value) ssa.Value) {
		d, isC := in.(ssa.CallInstruction)
		if !isC || calleeName(d) != "(*Transport).newPersistConn" {
			return
		}
		// inside a helper the argument is read as what getConn passed on this call chain
		ok := isParamNamed(res(d.Common().Args[1]), gc, "addr")
		c.Ob("R-ADDR", sc.key(gc, "newPersistConn(addr)"), p.InstrPos(d), ok, ifs(!ok, "dialing "+describe(d.Common().Args[1])+" instead of the requested address"))
	})
	eachInstr(np, func(in ssa.Instruction) {
		cc, ok := in.(*ssa.Call)
		if !ok || cc.Common().IsInvoke() || cc.Common().StaticCallee() != nil {
			return
		}
		callee := p.canon(cc.Common().Value)
		for _, f := range []string{"Dial", "DialWithOptions"} {
			if isLoadOf(callee, "Transport", f) {
				okA := false
				for _, arg := range cc.Common().Args {
					if isParamNamed(arg, np, "addr") {
						okA = true
					}
				}
				c.Ob("R-ADDR", sc.key(np, "t."+f+"(…addr…)"), p.InstrPos(in), okA, ifs(!okA, "the dial function is not given the requested address"))
			}
		}
	})
	for _, tbl := range []string{"conns", "idleConns"} {
		for _, op := range p.mapOps("Transport", tbl) {
			if op.Key == nil || (op.Kind != "update" && op.Kind != "lookup" && op.Kind != "delete") {
				continue
			}
			ok := true
			for _, o := range p.origins(op.Key) {
				o = p.canon(o)
				switch {
				case isParamNamed(o, op.Fn, "addr"):
				case isLoadOf(o, "conns", "addr"), isLoadOf(o, "connQueue", "addr"):
				default:
					ok = false
				}
			}
			c.Ob("R-ADDR", sc.key(op.Fn, tbl+"["+op.Kind+"] key"), p.InstrPos(op.Instr), ok, ifs(!ok, "pool map "+tbl+" keyed by "+describe(op.Key)+" (must be the requested address or the container's own addr)"))
		}
	}
	for _, s := range p.storesToField("conns", "addr") {
		ok := isParamNamed(s.Instr.(*ssa.Store).Val, s.Fn, "addr")
		c.Ob("R-ADDR", sc.key(s.Fn, "conns.addr="), p.InstrPos(s.Instr), ok, ifs(!ok, "active list labelled with an address other than the requested one"))
	}
	for _, fn := range p.Fns {
		for _, nq := range callsIn(fn, "newConnQueue") {
			arg := p.canon(nq.Common().Args[1])
			ok := isLoadOf(arg, "conns", "addr") || isParamNamed(arg, fn, "addr")
			c.Ob("R-ADDR", sc.key(fn, "newConnQueue(_, addr)"), p.InstrPos(nq), ok, ifs(!ok, "idle queue labelled with "+describe(arg)))
		}
	}

	// ---- R-ALIVE-RECHECK
	c.Rule("R-ALIVE-RECHECK", "every pooled connection handed out by getConn (Dequeue result or active-list element) reaches a return only through a load of its alive flag under persistConn.mu; the not-alive edge reaches a return only through a fresh dial (or an error return)", 3)
	isAliveLoad := func(x ssa.Instruction) bool {
		v, ok := x.(ssa.Value)
		return ok && isLoadOf(v, "persistConn", "alive") && ls.Held(x, "persistConn.mu")
	}
	var sources []ssa.Instruction
	for _, d := range callsIn(gc, "(*connQueue).Dequeue") {
		sources = append(sources, d.(ssa.Instruction))
	}
	for _, op := range p.mapOps("conns", "Conns") {
		if op.Kind == "index" && p.sameFn(op.Fn, gc) {
			// only loads of elements (not stores into a slot)
			if ia, ok := op.Instr.(*ssa.IndexAddr); ok && ia.Referrers() != nil {
				for _, r := range *ia.Referrers() {
					if u, ok := r.(*ssa.UnOp); ok && u.Op == token.MUL {
						sources = append(sources, u)
					}
				}
			}
		}
	}
	if len(sources) < 3 {
		c.Undecided("R-ALIVE-RECHECK", fmt.Sprintf("expected three pooled hand-out sites in getConn, found %d", len(sources)))
	}
	for _, s := range sources {
		_, tr, found := p.reachFrom(gc, s, isReturnLike, isAliveLoad)
		c.Ob("R-ALIVE-RECHECK", sc.key(gc, "pooled hand-out re-checks alive"), p.InstrPos(s), !found, ifs(found, "a pooled connection is returned without re-checking its alive flag under its lock (path "+p.lineTrail(tr)+"): a connection known to be dead (parked by housekeeping) is handed out again and every call on it fails with ErrShutdown"))
	}
	deadEdges, nd := p.guardEdges(gc, negate(matchAlive(p)))
	if nd == 0 {
		c.Undecided("R-ALIVE-RECHECK", "no alive test in getConn")
	}
	for e := range deadEdges {
		_, tr, found := p.reachFromBlock(gc, e.to, isReturnLike, func(x ssa.Instruction) bool { return isCallTo(x, "(*Transport).newPersistConn") }, nil)
		c.Ob("R-ALIVE-RECHECK", sc.key(gc, "dead ⇒ re-dial"), p.InstrPos(e.to.Instrs[0]), !found, ifs(found, "a connection found not alive is still returned without re-dialing ("+p.lineTrail(tr)+")"))
	}

	// ---- R-MARK-DEAD
	c.Rule("R-MARK-DEAD", "in every Transport call form the call on the pooled connection is followed on every path by checkPersistConnErr; checkPersistConnErr clears alive under persistConn.mu and closes when the error is ErrShutdown", 8)
	nforms := 0
	for _, fn := range p.Fns {
		if fn.Parent() != nil || fn.Signature.Recv() == nil || namedOf(fn.Signature.Recv().Type()) != "Transport" {
			continue
		}
		eachInstr(fn, func(in ssa.Instruction) {
			cc, ok := in.(*ssa.Call)
			if !ok {
				return
			}
			n := calleeName(cc)
			if !strings.HasPrefix(n, "(*Conn).") {
				return
			}
			m := strings.TrimPrefix(n, "(*Conn).")
			switch m {
			case "Call", "Go", "RoundTrip", "CallWithContext", "NewStream", "Ping":
			default:
				return
			}
			if len(callsIn(fn, "(*Transport).getConn")) == 0 {
				return // not a call form: housekeeping pings work on connections taken from the pool tables
			}
			nforms++
			_, tr, okp := p.mustPass(fn, in, func(x ssa.Instruction) bool { return isCallTo(x, "checkPersistConnErr") })
			c.Ob("R-MARK-DEAD", sc.key(fn, "conn."+m+" then checkPersistConnErr"), p.InstrPos(in), okp, ifs(!okp, "the result of conn."+m+" is not inspected on path "+p.lineTrail(tr)+": a dead connection stays marked alive"))
			// the inspected error is the call's own
			for _, chk := range callsIn(fn, "checkPersistConnErr") {
				okE := false
				for _, o := range p.origins(chk.Common().Args[0]) {
					o = p.canon(o)
					if o == ssa.Value(cc) {
						okE = true
					}
					if e, isE := o.(*ssa.Extract); isE && e.Tuple == ssa.Value(cc) {
						okE = true
					}
					if isLoadOf(o, "Call", "Error") {
						okE = true
					}
				}
				c.Ob("R-MARK-DEAD", sc.key(fn, "checkPersistConnErr(err of the call)"), p.InstrPos(chk), okE, ifs(!okE, "checkPersistConnErr inspects "+describe(chk.Common().Args[0])+" instead of the call's error"))
			}
		})
	}
	if nforms < 6 {
		c.Undecided("R-MARK-DEAD", fmt.Sprintf("expected six Transport call forms, found %d", nforms))
	}
	if chk := p.Fn("checkPersistConnErr"); chk == nil {
		c.Undecided("R-MARK-DEAD", "checkPersistConnErr not found")
	} else {
		edges, n := p.guardEdges(chk, func(cond ssa.Value) (bool, bool) {
			b, ok := cond.(*ssa.BinOp)
			if !ok || (b.Op != token.EQL && b.Op != token.NEQ) {
				return false, false
			}
			if isGlobalLoad(b.X, "ErrShutdown") || isGlobalLoad(b.Y, "ErrShutdown") {
				return true, b.Op == token.EQL
			}
			return false, false
		})
		if n == 0 {
			c.Ob("R-MARK-DEAD", sc.key(chk, "tests ErrShutdown"), chk.Pos(), false, "checkPersistConnErr does not compare the error with ErrShutdown")
		}
		for e := range edges {
			okStore := false
			for _, s := range p.fieldStoresIn(chk, "persistConn", "alive") {
				if cst, isC := s.Val.(*ssa.Const); isC && constStr(cst) == "false" && ls.Held(s, "persistConn.mu") {
					if _, _, miss := p.reachFromBlock(chk, e.to, isReturnLike, func(x ssa.Instruction) bool { return x == ssa.Instruction(s) }, nil); !miss {
						okStore = true
					}
				}
			}
			_, _, missClose := p.reachFromBlock(chk, e.to, isReturnLike, func(x ssa.Instruction) bool { return isCallTo(x, "(*Conn).Close") }, nil)
			c.Ob("R-MARK-DEAD", sc.key(chk, "ErrShutdown ⇒ alive=false under lock + Close"), p.InstrPos(e.to.Instrs[0]), okStore && !missClose, ifs(!(okStore && !missClose), "on ErrShutdown the connection is not marked dead under its lock and closed on every path"))
		}
	}

	// ---- R-ERRDIAL
	ruleDialResult(c, a, "R-DIAL-RESULT")
	ruleReplaceSlot(c, a, "R-REPLACE-SLOT")
	ruleFreshLookup(c, a, "R-FRESH-LOOKUP")
	ruleMarkDeadExact(c, a, "R-MARK-DEAD")
	ruleRefusalValue(c, a, "R-MARK-DEAD")
	c.Rule("R-ERRDIAL", "every non-nil error returned by newPersistConn, and by getConn for an empty address, is the ErrDial value (getConn otherwise forwards newPersistConn's error)", 3)
	eachInstr(np, func(in ssa.Instruction) {
		r, ok := in.(*ssa.Return)
		if !ok || len(r.Results) < 2 {
			return
		}
		okE := true
		for _, o := range p.origins(r.Results[1]) {
			o = p.canon(o)
			if nilConst(o) || isGlobalLoad(o, "ErrDial") {
				continue
			}
			okE = false
		}
		c.Ob("R-ERRDIAL", sc.key(np, "return err"), p.InstrPos(in), okE, ifs(!okE, "newPersistConn returns "+describe(r.Results[1])+" instead of ErrDial: the Client's failure detection (err == ErrDial) no longer recognises an unreachable target"))
	})
	eachInstr(gc, func(in ssa.Instruction) {
		r, ok := in.(*ssa.Return)
		if !ok || len(r.Results) < 2 || len(in.Block().Preds) == 0 && in.Block() != gc.Blocks[0] {
			return
		}
		okE := true
		for _, o := range p.origins(r.Results[1]) {
			o = p.canon(o)
			if nilConst(o) || isGlobalLoad(o, "ErrDial") {
				continue
			}
			if e, isE := o.(*ssa.Extract); isE {
				if cc, isC := e.Tuple.(*ssa.Call); isC && calleeName(cc) == "(*Transport).newPersistConn" {
					continue
				}
			}
			okE = false
		}
		c.Ob("R-ERRDIAL", sc.key(gc, "return err"), p.InstrPos(in), okE, ifs(!okE, "getConn returns an error that is neither ErrDial nor newPersistConn's"))
	})
}

func runC15(c *Check, a *Analysis) {
	p := c.P
	ruleLockBalance(c, a, "R-LOCK-BALANCE", "Transport.connsMu", "persistConn.mu")
	ls := a.Locks()
	sc := siteCounter{}
	ruleRetireTiming(c, a, "R-RETIRE-TIMING")
	ruleConnCloseReleases(c, a, "R-CLOSE-RELEASES")
	c.Rule("R-BUSY-GUARD", "in housekeeping and CloseIdleConnections every Close / removal of an active-list entry is dominated by NumCalls() == 0 on that connection", 4)
	for _, name := range []string{"(*Transport).run", "(*Transport).CloseIdleConnections"} {
		fn := p.Fn(name)
		if fn == nil {
			c.Undecided("R-BUSY-GUARD", name+" not found")
			continue
		}
		fromActive := func(v ssa.Value) bool {
			for _, o := range p.origins(v) {
				o = p.canon(o)
				if u, ok := o.(*ssa.UnOp); ok && u.Op == token.MUL {
					if ia, ok := u.X.(*ssa.IndexAddr); ok && isLoadOf(p.canon(ia.X), "conns", "Conns") {
						return true
					}
				}
			}
			return false
		}
		n := 0
		eachInstr(fn, func(in ssa.Instruction) {
			cc, ok := in.(*ssa.Call)
			if !ok {
				return
			}
			switch calleeName(cc) {
			case "(*Conn).Close":
				recv := p.canon(cc.Common().Args[0])
				_, base, isF := fieldOfLoad(recv) // pc.Conn
				if !isF || !fromActive(base) {
					return
				}
			case "(*conns).Delete":
			default:
				return
			}
			n++
			g, _ := p.guardedBy(in, matchNumCallsZero(p))
			c.Ob("R-BUSY-GUARD", sc.key(fn, calleeName(cc)+" only when NumCalls()==0"), p.InstrPos(in), g, ifs(!g, "an active connection is closed / retired without checking that it has no outstanding call or open stream"))
		})
		if n == 0 {
			c.Undecided("R-BUSY-GUARD", "no Close/Delete of active entries found in "+name)
		}
		// the NumCalls test is on the very connection that is closed
		for _, nc := range callsIn(fn, "(*Conn).NumCalls") {
			recv := p.canon(nc.Common().Args[0])
			_, base, isF := fieldOfLoad(recv)
			ok := isF && fromActive(base)
			c.Ob("R-BUSY-GUARD", sc.key(fn, "NumCalls of the examined entry"), p.InstrPos(nc), ok, ifs(!ok, "NumCalls is asked of a connection other than the active-list entry being retired"))
		}
	}

	ruleDefaults(c, a, "R-RETIRE-TIMING", "KeepAlive", "IdleConnTimeout")
	c.Rule("R-CLOSE-ALL", "Transport.Close (past its once/running guards) ranges over conns and idleConns closing every element, replaces both maps and closes t.done on every path; run exits on <-t.done; the counted loops over pool containers start at element 0 and the drain of an idle queue is not skipped when it is non-empty", 6)
	ruleDrainLoops(c, a, "R-CLOSE-ALL")
	ruleShrinkingBound(c, a, "R-CLOSE-ALL")
	ruleFailedOpenUnregisters(c, a, "R-NUMCALLS")
	ruleCloseAckUnregisters(c, a, "R-NUMCALLS")
	cl := p.Fn("(*Transport).Close")
	if cl == nil {
		c.Undecided("R-CLOSE-ALL", "(*Transport).Close not found")
	} else {
		edges, n := p.guardEdges(cl, matchBoolField("Transport", "running"))
		if n == 0 {
			c.Undecided("R-CLOSE-ALL", "no running test in Transport.Close")
		}
		for e := range edges {
			for _, tbl := range []string{"conns", "idleConns"} {
				var rng ssa.Instruction
				for _, op := range p.mapOps("Transport", tbl) {
					if op.Kind == "range" && p.sameFn(op.Fn, cl) {
						rng = op.Instr
					}
				}
				ok := rng != nil
				if ok {
					_, _, miss := p.reachFromBlock(cl, e.to, isReturnLike, func(x ssa.Instruction) bool { return x == rng }, nil)
					ok = !miss
				}
				c.Ob("R-CLOSE-ALL", sc.key(cl, "range "+tbl), cl.Pos(), ok, ifs(!ok, "Transport.Close does not visit every entry of "+tbl+" on every path"))
				reset := false
				for _, s := range p.fieldStoresIn(cl, "Transport", tbl) {
					if _, isMk := p.canon(s.Val).(*ssa.MakeMap); isMk {
						if _, _, miss := p.reachFromBlock(cl, e.to, isReturnLike, func(x ssa.Instruction) bool { return x == ssa.Instruction(s) }, nil); !miss {
							reset = true
						}
					}
				}
				c.Ob("R-CLOSE-ALL", sc.key(cl, "reset "+tbl), cl.Pos(), reset, ifs(!reset, "Transport.Close leaves closed connections in "+tbl))
			}
			_, _, miss := p.reachFromBlock(cl, e.to, isReturnLike, func(x ssa.Instruction) bool {
				cc, ok := x.(*ssa.Call)
				return ok && calleeName(cc) == "builtin close" && isLoadOf(p.canon(cc.Call.Args[0]), "Transport", "done")
			}, nil)
			c.Ob("R-CLOSE-ALL", sc.key(cl, "close(t.done)"), cl.Pos(), !miss, ifs(miss, "Transport.Close does not close t.done on every path: the housekeeping goroutine never exits"))
		}
		nClose := 0
		for _, cc := range callsIn(cl, "(*Conn).Close") {
			if p.inLoop(cc.(ssa.Instruction)) && ls.Held(cc.(ssa.Instruction), "Transport.connsMu") {
				nClose++
			}
		}
		c.Ob("R-CLOSE-ALL", sc.key(cl, "Close() in both loops"), cl.Pos(), nClose >= 2, ifs(nClose < 2, fmt.Sprintf("only %d loop(s) in Transport.Close close connections (active and idle expected)", nClose)))
	}
	if run := p.Fn("(*Transport).run"); run == nil {
		c.Undecided("R-CLOSE-ALL", "(*Transport).run not found")
	} else {
		ok := false
		eachInstr(run, func(in ssa.Instruction) {
			sel, isS := in.(*ssa.Select)
			if !isS {
				return
			}
			for i, st := range sel.States {
				if st.Dir == 2 && isLoadOf(p.canon(st.Chan), "Transport", "done") {
					// the arm reaches a return without looping back to the select
					idx := i
					edges, _ := p.guardEdges(run, func(cond ssa.Value) (bool, bool) {
						b, isB := cond.(*ssa.BinOp)
						if !isB || b.Op != token.EQL {
							return false, false
						}
						e, isE := b.X.(*ssa.Extract)
						k, isK := constInt(b.Y)
						return isE && e.Tuple == ssa.Value(sel) && e.Index == 0 && isK && int(k) == idx, true
					})
					for e := range edges {
						if _, _, found := p.reachFromBlock(run, e.to, isReturnLike, func(x ssa.Instruction) bool { return x == in }, nil); found {
							ok = true
						}
					}
				}
			}
		})
		c.Ob("R-CLOSE-ALL", sc.key(run, "exit on <-t.done"), run.Pos(), ok, ifs(!ok, "the housekeeping loop has no exit arm on t.done"))
	}

	// a connection that drops out of both pool structures without being closed is never reclaimed
	ruleFreshLookup(c, a, "R-FRESH-LOOKUP")
	ruleTracked(c, a, "R-TRACKED")
	ruleMovePair(c, a, "R-MOVE-PAIR")
	ruleEnqueueOrClose(c, a, "R-IDLE-CAP")
	c.Rule("R-NUMCALLS", "Conn.NumCalls reads len(pending) and len(streams) under Conn.mutex and its result has both among its origins", 2)
	if nc := p.Fn("(*Conn).NumCalls"); nc == nil {
		c.Undecided("R-NUMCALLS", "(*Conn).NumCalls not found")
	} else {
		have := map[string]bool{}
		eachInstr(nc, func(in ssa.Instruction) {
			r, ok := in.(*ssa.Return)
			if !ok {
				return
			}
			for _, res := range r.Results {
				for _, o := range p.origins(res) {
					if cc, ok := stripConv(p.canon(o)).(*ssa.Call); ok && calleeName(cc) == "builtin len" {
						for _, t := range []string{"pending", "streams"} {
							if isLoadOf(p.canon(cc.Call.Args[0]), "Conn", t) && ls.Held(cc, "Conn.mutex") {
								have[t] = true
							}
						}
					}
				}
			}
		})
		for _, t := range []string{"pending", "streams"} {
			c.Ob("R-NUMCALLS", "(*Conn).NumCalls#counts "+t, nc.Pos(), have[t], ifs(!have[t], "NumCalls ignores Conn."+t+": housekeeping can close a connection with outstanding "+t))
		}
	}
	ruleNumCallsMax(c, a, "R-NUMCALLS")
}

// ruleFreshLookup is shared by C13, C15 and C20.
func ruleFreshLookup(c *Check, a *Analysis, rule string) {
	p := c.P
	sc := siteCounter{}
	c.Rule(rule, "a fresh container is stored into a pool map only under a lookup miss of that map that is re-evaluated before every such store (no path from one insertion to the next avoids the lookup)", 2)
	for _, tbl := range []string{"conns", "idleConns"} {
		for _, op := range p.mapOps("Transport", tbl) {
			if op.Kind != "update" {
				continue
			}
			fresh := false
			for _, o := range p.origins(op.Val) {
				o = p.canon(o)
				if _, isAlloc := o.(*ssa.Alloc); isAlloc {
					fresh = true
				}
				if cc, isC := o.(*ssa.Call); isC && calleeName(cc) == "newConnQueue" {
					fresh = true
				}
			}
			if !fresh {
				continue
			}
			fn := op.Fn
			var lk ssa.Instruction
			eachInstr(fn, func(in ssa.Instruction) {
				l, ok := in.(*ssa.Lookup)
				if !ok || !l.CommaOk || !isLoadOf(p.canon(l.X), "Transport", tbl) {
					return
				}
				g, _ := p.guardedBy(op.Instr, func(cond ssa.Value) (bool, bool) {
					e, ok := p.canon(cond).(*ssa.Extract)
					if !ok || e.Index != 1 || e.Tuple != ssa.Value(l) {
						return false, false
					}
					return true, false
				})
				if g {
					lk = in
				}
			})
			ok := lk != nil
			det := ""
			if lk == nil {
				det = "a fresh container is stored into Transport." + tbl + " without a lookup miss guarding it: an existing container (and its connections) is overwritten and leaked"
			} else if _, tr, again := p.reachFrom(fn, op.Instr, func(x ssa.Instruction) bool { return x == op.Instr }, func(x ssa.Instruction) bool { return x == lk }); again {
				ok = false
				det = "the lookup that justifies this insertion is not re-evaluated between two insertions (path " + p.lineTrail(tr) + "): the second one overwrites the container just stored and its connections are leaked open"
			}
			c.Ob(rule, sc.key(fn, "Transport."+tbl+"[addr]=fresh container"), p.InstrPos(op.Instr), ok, det)
		}
	}

}

// ruleMovePair is shared by C13, C15 and C20.
func ruleMovePair(c *Check, a *Analysis, rule string) {
	p := c.P
	sc := siteCounter{}
	// ---- R-MOVE-PAIR
	c.Rule(rule, "every removal from an active list (conns.Delete) is followed on all paths by Enqueue or Close of the removed connection", 2)
	for _, fn := range p.Fns {
		for _, del := range callsIn(fn, "(*conns).Delete") {
			in := del.(ssa.Instruction)
			_, tr, miss := p.reachFrom(fn, in, func(x ssa.Instruction) bool { return isReturnLike(x) || x == in }, func(x ssa.Instruction) bool {
				cc, ok := x.(*ssa.Call)
				if !ok {
					return false
				}
				n := calleeName(cc)
				return n == "(*Conn).Close" || n == "(*connQueue).Enqueue"
			})
			c.Ob(rule, sc.key(fn, "Delete then Enqueue|Close"), p.InstrPos(in), !miss, ifs(miss, "a connection removed from the active list is neither parked nor closed on path "+p.lineTrail(tr)))
		}
	}

}

// ruleEnqueueOrClose is shared by C13, C15 and C20: a connection rejected by
// the idle queue is closed.
func ruleEnqueueOrClose(c *Check, a *Analysis, rule string) {
	p := c.P
	sc := siteCounter{}
	if _, ok := c.rules[rule]; !ok {
		c.Rule(rule, "a connection that the idle queue rejects (Enqueue returns false) is closed on every path; an Enqueue on a queue created in the same function cannot be rejected", 2)
	}
	for _, fn := range p.Fns {
		for _, eq := range callsIn(fn, "(*connQueue).Enqueue") {
			in := eq.(ssa.Instruction)
			recvFresh := false
			for _, o := range p.origins(eq.Common().Args[0]) {
				if cc, ok := p.canon(o).(*ssa.Call); ok && calleeName(cc) == "newConnQueue" && cc.Parent() == eq.Parent() {
					recvFresh = true
				} else {
					recvFresh = false
					break
				}
			}
			if recvFresh {
				c.Ob(rule, sc.key(fn, "Enqueue on fresh queue"), p.InstrPos(in), true, "")
				continue
			}
			// rejected connection is closed: on the edge where the result is false a Close of the argument follows
			res := eq.Value()
			okClose := false
			edges, n := p.guardEdges(fn, func(cond ssa.Value) (bool, bool) {
				if p.canon(cond) == ssa.Value(res) {
					return true, false // rejected on the false edge
				}
				return false, false
			})
			if n > 0 {
				okClose = true
				for e := range edges {
					_, _, miss := p.reachFromBlock(fn, e.to, func(x ssa.Instruction) bool { return isReturnLike(x) || x == in }, func(x ssa.Instruction) bool {
						cc, ok := x.(*ssa.Call)
						return ok && calleeName(cc) == "(*Conn).Close"
					}, nil)
					if miss {
						okClose = false
					}
				}
			}
			c.Ob(rule, sc.key(fn, "rejected by Enqueue ⇒ Close"), p.InstrPos(in), okClose, ifs(!okClose, "a connection that does not fit into the idle queue is neither queued nor closed (leaked, uncounted)"))
		}
	}
}

// ruleTracked is shared by C13 and C15: every connection getConn hands out is
// entered in the active list, the list methods add / remove what they are asked
// to, and a list is dropped from the pool map only when it is empty.
func ruleTracked(c *Check, a *Analysis, rule string) {
	p := c.P
	sc := siteCounter{}
	c.Rule(rule, "every dialed or dequeued connection that getConn returns is first entered into the address's active list; (*conns).Append stores append(Conns, pc); (*conns).Delete removes exactly the indexed element; delete(t.conns, addr) / delete(t.idleConns, addr) only for an empty container", 8)
	gc := p.Fn("(*Transport).getConn")
	if gc == nil {
		c.Undecided(rule, "getConn not found")
		return
	}
	isTrack := func(x ssa.Instruction) bool {
		if isCallTo(x, "(*conns).Append") {
			return true
		}
		if st, ok := x.(*ssa.Store); ok {
			// cs.Conns = append(cs.Conns, pc) written in line
			if fr, _, okf := fieldOfAddr(st.Addr); okf && fr.Struct == "conns" && fr.Field == "Conns" {
				if cc, isC := p.canon(st.Val).(*ssa.Call); isC && calleeName(cc) == "builtin append" && !isRemovalAppend(p, cc) {
					return true
				}
			}
			if ia, ok := st.Addr.(*ssa.IndexAddr); ok && isLoadOf(p.canon(ia.X), "conns", "Conns") {
				return true
			}
			// `return nil, err`: the named result is cleared
			if _, ok := st.Addr.(*ssa.Alloc); ok && nilConst(st.Val) && namedOf(st.Val.Type()) == "persistConn" {
				return true
			}
		}
		if r, ok := x.(*ssa.Return); ok && len(r.Results) > 0 && nilConst(r.Results[0]) {
			return true
		}
		return false
	}
	var sources []ssa.Instruction
	for _, d := range callsIn(gc, "(*connQueue).Dequeue") {
		sources = append(sources, d.(ssa.Instruction))
	}
	for _, d := range callsIn(gc, "(*Transport).newPersistConn") {
		sources = append(sources, d.(ssa.Instruction))
	}
	if len(sources) < 4 {
		c.Undecided(rule, fmt.Sprintf("expected at least four dial / dequeue sites in getConn, found %d", len(sources)))
	}
	for _, s := range sources {
		_, tr, found := p.reachFrom(gc, s, func(x ssa.Instruction) bool { _, ok := x.(*ssa.Return); return ok }, isTrack)
		c.Ob(rule, sc.key(gc, "handed-out connection is listed"), p.InstrPos(s), !found, ifs(found, "a connection obtained here is returned to the caller without being entered in the active list (path "+p.lineTrail(tr)+"): it is not counted against MaxConnsPerHost, every further call dials again, and Transport.Close never closes it"))
	}
	// Append / Delete bodies
	if ap := p.Fn("(*conns).Append"); ap != nil && len(ap.Params) == 2 {
		ok := false
		for _, st := range p.fieldStoresIn(ap, "conns", "Conns") {
			if cc, isC := p.canon(st.Val).(*ssa.Call); isC && calleeName(cc) == "builtin append" && isLoadOf(p.canon(cc.Call.Args[0]), "conns", "Conns") {
				for _, e := range appendedElems(p, cc) {
					if p.canon(e) == ssa.Value(ap.Params[1]) {
						ok = true
					}
				}
			}
		}
		c.Ob(rule, "(*conns).Append#stores append(Conns, pc)", ap.Pos(), ok, ifs(!ok, "Append does not add its argument to the active list"))
	} else {
		// the method may be written in line at its call sites: then some direct growth must exist
		direct := 0
		for _, op := range p.mapOps("conns", "Conns") {
			if op.Kind == "append" && !isRemovalAppend(p, op.Instr) {
				direct++
			}
		}
		if direct == 0 {
			c.Undecided(rule, "(*conns).Append not found and no direct growth of conns.Conns either")
		}
	}
	if del := p.Fn("(*conns).Delete"); del != nil && len(del.Params) == 2 {
		idx := ssa.Value(del.Params[1])
		isIdx := func(v ssa.Value) bool { return p.canon(v) == idx }
		isIdxPlus1 := func(v ssa.Value) bool {
			b, ok := p.canon(v).(*ssa.BinOp)
			if !ok || b.Op != token.ADD {
				return false
			}
			k, isK := constInt(b.Y)
			return isK && k == 1 && isIdx(b.X)
		}
		conns := func(v ssa.Value) bool { return isLoadOf(p.canon(v), "conns", "Conns") }
		var tailOK, headOK, shrinkOK bool
		eachInstr(del, func(in ssa.Instruction) {
			cc, ok := in.(*ssa.Call)
			if !ok {
				return
			}
			switch calleeName(cc) {
			case "builtin copy":
				d, okd := p.canon(cc.Call.Args[0]).(*ssa.Slice)
				s, oks := p.canon(cc.Call.Args[1]).(*ssa.Slice)
				if okd && oks && conns(d.X) && conns(s.X) && d.Low != nil && isIdx(d.Low) && s.Low != nil && isIdxPlus1(s.Low) && d.High == nil && s.High == nil {
					headOK, tailOK = true, true
				}
			case "builtin append":
				d, okd := p.canon(cc.Call.Args[0]).(*ssa.Slice)
				s, oks := p.canon(cc.Call.Args[1]).(*ssa.Slice)
				if okd && oks && conns(d.X) && conns(s.X) && d.Low == nil && d.High != nil && isIdx(d.High) && s.Low != nil && isIdxPlus1(s.Low) && s.High == nil {
					headOK, tailOK = true, true
					for _, st := range p.fieldStoresIn(del, "conns", "Conns") {
						if p.canon(st.Val) == ssa.Value(cc) {
							shrinkOK = true
						}
					}
				}
			}
		})
		for _, st := range p.fieldStoresIn(del, "conns", "Conns") {
			if sl, ok := p.canon(st.Val).(*ssa.Slice); ok && conns(sl.X) && sl.Low == nil && sl.High != nil {
				if b, ok := p.canon(sl.High).(*ssa.BinOp); ok && b.Op == token.SUB {
					k, isK := constInt(b.Y)
					if cl, isC := p.canon(b.X).(*ssa.Call); isC && calleeName(cl) == "builtin len" && conns(cl.Call.Args[0]) && isK && k == 1 {
						shrinkOK = true
					}
				}
			}
		}
		ok := headOK && tailOK && shrinkOK
		c.Ob(rule, "(*conns).Delete#removes exactly element [cursor]", del.Pos(), ok, ifs(!ok, "Delete does not shift Conns[cursor+1:] onto Conns[cursor:] and shrink the list by one: a connection other than the retired one leaves the list (it is then never closed) while the retired one stays listed"))
	} else {
		c.Undecided(rule, "(*conns).Delete not found")
	}
	// containers leave the pool maps only when empty
	for _, tbl := range []struct{ field, st, inner string }{{"conns", "conns", "Conns"}, {"idleConns", "connQueue", "length"}} {
		for _, op := range p.mapOps("Transport", tbl.field) {
			if op.Kind != "delete" {
				continue
			}
			var m condMatch
			if tbl.field == "conns" {
				m = matchFieldLenZero(p, "conns", "Conns")
			} else {
				m = matchQueueEmpty(p)
			}
			g, _ := p.guardedBy(op.Instr, m)
			// a delete inside a loop that closes every element of the container (Transport.Close, CloseIdleConnections' idle part) is also fine
			if !g && tbl.field == "idleConns" && drainsContainer(p, op) {
				g = true
			}
			c.Ob(rule, sc.key(op.Fn, "delete(t."+tbl.field+", addr) only when empty"), p.InstrPos(op.Instr), g, ifs(!g, "a container that may still hold connections is dropped from t."+tbl.field+": those connections are no longer counted nor closed by Transport.Close"))
		}
	}
}

// matchQueueEmpty recognises cq.Length() == 0.
func matchQueueEmpty(p *Prog) condMatch {
	return func(cond ssa.Value) (bool, bool) {
		b, ok := cond.(*ssa.BinOp)
		if !ok || (b.Op != token.EQL && b.Op != token.NEQ) {
			return false, false
		}
		k, isK := constInt(b.Y)
		cc, isC := p.canon(b.X).(*ssa.Call)
		if !isK || k != 0 || !isC || calleeName(cc) != "(*connQueue).Length" {
			return false, false
		}
		return true, b.Op == token.EQL
	}
}

// drainsContainer: the delete of an idle queue is preceded, in the same function, by a
// counted loop every iteration of which dequeues an element (the queue is emptied by
// construction rather than tested).
func drainsContainer(p *Prog, op MapOp) bool {
	found := false
	eachInstr(op.Fn, func(in ssa.Instruction) {
		if !isCallTo(in, "(*connQueue).Dequeue") || !p.canReach(in, op.Instr, never) {
			return
		}
		b := in.Block()
		// loop header: nearest dominator of b that b can reach again
		for h := b; h != nil; h = h.Idom() {
			var latches []*ssa.BasicBlock
			for _, pr := range h.Preds {
				if h.Dominates(pr) && blockReaches(b, pr) {
					latches = append(latches, pr)
				}
			}
			if len(latches) == 0 {
				continue
			}
			all := true
			for _, l := range latches {
				if !b.Dominates(l) {
					all = false
				}
			}
			if all {
				found = true
			}
			break
		}
	})
	return found
}

func blockReaches(from, to *ssa.BasicBlock) bool {
	seen := map[*ssa.BasicBlock]bool{}
	var walk func(b *ssa.BasicBlock) bool
	walk = func(b *ssa.BasicBlock) bool {
		if b == to {
			return true
		}
		if seen[b] {
			return false
		}
		seen[b] = true
		for _, s := range b.Succs {
			if walk(s) {
				return true
			}
		}
		return false
	}
	return walk(from)
}

// matchOlderThan recognises pc.lastTime.Add(t.<field>).Before(...).
func matchOlderThan(p *Prog, field string) condMatch {
	return func(cond ssa.Value) (bool, bool) {
		bc, ok := p.canon(cond).(*ssa.Call)
		if !ok || calleeName(bc) != "(time.Time).Before" {
			return false, false
		}
		ad, ok := p.canon(bc.Call.Args[0]).(*ssa.Call)
		if !ok || calleeName(ad) != "(time.Time).Add" {
			return false, false
		}
		if !isLoadOf(p.canon(ad.Call.Args[0]), "persistConn", "lastTime") || !isLoadOf(p.canon(ad.Call.Args[1]), "Transport", field) {
			return false, false
		}
		return true, true
	}
}

// ruleRetireTiming (C15): housekeeping retires only what has been unused for KeepAlive
// and closes parked connections only after IdleConnTimeout.
func ruleRetireTiming(c *Check, a *Analysis, rule string) {
	p := c.P
	c.Rule(rule, "in the housekeeping loop a connection leaves the active list only under lastTime+KeepAlive < now, and a parked connection is dequeued and closed only under lastTime+IdleConnTimeout < now", 2)
	run := p.Fn("(*Transport).run")
	if run == nil {
		c.Undecided(rule, "housekeeping loop not found")
		return
	}
	sc := siteCounter{}
	for _, d := range callsIn(run, "(*conns).Delete") {
		g, _ := p.guardedBy(d.(ssa.Instruction), matchOlderThan(p, "KeepAlive"))
		c.Ob(rule, sc.key(run, "retire only after KeepAlive"), p.InstrPos(d), g, ifs(!g, "an active connection is retired without having been unused for KeepAlive"))
	}
	for _, d := range callsIn(run, "(*connQueue).Dequeue") {
		g, _ := p.guardedBy(d.(ssa.Instruction), matchOlderThan(p, "IdleConnTimeout"))
		c.Ob(rule, sc.key(run, "close parked only after IdleConnTimeout"), p.InstrPos(d), g, ifs(!g, "a parked connection is closed without having been idle for IdleConnTimeout"))
	}
}

// ruleDefaults: inside getConn's once-initialiser a non-positive option receives the
// package default of the same name (and only then); the initialiser marks the transport running.
func ruleDefaults(c *Check, a *Analysis, rule string, fields ...string) {
	p := c.P
	gc := p.Fn("(*Transport).getConn")
	if gc == nil {
		c.Undecided(rule, "getConn not found")
		return
	}
	var init *ssa.Function
	// the initialiser: the closure of getConn, or the method handed to once.Do, that sets running
	for _, f := range p.Fns {
		if f == gc {
			continue
		}
		isOnce := topParent(f) == gc || len(boundOnceSites(p, f)) > 0
		if isOnce && len(p.fieldStoresIn(f, "Transport", "running")) > 0 {
			init = f
		}
	}
	if init == nil {
		c.Ob(rule, "once#marks the transport running", gc.Pos(), false, "the once-initialiser never sets Transport.running: Transport.Close takes its not-running early exit and closes nothing")
		return
	}
	for _, f := range fields {
		ok := false
		for _, st := range p.fieldStoresIn(init, "Transport", f) {
			g, isG := p.canon(st.Val).(*ssa.UnOp)
			fromDefault := false
			if isG {
				if gl, isGl := g.X.(*ssa.Global); isGl && gl.Name() == f {
					fromDefault = true
				}
			}
			if k, isK := p.canon(st.Val).(*ssa.Const); isK && k.Value != nil {
				if obj := p.Root.Types.Scope().Lookup(f); obj != nil {
					if cst, isC := obj.(*types.Const); isC && cst.Val().ExactString() == k.Value.ExactString() {
						fromDefault = true
					}
				}
			}
			nonPos, _ := p.guardedBy(st, func(cond ssa.Value) (bool, bool) {
				b, ok := cond.(*ssa.BinOp)
				if !ok || !isLoadOf(p.canon(b.X), "Transport", f) {
					return false, false
				}
				k, isK := constInt(b.Y)
				if isK && ((b.Op == token.LSS && k == 1) || (b.Op == token.LEQ && k == 0)) {
					return true, true
				}
				if isK && ((b.Op == token.GEQ && k == 1) || (b.Op == token.GTR && k == 0)) {
					return true, false
				}
				return false, false
			})
			if fromDefault && nonPos {
				ok = true
			}
		}
		c.Ob(rule, "once#Transport."+f+" defaults when non-positive", init.Pos(), ok, ifs(!ok, "the once-initialiser does not replace a non-positive Transport."+f+" by the package default "+f+" (exactly under that test)"))
	}
	// running = true on every path of the initialiser
	_, tr, okp := p.mustPass(init, nil, func(x ssa.Instruction) bool {
		st, ok := x.(*ssa.Store)
		if !ok {
			return false
		}
		fr, _, okf := fieldOfAddr(st.Addr)
		k, isK := st.Val.(*ssa.Const)
		return okf && fr.Struct == "Transport" && fr.Field == "running" && isK && k.Value != nil && k.Value.ExactString() == "true"
	})
	c.Ob(rule, "once#marks the transport running", init.Pos(), okp, ifs(!okp, "a path through the once-initialiser leaves Transport.running false ("+p.lineTrail(tr)+"): Transport.Close takes its not-running early exit and closes nothing"))
}

// matchErrOf recognises a nil test of the error result of the given call (directly, or
// through the named-result cell the tuple was stored into in the same block).
func matchErrOf(p *Prog, call *ssa.Call) condMatch {
	return func(cond ssa.Value) (bool, bool) {
		b, ok := cond.(*ssa.BinOp)
		if !ok || (b.Op != token.EQL && b.Op != token.NEQ) {
			return false, false
		}
		x, y := b.X, b.Y
		if nilConst(x) {
			x, y = y, x
		}
		if !nilConst(y) {
			return false, false
		}
		isErrOf := func(v ssa.Value) bool {
			if e, ok := v.(*ssa.Extract); ok && e.Tuple == ssa.Value(call) && e.Index == 1 {
				return true
			}
			// the dial sits in a helper that hands its results on: the caller tests what the helper returns
			if _, isX := v.(*ssa.Extract); isX && p.isPlainHelper(call.Parent()) {
				for _, o := range p.origins(v) {
					if e, ok := o.(*ssa.Extract); ok && e.Tuple == ssa.Value(call) && e.Index == 1 {
						return true
					}
				}
			}
			return false
		}
		if isErrOf(x) || isErrOf(p.canon(x)) {
			return true, b.Op == token.EQL
		}
		if u, ok := x.(*ssa.UnOp); ok && u.Op == token.MUL {
			if al, ok := u.X.(*ssa.Alloc); ok {
				// last store to the cell before the load, same block
				var last *ssa.Store
				for _, in := range u.Block().Instrs {
					if in == ssa.Instruction(u) {
						break
					}
					if st, ok := in.(*ssa.Store); ok && st.Addr == ssa.Value(al) {
						last = st
					}
				}
				if last != nil && isErrOf(last.Val) {
					return true, b.Op == token.EQL
				}
			}
		}
		return false, false
	}
}

// ruleDialResult (C14): getConn returns a failed dial as (nil, ErrDial) and a successful
// one as the connection.
func ruleDialResult(c *Check, a *Analysis, rule string) {
	p := c.P
	c.Rule(rule, "after every dial in getConn the error edge returns without handing out a connection, and the success edge never discards the connection for a nil result", 6)
	gc := p.Fn("(*Transport).getConn")
	if gc == nil {
		c.Undecided(rule, "getConn not found")
		return
	}
	isNilPc := func(x ssa.Instruction) bool {
		if st, ok := x.(*ssa.Store); ok {
			if _, isAl := st.Addr.(*ssa.Alloc); isAl && nilConst(st.Val) && namedOf(st.Val.Type()) == "persistConn" {
				return true
			}
		}
		if r, ok := x.(*ssa.Return); ok && len(r.Results) > 0 && nilConst(r.Results[0]) {
			return true
		}
		return false
	}
	isRet := func(x ssa.Instruction) bool { _, ok := x.(*ssa.Return); return ok }
	isSource := func(x ssa.Instruction) bool {
		return isCallTo(x, "(*Transport).newPersistConn") || isCallTo(x, "(*connQueue).Dequeue")
	}
	sc := siteCounter{}
	for _, d := range callsIn(gc, "(*Transport).newPersistConn") {
		call := d.(*ssa.Call)
		okEdges, n := p.guardEdges(gc, matchErrOf(p, call))
		errEdges, _ := p.guardEdges(gc, negate(matchErrOf(p, call)))
		if n == 0 {
			c.Ob(rule, sc.key(gc, "dial error tested"), p.InstrPos(call), false, "the error of this dial is never tested")
			continue
		}
		for e := range errEdges {
			_, tr, found := p.reachFromBlock(gc, e.to, isRet, isNilPc, nil)
			c.Ob(rule, sc.key(gc, "failed dial returns no connection"), p.InstrPos(e.to.Instrs[0]), !found, ifs(found, "on the edge on which the dial failed getConn can return without clearing the connection result ("+p.lineTrail(tr)+"): a nil / half-made connection is handed to the caller with a nil error"))
		}
		for e := range okEdges {
			_, tr, found := p.reachFromBlock(gc, e.to, isNilPc, isSource, nil)
			c.Ob(rule, sc.key(gc, "successful dial is handed out"), p.InstrPos(e.to.Instrs[0]), !found, ifs(found, "on the edge on which the dial succeeded getConn returns nil ("+p.lineTrail(tr)+"): the fresh connection leaks and the caller dereferences nil"))
		}
	}
}

// ruleDrainLoops (C15): the counted loops that visit every element of a pool container start
// at the first element, and the drain loop of Transport.Close is not skipped for a non-empty queue.
func ruleDrainLoops(c *Check, a *Analysis, rule string) {
	p := c.P
	sc := siteCounter{}
	for _, name := range []string{"(*Transport).run", "(*Transport).CloseIdleConnections", "(*Transport).Close"} {
		fn := p.Fn(name)
		if fn == nil {
			continue
		}
		eachInstr(fn, func(in ssa.Instruction) {
			b, ok := in.(*ssa.BinOp)
			if !ok || b.Op != token.LSS {
				return
			}
			phi, ok := b.X.(*ssa.Phi)
			if !ok {
				return
			}
			// bound: len(cs.Conns) or cq.Length(), possibly through a φ (length--)
			isBound := false
			var walk func(v ssa.Value, d int)
			walk = func(v ssa.Value, d int) {
				if d == 0 {
					return
				}
				switch x := v.(type) {
				case *ssa.Phi:
					for _, e := range x.Edges {
						walk(e, d-1)
					}
				case *ssa.BinOp:
					walk(x.X, d-1)
				case *ssa.Call:
					n := calleeName(x)
					if n == "(*connQueue).Length" || (n == "builtin len" && isLoadOf(p.canon(x.Call.Args[0]), "conns", "Conns")) {
						isBound = true
					}
				}
			}
			walk(b.Y, 6)
			if !isBound {
				return
			}
			for _, e := range phi.Edges {
				if k, isK := constInt(e); isK {
					c.Ob(rule, sc.key(fn, "pool loop starts at element 0"), p.InstrPos(in), k == 0, ifs(k != 0, fmt.Sprintf("the loop over a pool container starts at index %d: the first connection is never examined / closed", k)))
				}
			}
		})
	}
	if cl := p.Fn("(*Transport).Close"); cl != nil {
		for _, dq := range callsIn(cl, "(*connQueue).Dequeue") {
			odd := false
			skipped, _ := p.guardedBy(dq.(ssa.Instruction), func(cond ssa.Value) (bool, bool) {
				// recognises "the queue is known empty" and the edge on which it holds
				b, ok := cond.(*ssa.BinOp)
				if !ok {
					return false, false
				}
				cc, isC := p.canon(b.X).(*ssa.Call)
				k, isK := constInt(b.Y)
				if !isC || !isK || calleeName(cc) != "(*connQueue).Length" {
					return false, false
				}
				switch {
				case b.Op == token.GTR && k == 0, b.Op == token.NEQ && k == 0, b.Op == token.GEQ && k == 1:
					return true, false
				case b.Op == token.LEQ && k == 0, b.Op == token.EQL && k == 0, b.Op == token.LSS && k == 1, b.Op == token.LSS && k == 0:
					return true, true
				case b.Op == token.GEQ && k == 0:
					return false, false // always true: says nothing
				}
				odd = true // a threshold other than empty / non-empty
				return false, false
			})
			skipped = skipped || odd
			c.Ob(rule, sc.key(cl, "drain loop runs for every non-empty idle queue"), p.InstrPos(dq), !skipped, ifs(skipped, "Transport.Close dequeues and closes parked connections only under a test that excludes some non-empty queue: those connections stay open"))
		}
	}
}

// isRemovalAppend recognises the element-removal idiom append(s[:i], s[i+1:]...), which
// never grows s.
func isRemovalAppend(p *Prog, in ssa.Instruction) bool {
	cc, ok := in.(*ssa.Call)
	if !ok || calleeName(cc) != "builtin append" || len(cc.Call.Args) != 2 {
		return false
	}
	d, okd := p.canon(cc.Call.Args[0]).(*ssa.Slice)
	s, oks := p.canon(cc.Call.Args[1]).(*ssa.Slice)
	if !okd || !oks || d.High == nil || d.Low != nil || s.Low == nil || s.High != nil {
		return false
	}
	if !sameExpr(p, d.X, s.X) {
		return false
	}
	b, ok := p.canon(s.Low).(*ssa.BinOp)
	if !ok || b.Op != token.ADD {
		return false
	}
	k, isK := constInt(b.Y)
	return isK && k >= 1 && p.canon(b.X) == p.canon(d.High)
}

// sameBase: two loads of a field read it from the same object.
func sameBase(p *Prog, a, b ssa.Value) bool {
	_, ba, ok1 := fieldOfLoad(p.canon(a))
	_, bb, ok2 := fieldOfLoad(p.canon(b))
	return ok1 && ok2 && p.canon(ba) == p.canon(bb)
}
