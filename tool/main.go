package main

import (
	"flag"
	"fmt"
	"os"
	"path/filepath"
	"runtime/debug"
	"sort"
	"strconv"
)

// Analysis bundles the program with lazily computed whole-package results.
type Analysis struct {
	P     *Prog
	ls    *Locksets
	rel   *Releases
	taint *Taint
}

func (a *Analysis) Locks() *Locksets {
	if a.ls == nil {
		a.ls = ComputeLocksets(a.P)
	}
	return a.ls
}

type propDef struct {
	Meta PropMeta
	Run  func(c *Check, a *Analysis)
	// Thorough runs extra, tier-specific work (e.g. compiler facts); may be nil.
	Thorough func(c *Check, a *Analysis, verifDir string) map[string]interface{}
}

var props = map[string]*propDef{}

func register(id string, d *propDef) { props[id] = d }

var commonTrusted = []string{
	"go/types type checker and go/ssa construction (golang.org/x/tools v0.29.0)",
	"lock identity = (struct, field); two objects of one struct type are not distinguished",
	"dependencies behave as documented: hslam/scheduler New(1,..) is single-worker FIFO, socket.Messages frames messages and Close unblocks ReadMessage",
	"the frozen rule tables in tool/*.go (guarded-by table, release functions, accepted idioms) described in DESIGN.md",
}

func usage() {
	fmt.Fprintln(os.Stderr, "usage: rpcverif check -prop Cxx [-tier quick|thorough] [-repo /repo] [-verif /verif]\n       rpcverif explain <replay.json>\n       rpcverif list")
	os.Exit(2)
}

func main() {
	if len(os.Args) < 2 {
		usage()
	}
	switch os.Args[1] {
	case "check":
		os.Exit(cmdCheck(os.Args[2:]))
	case "explain":
		os.Exit(cmdExplain(os.Args[2:]))
	case "list":
		var ids []string
		for id := range props {
			ids = append(ids, id)
		}
		sort.Strings(ids)
		for _, id := range ids {
			fmt.Println(id)
		}
	default:
		usage()
	}
}

func cmdCheck(args []string) (exit int) {
	fs := flag.NewFlagSet("check", flag.ExitOnError)
	prop := fs.String("prop", "", "property id")
	tier := fs.String("tier", "", "quick|thorough")
	repo := fs.String("repo", "/repo", "repository root")
	verif := fs.String("verif", "", "verif dir (default: parent of the binary's dir)")
	fs.Parse(args)
	if *tier == "" {
		*tier = os.Getenv("VERIF_TIER")
	}
	if *tier != "thorough" {
		*tier = "quick"
	}
	if *verif == "" {
		exe, _ := os.Executable()
		*verif = filepath.Dir(filepath.Dir(exe))
	}
	seed, _ := strconv.Atoi(os.Getenv("VERIF_SEED"))
	d := props[*prop]
	if d == nil {
		fmt.Fprintln(os.Stderr, "unknown property", *prop)
		return 2
	}
	abs, _ := filepath.Abs(*repo)
	c := NewCheck(nil, *prop, *tier)
	fail := func(what string) int {
		c.Rule("analysis", "the analysis itself must complete: load, type-check, SSA, rules", 0)
		c.Undecided("analysis", what)
		return c.Finish(*verif, d.Meta, seed, nil)
	}
	defer func() {
		if r := recover(); r != nil {
			exit = fail(fmt.Sprintf("analyzer panic: %v\n%s", r, debug.Stack()))
		}
	}()
	p, err := Load(abs, *tier == "thorough", "")
	if err != nil {
		return fail(err.Error())
	}
	c.P = p
	a := &Analysis{P: p}
	d.Run(c, a)
	extra := map[string]interface{}{"architectures": []string{"host"}}
	if *tier == "thorough" {
		p386, err := Load(abs, false, "386")
		if err != nil {
			return fail("GOARCH=386: " + err.Error())
		}
		c.P = p386
		d.Run(c, &Analysis{P: p386})
		c.P = p
		extra["architectures"] = []string{"host", "386"}
		if d.Thorough != nil {
			for k, v := range d.Thorough(c, a, *verif) {
				extra[k] = v
			}
		}
	}
	return c.Finish(*verif, d.Meta, seed, extra)
}

func cmdExplain(args []string) int {
	if len(args) < 1 {
		usage()
	}
	b, err := os.ReadFile(args[0])
	if err != nil {
		fmt.Fprintln(os.Stderr, err)
		return 2
	}
	os.Stdout.Write(b)
	fmt.Println()
	return 0
}
