package main

import (
	"encoding/json"
	"flag"
	"fmt"
	"os"
	"os/exec"
	"path/filepath"
	"runtime/debug"
	"sort"
	"strconv"
)

// Analysis bundles the program with lazily computed whole-package results.
type Analysis struct {
	P     *Prog
	ls    *Locksets
	rel   *Releases
	taint *Taint
}

func (a *Analysis) Locks() *Locksets {
	if a.ls == nil {
		a.ls = ComputeLocksets(a.P)
	}
	return a.ls
}

type propDef struct {
	Meta PropMeta
	Run  func(c *Check, a *Analysis)
	// Thorough runs extra, tier-specific work (e.g. compiler facts); may be nil.
	Thorough func(c *Check, a *Analysis, verifDir string) map[string]interface{}
}

var props = map[string]*propDef{}

func register(id string, d *propDef) { props[id] = d }

var commonTrusted = []string{
	"go/types type checker and go/ssa construction (golang.org/x/tools v0.29.0)",
	"lock identity = (struct, field); two objects of one struct type are not distinguished",
	"dependencies behave as documented: hslam/scheduler New(1,..) is single-worker FIFO, socket.Messages frames messages and Close unblocks ReadMessage",
	"the frozen rule tables in tool/*.go (guarded-by table, release functions, accepted idioms) described in DESIGN.md",
}

func usage() {
	fmt.Fprintln(os.Stderr, "usage: rpcverif check -prop Cxx [-tier quick|thorough] [-repo /repo] [-verif /verif]\n       rpcverif explain <replay.json>\n       rpcverif list")
	os.Exit(2)
}

func main() {
	if len(os.Args) < 2 {
		usage()
	}
	switch os.Args[1] {
	case "check":
		os.Exit(cmdCheck(os.Args[2:]))
	case "explain":
		os.Exit(cmdExplain(os.Args[2:]))
	case "sweep":
		os.Exit(cmdSweep(os.Args[2:]))
	case "helpers":
		// list the functions analysed as in-line helpers (no rule anchors on them)
		dir := "/repo"
		if len(os.Args) > 2 {
			dir = os.Args[2]
		}
		p, err := Load(dir, false, "")
		if err != nil {
			fmt.Fprintln(os.Stderr, err)
			os.Exit(2)
		}
		for _, fn := range p.AllFns {
			if p.isPlainHelper(fn) {
				fmt.Printf("%s (%d call sites)\n", fname(fn), len(p.callers[fn]))
			}
		}
	case "list":
		var ids []string
		for id := range props {
			ids = append(ids, id)
		}
		sort.Strings(ids)
		for _, id := range ids {
			fmt.Println(id)
		}
	default:
		usage()
	}
}

func cmdCheck(args []string) (exit int) {
	fs := flag.NewFlagSet("check", flag.ExitOnError)
	prop := fs.String("prop", "", "property id")
	tier := fs.String("tier", "", "quick|thorough")
	repo := fs.String("repo", "/repo", "repository root")
	verif := fs.String("verif", "", "verif dir (default: parent of the binary's dir)")
	fs.Parse(args)
	if *tier == "" {
		*tier = os.Getenv("VERIF_TIER")
	}
	if *tier != "thorough" {
		*tier = "quick"
	}
	if *verif == "" {
		exe, _ := os.Executable()
		*verif = filepath.Dir(filepath.Dir(exe))
	}
	seed, _ := strconv.Atoi(os.Getenv("VERIF_SEED"))
	d := props[*prop]
	if d == nil {
		fmt.Fprintln(os.Stderr, "unknown property", *prop)
		return 2
	}
	abs, _ := filepath.Abs(*repo)
	c := NewCheck(nil, *prop, *tier)
	fail := func(what string) int {
		c.Rule("analysis", "the analysis itself must complete: load, type-check, SSA, rules", 0)
		c.Undecided("analysis", what)
		return c.Finish(*verif, d.Meta, seed, nil)
	}
	defer func() {
		if r := recover(); r != nil {
			exit = fail(fmt.Sprintf("analyzer panic: %v\n%s", r, debug.Stack()))
		}
	}()
	p, err := Load(abs, *tier == "thorough", "")
	if err != nil {
		return fail(err.Error())
	}
	c.P = p
	a := &Analysis{P: p}
	d.Run(c, a)
	extra := map[string]interface{}{"architectures": []string{"host"}}
	if *tier == "thorough" {
		// A second pass under GOARCH=386 was planned (DESIGN.md §2.1) but the
		// dependencies (hslam/writer, hslam/splice) do not type-check on 32-bit
		// targets, so no whole-program load exists there. The thorough tier
		// instead type-checks ./... (examples and benchmarks use the public
		// API), runs property-specific extras (compiler BCE facts for C08) and
		// the seeded-mutant controls of this property.
		if d.Thorough != nil {
			for k, v := range d.Thorough(c, a, *verif) {
				extra[k] = v
			}
		}
		for k, v := range runControls(*verif, abs, *prop) {
			extra[k] = v
		}
		extra["mutation_sensitivity"] = runSensitivity(*verif, abs, *prop)
	}
	return c.Finish(*verif, d.Meta, seed, extra)
}

func cmdExplain(args []string) int {
	// usage: explain <replay.json> [-repo DIR]
	if len(args) < 1 {
		usage()
	}
	b, err := os.ReadFile(args[0])
	if err != nil {
		fmt.Fprintln(os.Stderr, err)
		return 2
	}
	var rp struct {
		Property, Kind, Rule, Statement, Site, Pos, Detail, Repo string
	}
	if err := json.Unmarshal(b, &rp); err != nil {
		fmt.Fprintln(os.Stderr, err)
		return 2
	}
	repo := rp.Repo
	for i := 1; i+1 < len(args); i++ {
		if args[i] == "-repo" {
			repo = args[i+1]
		}
	}
	if repo == "" {
		repo = "/repo"
	}
	fmt.Printf("recorded: property=%s kind=%s rule=%s\n  site: %s\n  at:   %s\n  rule: %s\n  what: %s\n", rp.Property, rp.Kind, rp.Rule, rp.Site, rp.Pos, rp.Statement, rp.Detail)
	d := props[rp.Property]
	if d == nil {
		return 2
	}
	p, err := Load(repo, false, "")
	if err != nil {
		fmt.Println("re-run: cannot load", repo, ":", err)
		return 1
	}
	c := NewCheck(p, rp.Property, "quick")
	d.Run(c, &Analysis{P: p})
	fmt.Printf("re-run on %s:\n", repo)
	still := false
	n := 0
	for _, o := range c.Obs {
		if o.Rule == rp.Rule && o.Site == rp.Site {
			n++
			st := "holds"
			if !o.OK {
				st, still = "VIOLATED", true
			}
			fmt.Printf("  %s %s at %s: %s %s\n", o.Rule, o.Site, o.Pos, st, o.Detail)
		}
	}
	if n == 0 {
		fmt.Println("  the rule instance no longer exists in this tree (construct removed or renamed); all instances of the rule:")
		for _, o := range c.Obs {
			if o.Rule == rp.Rule {
				fmt.Printf("  %s %s at %s ok=%v\n", o.Rule, o.Site, o.Pos, o.OK)
			}
		}
	}
	for _, u := range c.undec {
		fmt.Println("  undecided:", u)
		still = true
	}
	if still {
		return 1
	}
	return 0
}

// runControls executes the seeded-mutant self-test of one property
// (controls/run.py) and returns its summary for the evidence file. Control
// results never produce a VIOLATION line.
func runControls(verifDir, repo, prop string) map[string]interface{} {
	spec := filepath.Join(verifDir, "controls", prop+".json")
	if _, err := os.Stat(spec); err != nil {
		return map[string]interface{}{"controls": "none defined"}
	}
	tmp, err := os.CreateTemp("", "controls-*.json")
	if err != nil {
		return map[string]interface{}{"controls": "error: " + err.Error()}
	}
	tmp.Close()
	defer os.Remove(tmp.Name())
	cmd := exec.Command("python3", filepath.Join(verifDir, "controls", "run.py"), "-j", "8", "--repo", repo, prop)
	cmd.Env = append(os.Environ(), "CONTROLS_JSON="+tmp.Name())
	out, _ := cmd.CombinedOutput()
	b, _ := os.ReadFile(tmp.Name())
	var sum map[string]struct {
		Applicable int             `json:"applicable"`
		Detected   int             `json:"detected"`
		Results    [][]interface{} `json:"results"`
	}
	if json.Unmarshal(b, &sum) != nil || sum[prop].Applicable == 0 {
		return map[string]interface{}{"controls": "could not run: " + tail(string(out), 300)}
	}
	var missed []interface{}
	for _, r := range sum[prop].Results {
		if len(r) >= 2 && r[1] != "detected" && r[1] != "skipped" {
			missed = append(missed, r)
		}
	}
	return map[string]interface{}{"controls_applicable": sum[prop].Applicable, "controls_detected": sum[prop].Detected, "controls_not_detected": missed}
}

// cmdSweep loads the repository once, runs the rules of every property and
// prints one JSON object {property: [violated rule ids...]} — used by the
// mutation sweep. It writes no evidence and prints no VIOLATION lines.
func cmdSweep(args []string) int {
	fs := flag.NewFlagSet("sweep", flag.ExitOnError)
	repo := fs.String("repo", "/repo", "repository root")
	fs.Parse(args)
	abs, _ := filepath.Abs(*repo)
	out := map[string][]string{}
	p, err := Load(abs, false, "")
	if err != nil {
		out["load"] = []string{err.Error()}
		b, _ := json.Marshal(out)
		fmt.Println(string(b))
		return 0
	}
	var ids []string
	for id := range props {
		ids = append(ids, id)
	}
	sort.Strings(ids)
	a := &Analysis{P: p}
	for _, id := range ids {
		func() {
			c := NewCheck(p, id, "quick")
			defer func() {
				if r := recover(); r != nil {
					out[id] = append(out[id], fmt.Sprintf("panic: %v", r))
				}
			}()
			props[id].Run(c, a)
			seen := map[string]bool{}
			for _, o := range c.Obs {
				if !o.OK && !seen[o.Rule] {
					seen[o.Rule] = true
					out[id] = append(out[id], o.Rule)
				}
			}
			if len(c.undec) > 0 {
				out[id] = append(out[id], "undecided")
			}
			perRule := map[string]int{}
			for _, o := range c.Obs {
				perRule[o.Rule]++
			}
			for _, r := range c.order {
				if perRule[r] < c.floors[r] {
					out[id] = append(out[id], "vacuous:"+r)
				}
			}
		}()
	}
	b, _ := json.Marshal(out)
	fmt.Println(string(b))
	return 0
}

// runSensitivity samples single-site mutants of the property's anchor files
// and reports how many this property's rules notice (sweep/sensitivity.py).
func runSensitivity(verifDir, repo, prop string) interface{} {
	cmd := exec.Command("python3", filepath.Join(verifDir, "sweep", "sensitivity.py"), prop, "--repo", repo, "-n", "120", "-j", "8")
	cmd.Env = os.Environ()
	out, err := cmd.Output()
	var v interface{}
	if err != nil || json.Unmarshal(out, &v) != nil {
		return "could not run: " + tail(string(out), 200)
	}
	return v
}
