package main

import (
	"fmt"
	"strings"

	"golang.org/x/tools/go/ssa"
)

func init() {
	register("C01", &propDef{
		Meta: PropMeta{
			Explanation: "Static structural necessary conditions for reply/argument matching, decided over all CFG paths of every function of package rpc: (1) the per-connection sequence counter and pending table are only touched under Conn.mutex and the allocate-increment-register triple lies in one critical section; (2) the sequence number written on the wire is the very value registered; (3) the response reader looks the call up and removes it by the sequence number decoded from the response header, in one critical section; (4) every server response echoes the request context's sequence number and Context.Seq is written only from header decoders, the registered key, or another Context.Seq; (5) the reply bytes are copied out of the pooled read buffer before they are decoded into the caller's reply and the buffer/context are not used after release.",
			NotDecided:  "That replies match under every schedule and fragmentation at value level (framing is in hslam/socket), and body-codec correctness.",
			Assumptions: []string{"hslam/socket delivers whole frames", "Request/Response implementations' GetSeq/SetSeq are plain field accessors (checked for the in-package encoders by C07)"},
			Trusted:     commonTrusted,
		},
		Run: runC01,
	})
}

// pendingUpdates returns the stores into Conn.pending.
func pendingOps(p *Prog, kind string) []MapOp {
	var out []MapOp
	for _, op := range p.mapOps("Conn", "pending") {
		if op.Kind == kind {
			out = append(out, op)
		}
	}
	return out
}

func runC01(c *Check, a *Analysis) {
	p := c.P
	ls := a.Locks()
	c.Rule("R-LOCK", "every access to Conn.seq / Conn.pending happens with Conn.mutex held", 8)
	ruleLock(c, a, "R-LOCK", "Conn", "seq", "pending")

	// ---- R-ATOMIC-REG
	c.Rule("R-ATOMIC-REG", "in every function that stores into Conn.pending, the load of Conn.seq that yields the key, the increment of Conn.seq and the pending[k]=call store lie in one critical section of Conn.mutex", 2)
	c.Rule("R-SEQ-ADVANCES", "a function that registers a call under a key read from Conn.seq also stores Conn.seq+const back in the same critical section", 1)
	ups := pendingOps(p, "update")
	if len(ups) == 0 {
		c.Undecided("R-ATOMIC-REG", "no store into Conn.pending found")
	}
	sc := siteCounter{}
	for _, m := range ups {
		var seqLoads []ssa.Instruction
		for _, o := range p.origins(m.Key) {
			if isLoadOf(o, "Conn", "seq") {
				seqLoads = append(seqLoads, o.(ssa.Instruction))
			}
		}
		site := sc.key(m.Fn, "pending[k]=call")
		if len(seqLoads) == 0 {
			c.Ob("R-ATOMIC-REG", site, p.InstrPos(m.Instr), false, "key of the pending store does not originate from Conn.seq: "+describe(m.Key))
			continue
		}
		for _, l := range seqLoads {
			ok := ls.SameSection(l, m.Instr, "Conn.mutex")
			det := ""
			if !ok {
				det = fmt.Sprintf("load of Conn.seq at %s and pending store at %s are not in one critical section of Conn.mutex", p.At(l), p.At(m.Instr))
			}
			c.Ob("R-ATOMIC-REG", site+"/load-seq", p.InstrPos(l), ok, det)
		}
		// increments
		stores := p.fieldStoresIn(m.Fn, "Conn", "seq")
		adv := false
		for _, s := range stores {
			b, isBin := s.Val.(*ssa.BinOp)
			fromSeq := isBin && (isLoadOf(b.X, "Conn", "seq") || isLoadOf(b.Y, "Conn", "seq"))
			ok := fromSeq && ls.SameSection(seqLoads[0], s, "Conn.mutex") && ls.SameSection(s, m.Instr, "Conn.mutex")
			det := ""
			if !ok {
				det = fmt.Sprintf("store to Conn.seq at %s is not Conn.seq+k inside the critical section of the key load (%s) and the pending store (%s)", p.At(s), p.At(seqLoads[0]), p.At(m.Instr))
			} else {
				adv = true
			}
			c.Ob("R-ATOMIC-REG", sc.key(m.Fn, "conn.seq++"), p.InstrPos(s), ok, det)
		}
		det := ""
		if !adv {
			det = "no increment of Conn.seq in the registering function " + fname(m.Fn)
		}
		c.Ob("R-SEQ-ADVANCES", site, p.InstrPos(m.Instr), adv, det)

		// ---- R-SEQ-WIRE (same function: the context handed to WriteRequest)
		c.Rule("R-SEQ-WIRE", "the value stored into Context.Seq of the context passed to ClientCodec.WriteRequest has the same origins as the key registered in Conn.pending (not a re-read of Conn.seq)", 1)
		wr := invokesIn(m.Fn, "ClientCodec", "WriteRequest")
		if len(wr) == 0 {
			c.Undecided("R-SEQ-WIRE", "registering function "+fname(m.Fn)+" does not call ClientCodec.WriteRequest")
		}
		for _, w := range wr {
			ctxArg := w.Common().Args[0]
			found := 0
			for _, s := range p.fieldStoresIn(m.Fn, "Context", "Seq") {
				_, base, _ := fieldOfAddr(s.Addr)
				if base != ctxArg {
					continue
				}
				found++
				ok := p.originsSubset(s.Val, m.Key) && p.originsSubset(m.Key, s.Val)
				det := ""
				if !ok {
					det = fmt.Sprintf("Context.Seq written on the wire (%s) differs in origin from the registered key (%s)", describe(s.Val), describe(m.Key))
				}
				c.Ob("R-SEQ-WIRE", sc.key(m.Fn, "ctx.Seq=key"), p.InstrPos(s), ok, det)
			}
			if found == 0 {
				c.Ob("R-SEQ-WIRE", sc.key(m.Fn, "ctx.Seq=key"), p.InstrPos(w), false, "no store to Context.Seq of the context passed to WriteRequest")
			}
		}
	}

	// ---- R-SEQ-LOOKUP
	c.Rule("R-SEQ-LOOKUP", "the response reader's pending lookup key originates from Context.Seq (filled by ReadResponseHeader); lookup and delete use the same key and lie in one critical section", 2)
	lookups := pendingOps(p, "lookup")
	if len(lookups) == 0 {
		c.Undecided("R-SEQ-LOOKUP", "no lookup in Conn.pending found")
	}
	for _, l := range lookups {
		// the error-arm presence test in the sender looks up by its own registered key
		fromCtx := false
		for _, o := range p.origins(l.Key) {
			if isLoadOf(o, "Context", "Seq") {
				fromCtx = true
			}
		}
		registers := false
		for _, m := range ups {
			if p.sameFn(m.Fn, l.Fn) {
				registers = true
			}
		}
		if registers {
			continue // sender-side presence test, covered by C02
		}
		site := sc.key(l.Fn, "pending[seq] lookup")
		det := ""
		if !fromCtx {
			det = "lookup key does not originate from Context.Seq: " + describe(l.Key)
		}
		c.Ob("R-SEQ-LOOKUP", site, p.InstrPos(l.Instr), fromCtx, det)
		// header read precedes the lookup
		hdr := invokesIn(l.Fn, "ClientCodec", "ReadResponseHeader")
		okH := len(hdr) > 0
		for _, h := range hdr {
			if !p.dominatesInstr(h, l.Instr) {
				okH = false
			}
		}
		det = ""
		if !okH {
			det = "ReadResponseHeader does not dominate the pending lookup"
		}
		c.Ob("R-SEQ-LOOKUP", site+"/header-first", p.InstrPos(l.Instr), okH, det)
		for _, d := range pendingOps(p, "delete") {
			if !p.sameFn(d.Fn, l.Fn) {
				continue
			}
			same := p.originsSubset(d.Key, l.Key)
			det := ""
			if !same {
				det = fmt.Sprintf("delete key %s differs from lookup key %s", describe(d.Key), describe(l.Key))
			}
			c.Ob("R-SEQ-LOOKUP", sc.key(l.Fn, "delete(pending,seq) same key"), p.InstrPos(d.Instr), same, det)
		}
		// at least one delete in the same section as the lookup
		sec := false
		for _, d := range pendingOps(p, "delete") {
			if p.sameFn(d.Fn, l.Fn) && ls.SameSection(l.Instr, d.Instr, "Conn.mutex") {
				sec = true
			}
		}
		det = ""
		if !sec {
			det = "no delete(pending, seq) in the critical section of the lookup"
		}
		c.Ob("R-SEQ-LOOKUP", site+"/delete-same-section", p.InstrPos(l.Instr), sec, det)
	}

	// ---- R-SEQ-ECHO
	c.Rule("R-SEQ-ECHO", "every Response.SetSeq argument on the server originates only from the request context's Context.Seq", 2)
	n := 0
	for _, fn := range p.Fns {
		var writes []headerWrite
		eachInstr(fn, func(in ssa.Instruction) {
			hw, ok := headerWriteOf(in)
			if !ok || hw.Setter != "SetSeq" {
				return
			}
			if cc, isC := in.(*ssa.Call); isC && !cc.Common().IsInvoke() && calleeName(cc) != "(*pbResponse).SetSeq" {
				return
			}
			if cc, isC := in.(*ssa.Call); isC && cc.Common().IsInvoke() && namedOf(cc.Common().Value.Type()) != "Response" {
				return
			}
			if st, isS := in.(*ssa.Store); isS {
				if fr, _, _ := fieldOfAddr(st.Addr); !strings.HasSuffix(fr.Struct, "esponse") {
					return
				}
			}
			writes = append(writes, hw)
		})
		for _, hw := range writes {
			call := hw.Instr
			n++
			arg := hw.Val
			ok := true
			for _, o := range p.origins(arg) {
				if !isLoadOf(o, "Context", "Seq") {
					ok = false
				}
			}
			det := ""
			if !ok {
				det = "SetSeq argument " + describe(arg) + " does not come from Context.Seq"
			}
			c.Ob("R-SEQ-ECHO", sc.key(fn, "res.SetSeq"), p.InstrPos(call), ok, det)
		}
	}
	if n == 0 {
		c.Undecided("R-SEQ-ECHO", "no Response.SetSeq call found")
	}
	c.Rule("R-SEQ-WRITERS", "Context.Seq is stored only from a header's GetSeq(), from another Context.Seq, or from the key registered in Conn.pending", 4)
	for _, s := range p.storesToField("Context", "Seq") {
		st := s.Instr.(*ssa.Store)
		if isZeroValue(st.Val) && s.Fn.Name() == "Reset" && recvName(s.Fn) == "Context" {
			continue // the reset method clearing the field (`*ctx = Context{}` written field by field)
		}
		ok := true
		why := ""
		for _, o := range p.origins(st.Val) {
			switch {
			case isLoadOf(o, "Context", "Seq"):
			case isGetSeqCall(o):
			case isRegisteredKeyOrigin(p, o, s.Fn, ups):
			default:
				ok = false
				why = describe(o)
			}
		}
		det := ""
		if !ok {
			det = "Context.Seq stored from " + why
		}
		c.Ob("R-SEQ-WRITERS", sc.key(s.Fn, "Context.Seq="), p.InstrPos(s.Instr), ok, det)
	}

	// ---- copy before decode / use after release (shared engines)
	ruleClientCopyBeforeDecode(c, a, "R-COPY-BEFORE-DECODE")
	ruleUseAfterRelease(c, a, "R-UAR", uarAll)
	ruleSeqAdvanceOnPath(c, a, "R-SEQ-ADVANCE-PATH")
	ruleRecycleClean(c, a, "R-RECYCLE-CLEAN")
	ruleHeaderFresh(c, a, "R-HEADER-FRESH")
	ruleResetClean(c, a, "R-RESET-CLEAN")
	ruleSeqMonotone(c, a, "R-SEQ-MONOTONE")
	rulePendingKeys(c, a, "R-PENDING-KEYS")
	// a Call recycled while a response for it can still be processed receives another call's reply
	ruleRecycle(c, a, computeCompletion(p), "R-RECYCLE")
}

func isGetSeqCall(v ssa.Value) bool {
	c, ok := v.(*ssa.Call)
	if !ok {
		return false
	}
	if c.Common().IsInvoke() {
		return c.Common().Method.Name() == "GetSeq"
	}
	if f := c.Common().StaticCallee(); f != nil {
		return f.Name() == "GetSeq"
	}
	return false
}

func isRegisteredKeyOrigin(p *Prog, o ssa.Value, fn *ssa.Function, ups []MapOp) bool {
	for _, m := range ups {
		if !p.sameFn(m.Fn, fn) {
			continue
		}
		for _, k := range p.origins(m.Key) {
			if k == o {
				return true
			}
		}
	}
	return false
}
