package main

// E6 — pooled-read-buffer alias taint. Field-based across functions (a struct
// field is tainted iff some store anywhere stores a tainted value into it),
// register-based inside functions.

import (
	"fmt"
	"go/token"
	"go/types"

	"golang.org/x/tools/go/ssa"
)

type Taint struct {
	p     *Prog
	field map[FieldRef]bool
	memo  map[ssa.Value]int // 0 unknown, 1 in progress, 2 clean, 3 tainted
}

func isSourceField(fr FieldRef) bool {
	return fr.Struct == "Context" && ctxAliasFields[fr.Field]
}

func ComputeTaint(p *Prog) *Taint {
	t := &Taint{p: p, field: map[FieldRef]bool{}}
	for iter := 0; iter < 6; iter++ {
		t.memo = map[ssa.Value]int{}
		changed := false
		for _, fn := range p.AllFns {
			eachInstrLocal(fn, func(in ssa.Instruction) {
				s, ok := in.(*ssa.Store)
				if !ok {
					return
				}
				fr, _, ok := fieldOfAddr(s.Addr)
				if !ok || isSourceField(fr) || t.field[fr] {
					return
				}
				if t.Tainted(s.Val) {
					t.field[fr] = true
					changed = true
				}
			})
		}
		if !changed {
			break
		}
	}
	t.memo = map[ssa.Value]int{}
	return t
}

func isStringType(t types.Type) bool {
	b, ok := t.Underlying().(*types.Basic)
	return ok && b.Info()&types.IsString != 0
}

func isByteSlice(t types.Type) bool {
	s, ok := t.Underlying().(*types.Slice)
	if !ok {
		return false
	}
	b, ok := s.Elem().Underlying().(*types.Basic)
	return ok && b.Kind() == types.Byte
}

// Tainted: may v alias the pooled read buffer?
func (t *Taint) Tainted(v ssa.Value) bool {
	if v == nil {
		return false
	}
	switch t.memo[v] {
	case 1, 2:
		return false
	case 3:
		return true
	}
	t.memo[v] = 1
	r := t.compute(v)
	if r {
		t.memo[v] = 3
	} else {
		t.memo[v] = 2
	}
	return r
}

func (t *Taint) compute(v ssa.Value) bool {
	p := t.p
	switch x := v.(type) {
	case *ssa.Const, *ssa.Global, *ssa.Function, *ssa.Builtin:
		return false
	case *ssa.Phi:
		for _, e := range x.Edges {
			if t.Tainted(e) {
				return true
			}
		}
		return false
	case *ssa.Slice:
		return t.Tainted(x.X)
	case *ssa.ChangeType:
		return t.Tainted(x.X)
	case *ssa.MakeInterface:
		return t.Tainted(x.X)
	case *ssa.ChangeInterface:
		return t.Tainted(x.X)
	case *ssa.Convert:
		// string <-> []byte conversions copy
		if (isStringType(x.Type()) && isByteSlice(x.X.Type())) || (isByteSlice(x.Type()) && isStringType(x.X.Type())) {
			return false
		}
		return t.Tainted(x.X)
	case *ssa.BinOp:
		return false // string concatenation allocates
	case *ssa.Extract:
		// results of calls: only errors.New-like wrappers keep the argument
		return false
	case *ssa.Lookup:
		return t.Tainted(x.X)
	case *ssa.Index:
		return t.Tainted(x.X)
	case *ssa.Field:
		fr, _, _ := fieldOfLoad(x)
		return isSourceField(fr) || t.field[fr]
	case *ssa.UnOp:
		if x.Op != token.MUL {
			return false
		}
		if fr, _, ok := fieldOfAddr(x.X); ok {
			return isSourceField(fr) || t.field[fr]
		}
		if cell := p.localCell(x.X); cell != nil {
			for _, s := range p.storesToCell(cell) {
				if t.Tainted(s) {
					return true
				}
			}
			return false
		}
		if ia, ok := x.X.(*ssa.IndexAddr); ok {
			return t.Tainted(ia.X)
		}
		return false
	case *ssa.Call:
		n := calleeName(x)
		switch n {
		case "errors.New":
			return t.Tainted(x.Call.Args[0])
		case "builtin append":
			return t.Tainted(x.Call.Args[0])
		}
		return false
	}
	return false
}

func (a *Analysis) Taint() *Taint {
	if a.taint == nil {
		a.taint = ComputeTaint(a.P)
	}
	return a.taint
}

func nilConst(v ssa.Value) bool {
	v = seeThrough(v)
	c, ok := v.(*ssa.Const)
	return ok && c.Value == nil
}

// ruleAliasSinks (R-ALIAS): nothing stored into a user-visible field aliases
// the pooled read buffer.
func ruleAliasSinks(c *Check, a *Analysis, rule string, sinks ...FieldRef) {
	p := c.P
	t := a.Taint()
	c.Rule(rule, "no value stored into a user-visible field (Call.Error, Call.Value, event.Value) may alias the pooled read buffer: it must be a fresh allocation, the caller's buffer, or a copy", len(sinks))
	sc := siteCounter{}
	for _, sk := range sinks {
		sts := p.storesToField(sk.Struct, sk.Field)
		if len(sts) == 0 {
			c.Undecided(rule, "no store to "+sk.String()+" found")
		}
		for _, s := range sts {
			st := s.Instr.(*ssa.Store)
			bad := t.Tainted(st.Val)
			det := ""
			if bad {
				det = fmt.Sprintf("%s = %s keeps a zero-copy reference into the pooled read buffer (origin: a Context field filled by the header decoder)", sk, describe(st.Val))
			}
			c.Ob(rule, sc.key(s.Fn, sk.String()+"="), p.InstrPos(st), !bad, det)
		}
	}
}

// ruleClientCopyBeforeDecode: the bytes decoded into the caller's reply are
// clean (copied out of the read buffer).
func ruleClientCopyBeforeDecode(c *Check, a *Analysis, rule string) {
	p := c.P
	t := a.Taint()
	c.Rule(rule, "the bytes passed to ClientCodec.ReadResponseBody together with a user reply object do not alias the pooled read buffer (they were copied into a fresh or caller-supplied buffer first)", 1)
	sc := siteCounter{}
	n := 0
	for _, fn := range p.AllFns {
		for _, call := range invokesIn(fn, "ClientCodec", "ReadResponseBody") {
			args := call.Common().Args
			if nilConst(args[1]) {
				continue
			}
			n++
			bad := t.Tainted(args[0])
			det := ""
			if bad {
				det = "reply bytes " + describe(args[0]) + " alias the pooled read buffer when decoded into the caller's reply"
			}
			c.Ob(rule, sc.key(fn, "ReadResponseBody(bytes, reply)"), p.InstrPos(call), !bad, det)
		}
	}
	if n == 0 {
		c.Undecided(rule, "no ReadResponseBody call with a reply object found")
	}
}
