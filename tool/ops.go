package main

// Pattern extraction over SSA: field accesses, map/slice operations on a
// field, value origins (E5 backward slice).

import (
	"go/token"
	"go/types"

	"golang.org/x/tools/go/ssa"
)

// Access is one load/store/address-use of a struct field.
type Access struct {
	Ref   FieldRef
	Kind  string // "read", "write", "addr" (address passed to a call, e.g. atomic or method on the field)
	Instr ssa.Instruction
	Base  ssa.Value
	Fn    *ssa.Function
}

// fieldAccesses returns every access to st.field in package rpc.
func (p *Prog) fieldAccesses(st, field string) []Access {
	var out []Access
	for _, fn0 := range p.AllFns {
		// an access inside a plain helper is an access of the function the helper belongs to
		fn := p.homeOf(fn0)
		eachInstrLocal(fn0, func(in ssa.Instruction) {
			switch x := in.(type) {
			case *ssa.FieldAddr:
				fr, base, ok := fieldOfAddr(x)
				if !ok || fr.Struct != st || fr.Field != field {
					return
				}
				refs := x.Referrers()
				if refs == nil {
					return
				}
				for _, r := range *refs {
					switch u := r.(type) {
					case *ssa.UnOp:
						if u.Op == token.MUL {
							out = append(out, Access{fr, "read", u, base, fn})
						}
					case *ssa.Store:
						if u.Addr == x {
							out = append(out, Access{fr, "write", u, base, fn})
						} else {
							out = append(out, Access{fr, "addr", u, base, fn})
						}
					case *ssa.DebugRef:
					default:
						out = append(out, Access{fr, "addr", r, base, fn})
					}
				}
			case *ssa.Field:
				fr, base, ok := fieldOfLoad(x)
				if ok && fr.Struct == st && fr.Field == field {
					out = append(out, Access{fr, "read", x, base, fn})
				}
			}
		})
	}
	return out
}

// baseIsLocalAlloc reports whether the accessed object was allocated in the
// same function (constructor / composite literal): such accesses need no lock.
func baseIsLocalAlloc(v ssa.Value) bool {
	switch x := v.(type) {
	case *ssa.Alloc:
		return true
	case *ssa.Phi:
		for _, e := range x.Edges {
			if !baseIsLocalAlloc(e) {
				return false
			}
		}
		return true
	}
	return false
}

// MapOp is an operation on a map (or slice) held in a struct field.
type MapOp struct {
	Kind  string // update, lookup, delete, range, len, index, append
	Instr ssa.Instruction
	Key   ssa.Value
	Val   ssa.Value
	Load  ssa.Instruction // the load of the field this op works on
	Fn    *ssa.Function
}

// mapOps finds the operations performed on values loaded from st.field.
// Values that flow through a local variable (alloc) are followed one step.
func (p *Prog) mapOps(st, field string) []MapOp {
	var out []MapOp
	for _, a := range p.fieldAccesses(st, field) {
		if a.Kind != "read" {
			continue
		}
		ld, ok := a.Instr.(ssa.Value)
		if !ok {
			continue
		}
		out = append(out, p.opsOnValue(ld, a.Instr, a.Fn, 0)...)
	}
	return out
}

func (p *Prog) opsOnValue(v ssa.Value, load ssa.Instruction, fn *ssa.Function, depth int) []MapOp {
	var out []MapOp
	refs := v.Referrers()
	if refs == nil || depth > 3 {
		return nil
	}
	for _, r := range *refs {
		switch u := r.(type) {
		case *ssa.MapUpdate:
			if u.Map == v {
				out = append(out, MapOp{"update", u, u.Key, u.Value, load, fn})
			}
		case *ssa.Lookup:
			if u.X == v {
				out = append(out, MapOp{"lookup", u, u.Index, u, load, fn})
			}
		case *ssa.Range:
			if u.X == v {
				out = append(out, MapOp{"range", u, nil, nil, load, fn})
			}
		case *ssa.Index:
			if u.X == v {
				out = append(out, MapOp{"index", u, u.Index, u, load, fn})
			}
		case *ssa.IndexAddr:
			if u.X == v {
				out = append(out, MapOp{"index", u, u.Index, u, load, fn})
			}
		case *ssa.Call:
			switch calleeName(u) {
			case "builtin delete":
				if u.Call.Args[0] == v {
					out = append(out, MapOp{"delete", u, u.Call.Args[1], nil, load, fn})
				}
			case "builtin len":
				out = append(out, MapOp{"len", u, nil, nil, load, fn})
			case "builtin append":
				if u.Call.Args[0] == v {
					out = append(out, MapOp{"append", u, nil, u.Call.Args[1], load, fn})
				}
			}
		case *ssa.Phi:
			out = append(out, p.opsOnValue(u, load, fn, depth+1)...)
		case *ssa.Slice:
			out = append(out, p.opsOnValue(u, load, fn, depth+1)...)
		}
	}
	return out
}

// rangeNexts returns the Next instructions of a Range and, for each, the
// key/value extracts.
func rangeParts(r *ssa.Range) (next *ssa.Next, key, val ssa.Value) {
	if r.Referrers() == nil {
		return
	}
	for _, u := range *r.Referrers() {
		if n, ok := u.(*ssa.Next); ok {
			next = n
			if n.Referrers() != nil {
				for _, e := range *n.Referrers() {
					if ex, ok := e.(*ssa.Extract); ok {
						switch ex.Index {
						case 1:
							key = ex
						case 2:
							val = ex
						}
					}
				}
			}
		}
	}
	return
}

// origins computes the leaves a value may come from, following φ, value
// preserving conversions, extracts of tuples, and loads of local variables
// (alloc cells, including cells captured by closures of the same top-level
// function) back to the values stored into them.
func (p *Prog) origins(v ssa.Value) []ssa.Value {
	// octx: the helper calls through whose results the walk went; inside them a parameter is
	// the argument of that very call (other call sites of the helper do not contribute)
	type octx struct {
		call   ssa.CallInstruction
		h      *ssa.Function
		parent *octx
	}
	type okey struct {
		v ssa.Value
		c ssa.CallInstruction
	}
	seen := map[okey]bool{}
	var out []ssa.Value
	var cx *octx
	var walk func(v ssa.Value, d int)
	enter := func(cc ssa.CallInstruction, h *ssa.Function, f func()) {
		saved := cx
		cx = &octx{call: cc, h: h, parent: saved}
		f()
		cx = saved
	}
	walk = func(v ssa.Value, d int) {
		var cc ssa.CallInstruction
		if cx != nil {
			cc = cx.call
		}
		if v == nil || seen[okey{v, cc}] {
			return
		}
		seen[okey{v, cc}] = true
		if d > 12 {
			out = append(out, v)
			return
		}
		switch x := v.(type) {
		case *ssa.Phi:
			for _, e := range x.Edges {
				walk(e, d+1)
			}
		case *ssa.ChangeType:
			walk(x.X, d+1)
		case *ssa.MakeInterface:
			walk(x.X, d+1)
		case *ssa.ChangeInterface:
			walk(x.X, d+1)
		case *ssa.Extract:
			// one result of a plain helper: what the helper returns in that position
			if cc, isC := x.Tuple.(*ssa.Call); isC {
				if h := p.calleeOf(cc); h != nil && p.isPlainHelper(h) && p.queueWrapper(h) == nil {
					n := 0
					enter(cc, h, func() {
						eachInstrLocal(h, func(in ssa.Instruction) {
							if r, isR := in.(*ssa.Return); isR && x.Index < len(r.Results) {
								n++
								walk(r.Results[x.Index], d+1)
							}
						})
					})
					if n > 0 {
						return
					}
				}
			}
			out = append(out, v)
		case *ssa.Call:
			// the single result of a plain helper: what the helper returns
			if h := p.calleeOf(x); h != nil && p.isPlainHelper(h) && h.Signature.Results().Len() == 1 && p.queueWrapper(h) == nil {
				n := 0
				enter(x, h, func() {
					eachInstrLocal(h, func(in ssa.Instruction) {
						if r, isR := in.(*ssa.Return); isR && len(r.Results) == 1 {
							n++
							walk(r.Results[0], d+1)
						}
					})
				})
				if n > 0 {
					return
				}
			}
			// err := do() inside a helper, do being a closure passed by every caller: what the closures return
			if prm, isP := x.Common().Value.(*ssa.Parameter); isP && !x.Common().IsInvoke() {
				if h := prm.Parent(); p.isPlainHelper(h) && p.calledOnly(prm) && len(p.callers[h]) > 0 {
					all := true
					var rets []ssa.Value
					for _, cs := range p.callers[h] {
						cl := p.closureArgs(cs, h)[prm]
						if cl == nil {
							all = false
							break
						}
						eachInstrLocal(cl, func(in ssa.Instruction) {
							if r, isR := in.(*ssa.Return); isR && len(r.Results) > 0 {
								rets = append(rets, r.Results[0])
							}
						})
					}
					if all && len(rets) > 0 {
						for _, r := range rets {
							walk(r, d+1)
						}
						return
					}
				}
			}
			out = append(out, v)
		case *ssa.Parameter:
			// the parameter of a plain helper comes from the arguments of its calls
			if h := x.Parent(); p.isPlainHelper(h) && len(p.callers[h]) > 0 {
				k := -1
				for j, q := range h.Params {
					if q == x {
						k = j
					}
				}
				// reached through a result of one particular call of the helper
				for c := cx; c != nil && k >= 0; c = c.parent {
					if c.h == h {
						if args := c.call.Common().Args; k < len(args) {
							saved := cx
							cx = c.parent
							walk(args[k], d+1)
							cx = saved
							return
						}
					}
				}
				if a, bound := p.bind[x]; bound && a != v {
					walk(a, d+1)
					return
				}
				if k >= 0 {
					for _, cs := range p.callers[h] {
						if args := cs.Common().Args; k < len(args) {
							walk(args[k], d+1)
						}
					}
					return
				}
			}
			out = append(out, v)
		case *ssa.UnOp:
			if x.Op == token.MUL {
				if cell := p.localCell(x.X); cell != nil {
					st := p.storesToCell(cell)
					if p.flowCells {
						if rs, ok := p.reachingStores(x, cell); ok {
							st = rs
						}
					}
					if len(st) > 0 {
						for _, s := range st {
							walk(s, d+1)
						}
						return
					}
				}
			}
			out = append(out, v)
		default:
			out = append(out, v)
		}
	}
	walk(v, 0)
	return out
}

// originsFlow is origins with local variable cells read flow-sensitively: a load sees only the
// stores that reach it (when the cell is written in its own function only).
func (p *Prog) originsFlow(v ssa.Value) []ssa.Value {
	saved := p.flowCells
	p.flowCells = true
	defer func() { p.flowCells = saved }()
	return p.origins(v)
}

// reachingStores returns the values of the stores to cell that reach the load ld, walking the
// control-flow graph backwards. ok is false when the cell is also written outside ld's function
// (a closure) or the load may see the cell's zero value.
func (p *Prog) reachingStores(ld *ssa.UnOp, cell *ssa.Alloc) ([]ssa.Value, bool) {
	fn := ld.Parent()
	if cell.Parent() != fn || ld.X != ssa.Value(cell) {
		return nil, false
	}
	for _, f := range withClosuresLocal(topParent(fn)) {
		if f == fn {
			continue
		}
		bad := false
		eachInstrLocal(f, func(in ssa.Instruction) {
			if s, ok := in.(*ssa.Store); ok && isFreeVarOf(s.Addr, cell, p) {
				bad = true
			}
		})
		if bad {
			return nil, false
		}
	}
	var out []ssa.Value
	okAll := true
	lastIn := func(b *ssa.BasicBlock, before int) *ssa.Store {
		for i := before - 1; i >= 0; i-- {
			if s, ok := b.Instrs[i].(*ssa.Store); ok && s.Addr == ssa.Value(cell) {
				return s
			}
		}
		return nil
	}
	if s := lastIn(ld.Block(), p.idx[ld]); s != nil {
		return []ssa.Value{s.Val}, true
	}
	seen := map[*ssa.BasicBlock]bool{}
	var back func(b *ssa.BasicBlock)
	back = func(b *ssa.BasicBlock) {
		if len(b.Preds) == 0 {
			okAll = false // the entry: the zero value
			return
		}
		for _, pb := range b.Preds {
			if seen[pb] {
				continue
			}
			seen[pb] = true
			if s := lastIn(pb, len(pb.Instrs)); s != nil {
				out = append(out, s.Val)
				continue
			}
			back(pb)
		}
	}
	back(ld.Block())
	return out, okAll && len(out) > 0
}

// localCell returns the Alloc (or the Alloc bound to a FreeVar) that addr
// denotes, when addr is a local variable cell.
func (p *Prog) localCell(addr ssa.Value) *ssa.Alloc {
	switch x := addr.(type) {
	case *ssa.Alloc:
		if _, isStruct := x.Type().Underlying().(*types.Pointer).Elem().Underlying().(*types.Struct); isStruct {
			return nil
		}
		return x
	case *ssa.FreeVar:
		fn := x.Parent()
		par := fn.Parent()
		if par == nil {
			return nil
		}
		idx := -1
		for i, fv := range fn.FreeVars {
			if fv == x {
				idx = i
			}
		}
		var res *ssa.Alloc
		eachInstrLocal(par, func(in ssa.Instruction) {
			if mc, ok := in.(*ssa.MakeClosure); ok && mc.Fn == fn && idx >= 0 && idx < len(mc.Bindings) {
				if a := p.localCell(mc.Bindings[idx]); a != nil {
					res = a
				}
			}
		})
		return res
	}
	return nil
}

// storesToCell returns every value stored into the cell anywhere in the
// top-level function and its closures.
func (p *Prog) storesToCell(cell *ssa.Alloc) []ssa.Value {
	var out []ssa.Value
	top := topParent(cell.Parent())
	for _, fn := range withClosuresLocal(top) {
		eachInstrLocal(fn, func(in ssa.Instruction) {
			if s, ok := in.(*ssa.Store); ok {
				if s.Addr == ssa.Value(cell) || (isFreeVarOf(s.Addr, cell, p)) {
					out = append(out, s.Val)
				}
			}
		})
	}
	return out
}

func isFreeVarOf(addr ssa.Value, cell *ssa.Alloc, p *Prog) bool {
	fv, ok := addr.(*ssa.FreeVar)
	if !ok {
		return false
	}
	return p.localCell(fv) == cell
}

// boundValue resolves a FreeVar of a closure to the value bound at its
// (single) MakeClosure site; other values are returned unchanged.
func (p *Prog) boundValue(v ssa.Value) ssa.Value {
	fv, ok := v.(*ssa.FreeVar)
	if !ok {
		return v
	}
	fn := fv.Parent()
	par := fn.Parent()
	if par == nil {
		return v
	}
	idx := -1
	for i, x := range fn.FreeVars {
		if x == fv {
			idx = i
		}
	}
	var res ssa.Value = v
	eachInstrLocal(par, func(in ssa.Instruction) {
		if mc, ok := in.(*ssa.MakeClosure); ok && mc.Fn == fn && idx >= 0 {
			res = mc.Bindings[idx]
		}
	})
	return res
}

// sameOrigins reports whether every origin of a is an origin of b.
func (p *Prog) originsSubset(a, b ssa.Value) bool {
	ob := map[ssa.Value]bool{}
	for _, o := range p.origins(b) {
		ob[o] = true
	}
	for _, o := range p.origins(a) {
		if !ob[o] {
			return false
		}
	}
	return true
}

// isGlobalLoad reports whether v is a load of the package-level variable name.
func isGlobalLoad(v ssa.Value, name string) bool {
	v = seeThrough(v)
	u, ok := v.(*ssa.UnOp)
	if !ok || u.Op != token.MUL {
		return false
	}
	g, ok := u.X.(*ssa.Global)
	return ok && g.Name() == name && g.Pkg != nil && g.Pkg.Pkg.Path() == rpcPath
}

// constInt returns the integer value of a constant.
func constInt(v ssa.Value) (int64, bool) {
	v = seeThrough(v)
	c, ok := v.(*ssa.Const)
	if !ok || c.Value == nil {
		return 0, false
	}
	if c.Value.Kind().String() != "Int" {
		return 0, false
	}
	return c.Int64(), true
}

// storesToField returns the Store instructions into st.field.
func (p *Prog) storesToField(st, field string) []Access {
	var out []Access
	for _, a := range p.fieldAccesses(st, field) {
		if a.Kind == "write" {
			out = append(out, a)
		}
	}
	return out
}

// callsIn returns the calls (plain, go and defer) in fn whose callee name
// matches one of names.
func callsIn(fn *ssa.Function, names ...string) []ssa.CallInstruction {
	var out []ssa.CallInstruction
	have := map[ssa.CallInstruction]bool{}
	eachInstr(fn, func(in ssa.Instruction) {
		if c, ok := in.(ssa.CallInstruction); ok && !have[c] {
			n := calleeName(c)
			for _, x := range names {
				if n == x {
					have[c] = true
					out = append(out, c)
				}
			}
		}
	})
	return out
}

// fnsCalling returns the package functions containing a call to one of names.
func (p *Prog) fnsCalling(names ...string) []*ssa.Function {
	var out []*ssa.Function
	for _, fn := range p.AllFns {
		if len(callsIn(fn, names...)) > 0 {
			out = append(out, fn)
		}
	}
	return out
}

// canon maps a load of a single-assignment local variable cell (the shape
// go/ssa gives to variables captured by closures) to the value stored into
// it, so that two loads of the same variable are recognised as one register.
func (p *Prog) canon(v ssa.Value) ssa.Value {
	for i := 0; i < 8; i++ {
		// a parameter of a helper with a single call site is the argument passed there
		if prm, ok := v.(*ssa.Parameter); ok {
			if a, bound := p.bind[prm]; bound && a != v {
				// a path search is inside this helper: the parameter is what the call chain passed
				v = a
				continue
			}
			fn := prm.Parent()
			if p.isPlainHelper(fn) && len(p.callers[fn]) == 1 {
				k := -1
				for j, q := range fn.Params {
					if q == prm {
						k = j
					}
				}
				args := p.callers[fn][0].Common().Args
				if k >= 0 && k < len(args) {
					v = args[k]
					continue
				}
			}
			return v
		}
		u, ok := v.(*ssa.UnOp)
		if !ok || u.Op != token.MUL {
			return v
		}
		cell := p.localCell(u.X)
		if cell == nil {
			return v
		}
		st := p.storesToCell(cell)
		if len(st) != 1 {
			return v
		}
		v = st[0]
	}
	return v
}

// seeThrough replaces the parameter of a single-site plain helper by the argument passed.
func seeThrough(v ssa.Value) ssa.Value {
	if _, ok := v.(*ssa.Parameter); ok && theProg != nil {
		return theProg.canon(v)
	}
	return v
}
