package main

// Role resolution: private helper functions are DISCOVERED by what they do
// (the table below), not by what they are called. A function identified as a
// role is given the role's canonical name (the name it has in the tree the
// rules were written against), so renaming a helper does not raise an alarm.
// A predicate that matches no function or more than one leaves names as they
// are; rules that then cannot find their anchor report "undecided".

import (
	"go/token"
	"go/types"
	"sort"
	"strings"

	"golang.org/x/tools/go/ssa"
)

var canonName = map[*ssa.Function]string{}

type roleDef struct {
	canon string
	pred  func(p *Prog, fn *ssa.Function) bool
}

func recvName(fn *ssa.Function) string {
	if fn.Signature.Recv() == nil {
		return ""
	}
	return namedOf(fn.Signature.Recv().Type())
}

// rawName is the declared name, ignoring role aliases.
func rawName(fn *ssa.Function) string { return canonRecv(shortName(fn.String())) }

func bodyHas(fn *ssa.Function, withClosuresToo bool, f func(ssa.Instruction) bool) bool {
	fns := []*ssa.Function{fn}
	if withClosuresToo {
		fns = withClosures(fn)
	}
	found := false
	for _, g := range fns {
		eachInstrLocal(g, func(in ssa.Instruction) {
			if !found && f(in) {
				found = true
			}
		})
	}
	return found
}

func rawCallee(c ssa.CallInstruction) string {
	cc := c.Common()
	if cc.IsInvoke() {
		return "invoke " + namedOf(cc.Value.Type()) + "." + cc.Method.Name()
	}
	switch v := cc.Value.(type) {
	case *ssa.Builtin:
		return "builtin " + v.Name()
	case *ssa.Function:
		return rawName(v)
	case *ssa.MakeClosure:
		return rawName(v.Fn.(*ssa.Function))
	}
	return "dynamic"
}

func callsRaw(fn *ssa.Function, closures bool, names ...string) bool {
	return bodyHas(fn, closures, func(in ssa.Instruction) bool {
		c, ok := in.(ssa.CallInstruction)
		if !ok {
			return false
		}
		n := rawCallee(c)
		for _, x := range names {
			if n == x {
				return true
			}
		}
		return false
	})
}

func storesField(fn *ssa.Function, st, field string) bool {
	return bodyHas(fn, false, func(in ssa.Instruction) bool {
		s, ok := in.(*ssa.Store)
		if !ok {
			return false
		}
		fr, _, ok := fieldOfAddr(s.Addr)
		return ok && fr.Struct == st && fr.Field == field
	})
}

func mapOpOnField(fn *ssa.Function, st, field, kind string) bool {
	return bodyHas(fn, false, func(in ssa.Instruction) bool {
		switch x := in.(type) {
		case *ssa.MapUpdate:
			return kind == "update" && isLoadOf(x.Map, st, field)
		case *ssa.Lookup:
			return kind == "lookup" && isLoadOf(x.X, st, field)
		case *ssa.Range:
			return kind == "range" && isLoadOf(x.X, st, field)
		case *ssa.Call:
			if rawCallee(x) == "builtin delete" {
				return kind == "delete" && isLoadOf(x.Call.Args[0], st, field)
			}
			if rawCallee(x) == "builtin append" {
				return kind == "append" && isLoadOf(x.Call.Args[0], st, field)
			}
		}
		return false
	})
}

func poolPutsType(fn *ssa.Function, typ string) bool {
	return bodyHas(fn, false, func(in ssa.Instruction) bool {
		c, ok := in.(*ssa.Call)
		if !ok || rawCallee(c) != "(*sync.Pool).Put" {
			return false
		}
		return pointeeName(unwrap(c.Call.Args[1])) == typ
	})
}

func poolGetsType(fn *ssa.Function, typ string) bool {
	return bodyHas(fn, false, func(in ssa.Instruction) bool {
		ta, ok := in.(*ssa.TypeAssert)
		if !ok {
			return false
		}
		c, ok := ta.X.(*ssa.Call)
		return ok && rawCallee(c) == "(*sync.Pool).Get" && pointeeName(ta) == typ
	})
}

func selectSendsOn(fn *ssa.Function, st, field string) bool {
	return bodyHas(fn, false, func(in ssa.Instruction) bool {
		sel, ok := in.(*ssa.Select)
		if !ok {
			return false
		}
		for _, s := range sel.States {
			if s.Dir == types.SendOnly && isLoadOf(s.Chan, st, field) {
				return true
			}
		}
		return false
	})
}

func atomicOn(fn *ssa.Function, op, st, field string) bool {
	return bodyHas(fn, false, func(in ssa.Instruction) bool {
		c, ok := in.(*ssa.Call)
		if !ok || rawCallee(c) != "sync/atomic."+op || len(c.Call.Args) == 0 {
			return false
		}
		fr, _, ok := fieldOfAddr(c.Call.Args[0])
		return ok && fr.Struct == st && fr.Field == field
	})
}

func isTop(fn *ssa.Function) bool { return fn.Parent() == nil }

var roleTable = []roleDef{
	// ---- server request path
	{"(*Server).sendResponse", func(p *Prog, fn *ssa.Function) bool {
		return isTop(fn) && recvName(fn) == "Server" && callsRaw(fn, false, "invoke ServerCodec.WriteResponse")
	}},
	{"(*Server).callService", func(p *Prog, fn *ssa.Function) bool {
		return isTop(fn) && recvName(fn) == "Server" && callsRaw(fn, true, "(*funcs.Func).ValueCall")
	}},
	{"(*Server).readRequestBody", func(p *Prog, fn *ssa.Function) bool {
		return isTop(fn) && recvName(fn) == "Server" && callsRaw(fn, false, "(*funcs.Funcs).GetFunc")
	}},
	{"(*Server).readRequestHeader", func(p *Prog, fn *ssa.Function) bool {
		return isTop(fn) && recvName(fn) == "Server" && callsRaw(fn, false, "invoke ServerCodec.ReadRequestHeader")
	}},
	{"(*Server).deleteCodec", func(p *Prog, fn *ssa.Function) bool {
		return isTop(fn) && recvName(fn) == "Server" && mapOpOnField(fn, "Server", "codecs", "delete")
	}},
	{"(*Server).putUpgrade", func(p *Prog, fn *ssa.Function) bool {
		return isTop(fn) && recvName(fn) == "Server" && poolPutsType(fn, "upgrade")
	}},
	{"(*Server).getUpgrade", func(p *Prog, fn *ssa.Function) bool {
		return isTop(fn) && recvName(fn) == "Server" && poolGetsType(fn, "upgrade") && len(fn.Blocks) == 1
	}},
	{"(*Server).listen", func(p *Prog, fn *ssa.Function) bool {
		return isTop(fn) && recvName(fn) == "Server" && callsRaw(fn, false, "invoke socket.Listener.Accept")
	}},
	// ---- client connection
	{"(*Conn).send", func(p *Prog, fn *ssa.Function) bool {
		return isTop(fn) && recvName(fn) == "Conn" && mapOpOnField(fn, "Conn", "pending", "update")
	}},
	{"(*Conn).read", func(p *Prog, fn *ssa.Function) bool {
		return isTop(fn) && recvName(fn) == "Conn" && callsRaw(fn, false, "invoke ClientCodec.ReadResponseHeader")
	}},
	{"(*Conn).recv", func(p *Prog, fn *ssa.Function) bool {
		return isTop(fn) && recvName(fn) == "Conn" && storesField(fn, "Conn", "shutdown")
	}},
	{"(*Conn).finishCall", func(p *Prog, fn *ssa.Function) bool {
		return isTop(fn) && recvName(fn) == "Conn" && bodyHas(fn, false, func(in ssa.Instruction) bool {
			c, ok := in.(*ssa.Call)
			return ok && rawCallee(c) == "invoke ClientCodec.ReadResponseBody" && !nilConst(c.Call.Args[1])
		}) && !callsRaw(fn, false, "invoke ClientCodec.ReadResponseHeader")
	}},
	{"(*Conn).closeStream", func(p *Prog, fn *ssa.Function) bool {
		return isTop(fn) && recvName(fn) == "Conn" && len(fn.Params) == 2 && pointeeName(fn.Params[1]) == "stream"
	}},
	{"(*Call).done", func(p *Prog, fn *ssa.Function) bool {
		return isTop(fn) && recvName(fn) == "Call" && selectSendsOn(fn, "Call", "Done")
	}},
	{"(*waiter).done", func(p *Prog, fn *ssa.Function) bool {
		return isTop(fn) && recvName(fn) == "waiter" && selectSendsOn(fn, "waiter", "Done")
	}},
	{"(*stream).trigger", func(p *Prog, fn *ssa.Function) bool {
		return isTop(fn) && recvName(fn) == "stream" && mapOpOnField(fn, "stream", "events", "append")
	}},
	{"(*stream).stop", func(p *Prog, fn *ssa.Function) bool {
		return isTop(fn) && recvName(fn) == "stream" && atomicOn(fn, "StoreInt32", "stream", "closed")
	}},
	{"putContext", func(p *Prog, fn *ssa.Function) bool {
		return isTop(fn) && recvName(fn) == "" && poolPutsType(fn, "Context")
	}},
	{"getContext", func(p *Prog, fn *ssa.Function) bool {
		return isTop(fn) && recvName(fn) == "" && poolGetsType(fn, "Context") && len(fn.Blocks) == 1
	}},
	{"putUpgrade", func(p *Prog, fn *ssa.Function) bool {
		return isTop(fn) && recvName(fn) == "" && poolPutsType(fn, "upgrade")
	}},
	{"getUpgrade", func(p *Prog, fn *ssa.Function) bool {
		return isTop(fn) && recvName(fn) == "" && poolGetsType(fn, "upgrade") && len(fn.Blocks) == 1
	}},
	{"freeEvent", func(p *Prog, fn *ssa.Function) bool {
		return isTop(fn) && recvName(fn) == "" && poolPutsType(fn, "event")
	}},
	{"getEvent", func(p *Prog, fn *ssa.Function) bool {
		return isTop(fn) && recvName(fn) == "" && poolGetsType(fn, "event") && len(fn.Blocks) == 1
	}},
	{"checkBuffer", func(p *Prog, fn *ssa.Function) bool {
		if !isTop(fn) || recvName(fn) != "" || len(fn.Params) != 2 || !isByteSlice(fn.Params[0].Type()) {
			return false
		}
		if b, ok := fn.Params[1].Type().Underlying().(*types.Basic); !ok || b.Kind() != types.Int {
			return false
		}
		return fn.Object() != nil && !fn.Object().Exported() && bodyHas(fn, false, func(in ssa.Instruction) bool { _, ok := in.(*ssa.MakeSlice); return ok })
	}},
	// ---- transport
	{"(*Transport).getConn", func(p *Prog, fn *ssa.Function) bool {
		return isTop(fn) && recvName(fn) == "Transport" && callsRaw(fn, false, "(*sync.Once).Do")
	}},
	{"(*Transport).newPersistConn", func(p *Prog, fn *ssa.Function) bool {
		return isTop(fn) && recvName(fn) == "Transport" && bodyHas(fn, false, func(in ssa.Instruction) bool {
			c, ok := in.(*ssa.Call)
			return ok && rawCallee(c) == "dynamic" && isLoadOf(c.Common().Value, "Transport", "Dial")
		})
	}},
	{"(*Transport).run", func(p *Prog, fn *ssa.Function) bool {
		return isTop(fn) && recvName(fn) == "Transport" && callsRaw(fn, false, "time.NewTicker")
	}},
	{"checkPersistConnErr", func(p *Prog, fn *ssa.Function) bool {
		return isTop(fn) && recvName(fn) == "" && storesField(fn, "persistConn", "alive")
	}},
	{"(*conns).Append", func(p *Prog, fn *ssa.Function) bool {
		return isTop(fn) && recvName(fn) == "conns" && mapOpOnField(fn, "conns", "Conns", "append")
	}},
	{"(*conns).Delete", func(p *Prog, fn *ssa.Function) bool {
		return isTop(fn) && recvName(fn) == "conns" && callsRaw(fn, false, "builtin copy")
	}},
	{"(*conns).Cursor", func(p *Prog, fn *ssa.Function) bool {
		return isTop(fn) && recvName(fn) == "conns" && storesField(fn, "conns", "cursor")
	}},
	{"newConnQueue", func(p *Prog, fn *ssa.Function) bool {
		if !isTop(fn) || recvName(fn) != "" || fn.Signature.Results().Len() != 1 {
			return false
		}
		return pointeeNameT(fn.Signature.Results().At(0).Type()) == "connQueue"
	}},
	{"(*connQueue).Enqueue", func(p *Prog, fn *ssa.Function) bool {
		return isTop(fn) && recvName(fn) == "connQueue" && lengthDelta(fn, token.ADD)
	}},
	{"(*connQueue).Dequeue", func(p *Prog, fn *ssa.Function) bool {
		return isTop(fn) && recvName(fn) == "connQueue" && lengthDelta(fn, token.SUB)
	}},
	{"(*connQueue).Length", func(p *Prog, fn *ssa.Function) bool {
		return isTop(fn) && recvName(fn) == "connQueue" && len(fn.Blocks) == 1 && bodyHas(fn, false, func(in ssa.Instruction) bool {
			r, ok := in.(*ssa.Return)
			return ok && len(r.Results) == 1 && isLoadOf(r.Results[0], "connQueue", "length")
		})
	}},
	// ---- client
	{"(*Client).director", func(p *Prog, fn *ssa.Function) bool {
		return isTop(fn) && recvName(fn) == "Client" && callsRaw(fn, false, "time.NewTimer") && fn.Signature.Results().Len() == 3
	}},
	{"(*Client).schedule", func(p *Prog, fn *ssa.Function) bool {
		return isTop(fn) && recvName(fn) == "Client" && callsRaw(fn, false, "math/rand.Intn")
	}},
	{"(*Client).check", func(p *Prog, fn *ssa.Function) bool {
		return isTop(fn) && recvName(fn) == "Client" && callsRaw(fn, false, "sort.Strings")
	}},
	{"(*Client).wait", func(p *Prog, fn *ssa.Function) bool {
		return isTop(fn) && recvName(fn) == "Client" && mapOpOnField(fn, "Client", "pending", "update")
	}},
	{"(*Client).checkClosed", func(p *Prog, fn *ssa.Function) bool {
		return isTop(fn) && recvName(fn) == "Client" && len(fn.Params) == 2 && pointeeName(fn.Params[1]) == "waiter" && atomicOn(fn, "LoadUint32", "Client", "closed")
	}},
	{"(*Client).checkPending", func(p *Prog, fn *ssa.Function) bool {
		return isTop(fn) && recvName(fn) == "Client" && fn.Object() != nil && !fn.Object().Exported() && mapOpOnField(fn, "Client", "pending", "range") && len(fn.Params) == 1
	}},
	{"(*Client).transport", func(p *Prog, fn *ssa.Function) bool {
		return isTop(fn) && recvName(fn) == "Client" && fn.Signature.Results().Len() == 1 && namedOf(fn.Signature.Results().At(0).Type()) == "RoundTripper" && len(fn.Params) == 1
	}},
	{"(*target).Alive", func(p *Prog, fn *ssa.Function) bool {
		return isTop(fn) && recvName(fn) == "target" && storesField(fn, "target", "alive")
	}},
	{"(*target).Update", func(p *Prog, fn *ssa.Function) bool {
		return isTop(fn) && recvName(fn) == "target" && callsRaw(fn, false, "sync/atomic.StoreInt64")
	}},
}

func pointeeNameT(t types.Type) string {
	if pt, ok := t.Underlying().(*types.Pointer); ok {
		return namedOf(pt.Elem())
	}
	return ""
}

// lengthDelta: fn stores connQueue.length = connQueue.length <op> 1.
func lengthDelta(fn *ssa.Function, op token.Token) bool {
	return bodyHas(fn, false, func(in ssa.Instruction) bool {
		s, ok := in.(*ssa.Store)
		if !ok {
			return false
		}
		fr, _, ok := fieldOfAddr(s.Addr)
		if !ok || fr.Struct != "connQueue" || fr.Field != "length" {
			return false
		}
		b, ok := s.Val.(*ssa.BinOp)
		return ok && b.Op == op
	})
}

// second-stage roles are defined in terms of first-stage roles.
type roleDef2 struct {
	canon string
	pred  func(p *Prog, fn *ssa.Function, role map[string]*ssa.Function) bool
}

func callsFn(fn *ssa.Function, closures bool, target *ssa.Function) bool {
	if target == nil {
		return false
	}
	return bodyHas(fn, closures, func(in ssa.Instruction) bool {
		c, ok := in.(ssa.CallInstruction)
		return ok && c.Common().StaticCallee() == target
	})
}

var roleTable2 = []roleDef2{
	{"(*Server).handleRequest", func(p *Prog, fn *ssa.Function, r map[string]*ssa.Function) bool {
		return isTop(fn) && recvName(fn) == "Server" && callsFn(fn, false, r["(*Server).readRequestBody"]) && callsFn(fn, false, r["(*Server).callService"])
	}},
	{"(*Conn).write", func(p *Prog, fn *ssa.Function, r map[string]*ssa.Function) bool {
		return isTop(fn) && recvName(fn) == "Conn" && fn != r["(*Conn).send"] && callsFn(fn, false, r["(*Conn).send"])
	}},
	{"(*Call).streaming", func(p *Prog, fn *ssa.Function, r map[string]*ssa.Function) bool {
		return isTop(fn) && recvName(fn) == "Call" && callsFn(fn, false, r["(*stream).trigger"])
	}},
	{"(*Client).detect", func(p *Prog, fn *ssa.Function, r map[string]*ssa.Function) bool {
		return isTop(fn) && recvName(fn) == "Client" && bodyHas(fn, false, func(in ssa.Instruction) bool {
			g, ok := in.(*ssa.Go)
			return ok && g.Common().StaticCallee() == r["(*Client).check"] && r["(*Client).check"] != nil
		})
	}},
	{"(*Client).run", func(p *Prog, fn *ssa.Function, r map[string]*ssa.Function) bool {
		return isTop(fn) && recvName(fn) == "Client" && callsRaw(fn, false, "time.NewTicker")
	}},
	{"heapDown", func(p *Prog, fn *ssa.Function, r map[string]*ssa.Function) bool {
		// the sift-down step: swaps, and is not itself what the Client's scheduler calls
		return isTop(fn) && recvName(fn) == "" && callsRaw(fn, false, "(list).Swap") && !calledFromClient(p, fn)
	}},
}

// calledFromClient: some method of Client calls fn directly.
func calledFromClient(p *Prog, fn *ssa.Function) bool {
	for _, g := range p.AllFns {
		if recvName(topParent(g)) == "Client" && callsFn(g, false, fn) {
			return true
		}
	}
	return false
}

var roleTable3 = []roleDef2{
	{"minHeap", func(p *Prog, fn *ssa.Function, r map[string]*ssa.Function) bool {
		// heapify: the receiver-less function the Client's scheduler calls that sifts (itself or through heapDown)
		if !isTop(fn) || recvName(fn) != "" || fn == r["heapDown"] || !calledFromClient(p, fn) {
			return false
		}
		return callsRaw(fn, false, "(list).Swap") || (r["heapDown"] != nil && callsFn(fn, false, r["heapDown"]))
	}},
}

// resolveRoles fills canonName. It returns a report of the aliases applied.
func (p *Prog) resolveRoles() []string {
	canonName = map[*ssa.Function]string{}
	role := map[string]*ssa.Function{}
	var report []string
	assign := func(canon string, matches []*ssa.Function) {
		if len(matches) != 1 {
			return
		}
		fn := matches[0]
		if prev, taken := canonName[fn]; taken && prev != canon {
			return
		}
		for other, g := range role {
			if g == fn && other != canon {
				return // the function already plays another role
			}
		}
		// exported API names are fixed anchors: a role never renames them (a
		// helper inlined into an exported function simply has no role any more)
		if fn.Object() != nil && fn.Object().Exported() && rawName(fn) != canon {
			return
		}
		role[canon] = fn
		if rawName(fn) != canon {
			canonName[fn] = canon
			report = append(report, rawName(fn)+" ⇒ "+canon)
		}
	}
	for _, rd := range roleTable {
		var m []*ssa.Function
		for _, fn := range p.AllFns {
			if rd.pred(p, fn) {
				m = append(m, fn)
			}
		}
		assign(rd.canon, m)
	}
	for _, tbl := range [][]roleDef2{roleTable2, roleTable3} {
		for _, rd := range tbl {
			var m []*ssa.Function
			for _, fn := range p.AllFns {
				if rd.pred(p, fn, role) {
					m = append(m, fn)
				}
			}
			assign(rd.canon, m)
		}
	}
	// a canonical name must not collide with the declared name of another function
	for fn, cn := range canonName {
		for _, g := range p.AllFns {
			if g != fn && rawName(g) == cn {
				delete(canonName, fn)
			}
		}
	}
	sort.Strings(report)
	return report
}

var _ = strings.HasPrefix
