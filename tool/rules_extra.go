package main

// Rules added after the generic mutation sweep (DESIGN.md §10): each closes a
// class of single-site edits that the repository's tests and the earlier
// rules both missed.

import (
	"fmt"
	"go/token"
	"go/types"
	"strings"

	"golang.org/x/tools/go/ssa"
)

// readerFn returns the response reader (lookup in Conn.pending, not the sender) and its lookup.
func readerFn(p *Prog) (*ssa.Function, *ssa.Lookup) {
	for _, l := range pendingOps(p, "lookup") {
		if len(pendingOps2(p, topParent(l.Fn), "update")) == 0 {
			return l.Fn, l.Instr.(*ssa.Lookup)
		}
	}
	return nil, nil
}

// ruleReaderTotal (C02/C03): each kind of response the reader recognises ends
// in the completion (or delivery) of the looked-up call on every path.
func ruleReaderTotal(c *Check, a *Analysis, rule string) {
	p := c.P
	c.Rule(rule, "in the response reader every recognised arm completes the looked-up call on every path: the error arm and the ping / stream-close / stream-open-ack arms reach done(), the success arm reaches the hand-off to finishCall, the stream-message arm reaches delivery (Call.streaming)", 5)
	fn, lk := readerFn(p)
	if fn == nil {
		c.Undecided(rule, "response reader not found")
		return
	}
	comp := computeCompletion(p)
	key := p.varKey(lk)
	isCompletion := func(x ssa.Instruction) bool {
		for _, s := range comp.sitesIn(fn) {
			if s.Instr == x && s.What != "Error=" && p.sameVarOrigin(s.Var, lk) {
				return true
			}
		}
		return false
	}
	deliveries := eventsOf(fn, deliveryName(p))
	isDelivery := func(x ssa.Instruction) bool { return isIn(x, deliveries) }
	rooted := func(field string, k int64, eqWanted bool) condMatch {
		return func(cond ssa.Value) (bool, bool) {
			b, ok := cond.(*ssa.BinOp)
			if !ok || (b.Op != token.EQL && b.Op != token.NEQ) {
				return false, false
			}
			x, y := b.X, b.Y
			if _, isC := x.(*ssa.Const); isC {
				x, y = y, x
			}
			if kk, ok := constInt(y); !ok || kk != k {
				return false, false
			}
			path, ok := p.apath(x, key)
			if !ok || path != ".upgrade."+field {
				return false, false
			}
			return true, (b.Op == token.EQL) == eqWanted
		}
	}
	type arm struct {
		name string
		m    condMatch
		eff  ipred
	}
	arms := []arm{
		{"error response", negate(matchFieldLenZero(p, "Context", "Error")), isCompletion},
		{"ping", rooted("Heartbeat", 1, true), isCompletion},
		{"stream close ack", rooted("Stream", 3, true), isCompletion},
		{"stream open ack", rooted("Stream", 1, true), isCompletion},
		{"stream message", rooted("Stream", 2, true), isDelivery},
		{"plain success", rooted("NoResponse", 1, false), isCompletion},
	}
	for _, ar := range arms {
		edges, n := p.guardEdges(fn, ar.m)
		if n == 0 {
			c.Undecided(rule, "the reader has no test for the "+ar.name+" arm")
			continue
		}
		for e := range edges {
			// only edges after the lookup's critical section decide the arm (the delete condition tests the phase too)
			if !lk.Block().Dominates(e.from) || p.reachesLockSectionOf(fn, e.from, lk) {
				continue
			}
			// inside the arm its own predicate keeps holding (a repeated test of it goes the same
			// way), and a stream message for a call without a stream has nowhere to go
			cut, _ := p.guardEdges(fn, negate(ar.m))
			if ar.name == "stream message" {
				nilStream, _ := p.guardEdges(fn, matchFieldNilAny(p, "stream"))
				for k := range nilStream {
					cut[k] = true
				}
			}
			delete(cut, edge{e.from, e.to})
			_, tr, miss := p.reachFromBlock(fn, e.to, isReturnLike, ar.eff, cut)
			c.Ob(rule, fname(fn)+"#"+ar.name+" arm completes", p.InstrPos(e.to.Instrs[0]), !miss, ifs(miss, "the "+ar.name+" arm can return without completing/delivering the call ("+p.lineTrail(tr)+"): the caller waits forever / the message is lost"))
		}
	}
}

// reachesLockSectionOf: block b lies inside the critical section that contains l
// (an Unlock of Conn.mutex is reachable from b and b is reachable from l without an unlock).
func (p *Prog) reachesLockSectionOf(fn *ssa.Function, b *ssa.BasicBlock, l ssa.Instruction) bool {
	if len(b.Instrs) == 0 {
		return false
	}
	isUnlock := func(x ssa.Instruction) bool {
		op, ok := lockOpOf(x)
		return ok && !op.acquire && op.key == "Conn.mutex"
	}
	last := b.Instrs[len(b.Instrs)-1]
	_, _, found := p.reachFrom(fn, l, func(x ssa.Instruction) bool { return x == last }, isUnlock)
	return found
}

// ruleSeqAdvanceOnPath (C01): on every path that registers a call under the
// connection counter (not a stream's own number) the counter is advanced.
func ruleSeqAdvanceOnPath(c *Check, a *Analysis, rule string) {
	p := c.P
	c.Rule(rule, "on every path on which a call is registered under a key read from Conn.seq (all calls except stream messages and stream closes) Conn.seq is incremented before the registration", 1)
	for _, m := range pendingOps(p, "update") {
		fn := m.Fn
		var seqLoad ssa.Instruction
		for _, o := range p.origins(m.Key) {
			if isLoadOf(o, "Conn", "seq") {
				seqLoad = o.(ssa.Instruction)
			}
		}
		if seqLoad == nil {
			continue
		}
		cut := map[edge]bool{}
		for _, k := range []int64{2, 3} {
			es, _ := p.guardEdges(fn, matchFieldEqConst("upgrade", "Stream", k))
			for e := range es {
				cut[e] = true
			}
		}
		isInc := func(x ssa.Instruction) bool {
			st, ok := x.(*ssa.Store)
			if !ok {
				return false
			}
			fr, _, ok := fieldOfAddr(st.Addr)
			return ok && fr.Struct == "Conn" && fr.Field == "seq"
		}
		_, tr, found := p.reachCut(fn, seqLoad, func(x ssa.Instruction) bool { return x == m.Instr }, isInc, cut)
		c.Ob(rule, fname(fn)+"#seq++ on every registering path", p.InstrPos(m.Instr), !found, ifs(found, "a call can be registered under Conn.seq without the counter being advanced ("+p.lineTrail(tr)+"): the next call gets the same sequence number and one of them receives the other's reply"))
	}
}

// ruleClientMisc bundles small client-connection rules.
func ruleEOFMapping(c *Check, a *Analysis, rule string) {
	p := c.P
	c.Rule(rule, "the reader replaces its terminal error by ErrShutdown exactly when that error is io.EOF", 1)
	for _, st := range p.storesToField("Conn", "shutdown") {
		fn := st.Fn
		n := 0
		eachInstr(fn, func(in ssa.Instruction) {
			v, ok := in.(ssa.Value)
			if !ok || !isGlobalLoad(v, "ErrShutdown") {
				return
			}
			n++
			g, _ := p.guardedBy(in, func(cond ssa.Value) (bool, bool) {
				b, ok := cond.(*ssa.BinOp)
				if !ok || (b.Op != token.EQL && b.Op != token.NEQ) {
					return false, false
				}
				isEOF := func(v ssa.Value) bool {
					u, ok := v.(*ssa.UnOp)
					if !ok {
						return false
					}
					g, ok := u.X.(*ssa.Global)
					return ok && g.Name() == "EOF" && g.Pkg != nil && g.Pkg.Pkg.Path() == "io"
				}
				if isEOF(b.X) || isEOF(b.Y) {
					return true, b.Op == token.EQL
				}
				return false, false
			})
			c.Ob(rule, fname(fn)+"#err == io.EOF ⇒ ErrShutdown", p.InstrPos(in), g, ifs(!g, "the mapping to ErrShutdown is not tied to err == io.EOF: an orderly end is reported as a raw EOF (and real I/O errors as ErrShutdown)"))
		})
		if n == 0 {
			c.Ob(rule, fname(fn)+"#err == io.EOF ⇒ ErrShutdown", fn.Pos(), false, "the reader never maps EOF to ErrShutdown")
		}
	}
}

// ruleNoCloseUnderLock (C03/C20): a queue is never closed (drained) while
// Conn.mutex is held — Close runs the queued reader tasks inline and they lock it.
func ruleNoCloseUnderLock(c *Check, a *Analysis, rule string) {
	p := c.P
	ls := a.Locks()
	c.Rule(rule, "no scheduler queue of a connection is closed while Conn.mutex is held (Close runs queued tasks inline and they take the lock: self-deadlock)", 1)
	sc := siteCounter{}
	for _, fn := range p.Fns {
		if recvName(topParent(fn)) != "Conn" {
			continue
		}
		eachInstr(fn, func(in ssa.Instruction) {
			cc, ok := in.(*ssa.Call)
			if !ok || !cc.Common().IsInvoke() || cc.Common().Method.Name() != "Close" || namedOf(cc.Common().Value.Type()) != "scheduler.Scheduler" {
				return
			}
			held := ls.at[in] != nil && ls.at[in]["Conn.mutex"]
			c.Ob(rule, sc.key(fn, "queue closed outside Conn.mutex"), p.InstrPos(in), !held, ifs(held, "a queue is drained under Conn.mutex: the drained reader tasks lock the same mutex and the reader deadlocks — no pending call is ever failed"))
		})
	}
}

// ruleStreamSeqAssigned (C09): opening a stream records the registered key as the stream's number.
func ruleStreamSeqAssigned(c *Check, a *Analysis, rule string) {
	p := c.P
	c.Rule(rule, "on the stream-open path of the sender the registered sequence number is stored into stream.seq (later stream writes and the close reuse it)", 1)
	for _, m := range p.mapOps("Conn", "streams") {
		if m.Kind != "update" {
			continue
		}
		fn := m.Fn
		ok := false
		for _, st := range p.fieldStoresIn(fn, "stream", "seq") {
			if p.originsSubset(st.Val, m.Key) && (p.dominatesInstr(st, m.Instr) || p.canReach(m.Instr, st, nil)) {
				ok = true
			}
		}
		c.Ob(rule, fname(fn)+"#stream.seq = registered key", p.InstrPos(m.Instr), ok, ifs(!ok, "the stream's own sequence number is never recorded: every stream write and the close go out under number 0 and are routed to the wrong call"))
	}
}

// ruleClientDecodeErr (C06): a reply that cannot be decoded fails the call.
func ruleClientDecodeErr(c *Check, a *Analysis, rule string) {
	p := c.P
	c.Rule(rule, "when decoding the reply into the caller's object fails, Call.Error is set before the call is completed", 1)
	for _, fn := range p.Fns {
		for _, call := range invokesIn(fn, "ClientCodec", "ReadResponseBody") {
			if nilConst(call.Common().Args[1]) {
				continue
			}
			edges, n := p.guardEdges(fn, func(cond ssa.Value) (bool, bool) {
				k, eq, ok := p.condFact(cond)
				if !ok || k.c != "nil" || p.canon(k.v) != ssa.Value(call.Value()) {
					return false, false
				}
				return true, !eq
			})
			if n == 0 {
				c.Ob(rule, fname(fn)+"#decode error tested", p.InstrPos(call), false, "the result of decoding the reply is ignored: a garbled reply is reported as success")
				continue
			}
			for e := range edges {
				_, tr, miss := p.reachFromBlock(fn, e.to, func(x ssa.Instruction) bool {
					_, isD := isDoneCall(x)
					return isD || isReturnLike(x)
				}, func(x ssa.Instruction) bool {
					_, isE := isErrorStore(x)
					return isE
				}, nil)
				c.Ob(rule, fname(fn)+"#decode error ⇒ Call.Error", p.InstrPos(e.to.Instrs[0]), !miss, ifs(miss, "a reply that fails to decode completes the call without an error ("+p.lineTrail(tr)+")"))
			}
		}
	}
}

// rulePipeliningQueues (C05): SetPipelining installs both ordered queues.
func rulePipeliningQueues(c *Check, a *Analysis, rule string) {
	p := c.P
	c.Rule(rule, "Conn.SetPipelining installs both the ordered send queue and the ordered completion queue, each from scheduler.New(1, …)", 2)
	fn := p.Fn("(*Conn).SetPipelining")
	if fn == nil {
		c.Undecided(rule, "(*Conn).SetPipelining not found")
		return
	}
	for _, f := range []string{"writeSched", "readSched"} {
		ok := false
		for _, st := range p.fieldStoresIn(fn, "Conn", f) {
			if cc, isC := p.canon(st.Val).(*ssa.Call); isC && calleeName(cc) == "scheduler.New" {
				if na := p.newArgs(cc); len(na) > 0 {
					if k, isK := constInt(na[0]); isK && k == 1 {
						ok = true
					}
				}
			}
		}
		c.Ob(rule, "(*Conn).SetPipelining#Conn."+f, fn.Pos(), ok, ifs(!ok, "SetPipelining does not install Conn."+f+": requests / completions of a pipelined connection are no longer ordered"))
	}
}

// ruleAPIWrites (C03): every client call form hands its call to the sender on every path.
func ruleAPIWrites(c *Check, a *Analysis, rule string) {
	p := c.P
	c.Rule(rule, "every Conn call form (Call, Go, RoundTrip, CallWithContext, Ping, NewStream, stream close) passes its call to the sender on every path and installs the flag object and Done channel before doing so", 7)
	for _, fn := range p.Fns {
		if fn.Parent() != nil || recvName(fn) != "Conn" {
			continue
		}
		ws := callsIn(fn, "(*Conn).write")
		api := map[string]bool{"(*Conn).Call": true, "(*Conn).Go": true, "(*Conn).RoundTrip": true, "(*Conn).CallWithContext": true, "(*Conn).Ping": true, "(*Conn).NewStream": true}
		if fname(fn) == "(*Conn).write" || (len(ws) == 0 && !api[fname(fn)]) {
			continue
		}
		// a defensive early return for a nil *Call argument sends nothing because there is nothing to send
		nilCall := map[edge]bool{}
		for _, prm := range fn.Params {
			if pointeeName(prm) == "Call" {
				e, _ := p.guardEdges(fn, matchValueNil(p, prm))
				for k := range e {
					nilCall[k] = true
				}
			}
		}
		_, tr, found := p.reachCut(fn, nil, isReturnLike, func(x ssa.Instruction) bool { return isCallTo(x, "(*Conn).write") }, nilCall)
		okp := !found
		c.Ob(rule, fname(fn)+"#reaches the sender on every path", fn.Pos(), okp, ifs(!okp, "a path through "+fname(fn)+" never sends the call ("+p.lineTrail(tr)+"): the caller waits forever"))
		for _, w := range ws {
			arg := w.Common().Args[1]
			okU, okD := false, false
			for _, st := range p.fieldStoresIn(fn, "Call", "upgrade") {
				_, base, _ := fieldOfAddr(st.Addr)
				if p.sameVar(base, arg) && p.dominatesInstr(st, w.(ssa.Instruction)) {
					okU = true
				}
			}
			for _, st := range p.fieldStoresIn(fn, "Call", "Done") {
				_, base, _ := fieldOfAddr(st.Addr)
				if p.sameVar(base, arg) && p.dominatesInstr(st, w.(ssa.Instruction)) {
					okD = true
				}
			}
			// GetCall() installs Done itself
			for _, o := range p.varOrigins(arg) {
				if cc, ok := p.canon(o).(*ssa.Call); ok && calleeName(cc) == "GetCall" {
					okD = true
				}
			}
			if fn.Parent() != nil {
				continue
			}
			c.Ob(rule, fname(fn)+"#upgrade and Done installed before write", p.InstrPos(w), okU && okD, ifs(!(okU && okD), fmt.Sprintf("the call is sent without its flag object (%v) / Done channel (%v) installed", okU, okD)))
		}
	}
}

// ruleNumCallsMax (C15): NumCalls returns the larger of the two counts.
func ruleNumCallsMax(c *Check, a *Analysis, rule string) {
	p := c.P
	if _, ok := c.rules[rule]; !ok {
		c.Rule(rule, "Conn.NumCalls returns max(len(pending), len(streams))", 1)
	}
	fn := p.Fn("(*Conn).NumCalls")
	if fn == nil {
		return
	}
	isLenOf := func(v ssa.Value, f string) bool {
		for _, o := range p.origins(v) {
			if cc, ok := stripConv(p.canon(o)).(*ssa.Call); ok && calleeName(cc) == "builtin len" && isLoadOf(p.canon(cc.Call.Args[0]), "Conn", f) {
				return true
			}
		}
		return false
	}
	ok := false
	eachInstr(fn, func(in ssa.Instruction) {
		phi, isPhi := in.(*ssa.Phi)
		if !isPhi || len(phi.Edges) != 2 {
			return
		}
		for i, e := range phi.Edges {
			other := phi.Edges[1-i]
			// result takes e only where e > other (or >=)
			var fe, fo string
			for _, f := range []string{"pending", "streams"} {
				if isLenOf(e, f) && !strings.Contains(fe, f) {
					fe += f
				}
				if isLenOf(other, f) {
					fo += f
				}
			}
			if fe == "" || fo == "" || fe == fo {
				continue
			}
			pred := phi.Block().Preds[i]
			g, _ := p.guardedBy(pred.Instrs[len(pred.Instrs)-1], func(cond ssa.Value) (bool, bool) {
				b, isB := cond.(*ssa.BinOp)
				if !isB {
					return false, false
				}
				xe, ye := isLenOf(b.X, fe) && !isLenOf(b.X, fo), isLenOf(b.Y, fe) && !isLenOf(b.Y, fo)
				switch {
				case xe && (b.Op == token.GTR || b.Op == token.GEQ):
					return true, true
				case ye && (b.Op == token.LSS || b.Op == token.LEQ):
					return true, true
				case xe && (b.Op == token.LSS || b.Op == token.LEQ):
					return true, false
				case ye && (b.Op == token.GTR || b.Op == token.GEQ):
					return true, false
				}
				return false, false
			})
			if g && len(pred.Succs) == 1 {
				ok = true
			}
		}
	})
	c.Ob(rule, "(*Conn).NumCalls#returns the larger count", fn.Pos(), ok, ifs(!ok, "NumCalls does not return max(len(pending), len(streams)): a connection with an open stream (or outstanding calls) can look idle to housekeeping"))
}

// ruleCopyDestFresh (C11/C09): a copy of peer bytes into Call.Value goes into a
// buffer that was freshly assigned to Call.Value on that very path.
func ruleCopyDestFresh(c *Check, a *Analysis, rule string) {
	p := c.P
	c.Rule(rule, "every copy(call.Value, …) of peer bytes is dominated (in its function) by the assignment of a fresh or caller-supplied buffer to that Call.Value", 1)
	sc := siteCounter{}
	for _, fn := range p.Fns {
		eachInstr(fn, func(in ssa.Instruction) {
			cc, ok := in.(*ssa.Call)
			if !ok || calleeName(cc) != "builtin copy" {
				return
			}
			fr, base, isF := fieldOfLoad(p.canon(cc.Call.Args[0]))
			if !isF || fr.Struct != "Call" || fr.Field != "Value" {
				return
			}
			ok = false
			// every path from the function entry to the copy assigns Call.Value of the same call
			_, _, found := p.reachFrom(fn, nil, func(x ssa.Instruction) bool { return x == in }, func(x ssa.Instruction) bool {
				st, isS := x.(*ssa.Store)
				if !isS {
					return false
				}
				f2, b2, isF2 := fieldOfAddr(st.Addr)
				return isF2 && f2.Struct == "Call" && f2.Field == "Value" && p.sameVar(b2, base) && !nilConst(st.Val)
			})
			ok = !found
			c.Ob(rule, sc.key(fn, "copy into freshly assigned Call.Value"), p.InstrPos(in), ok, ifs(!ok, "peer bytes are copied into whatever Call.Value held before (a buffer already handed to the user or returned to the pool)"))
		})
	}
}

// ruleStreamCond (C10): every stream object gets its condition variable wired to its own mutex.
func ruleStreamCond(c *Check, a *Analysis, rule string) {
	p := c.P
	c.Rule(rule, "every stream that is constructed has cond.L set to its own mut in the constructing function (a nil Locker panics in Cond.Wait)", 2)
	sc := siteCounter{}
	for _, fn := range p.Fns {
		eachInstr(fn, func(in ssa.Instruction) {
			al, ok := in.(*ssa.Alloc)
			if !ok || pointeeName(al) != "stream" {
				return
			}
			wired := false
			for _, f := range withClosures(topParent(fn)) {
				for _, st := range storesIn(f) {
					fa, isFA := st.Addr.(*ssa.FieldAddr)
					if !isFA {
						continue
					}
					fr, _, okf := fieldOfAddr(fa)
					if !okf || fr.Struct != "sync.Cond" || fr.Field != "L" {
						continue
					}
					// value is &X.mut
					for _, o := range p.origins(st.Val) {
						if mi, isMI := o.(*ssa.MakeInterface); isMI {
							o = mi.X
						}
						if f2, _, ok2 := fieldOfAddr(unwrap(o)); ok2 && f2.Struct == "stream" && f2.Field == "mut" {
							wired = true
						}
					}
				}
			}
			c.Ob(rule, sc.key(fn, "stream.cond.L = &stream.mut"), p.InstrPos(in), wired, ifs(!wired, "a stream is created without its condition variable being bound to its mutex: the first blocking ReadMessage panics"))
		})
	}
}

// rulePushCtx (C09): the push closure equips its private context before writing.
func rulePushCtx(c *Check, a *Analysis, rule string) {
	p := c.P
	c.Rule(rule, "the server's push closure installs an upgrade object into its private context before WriteResponse", 1)
	for _, fn := range p.Fns {
		if fn.Parent() == nil || !strings.HasPrefix(fname(topParent(fn)), "(*Server).") {
			continue
		}
		for _, w := range invokesIn(fn, "ServerCodec", "WriteResponse") {
			ctxArg := p.canon(w.Common().Args[0])
			ok := false
			for _, st := range p.fieldStoresIn(fn, "Context", "upgrade") {
				_, base, _ := fieldOfAddr(st.Addr)
				if p.canon(base) == ctxArg && p.dominatesInstr(st, w.(ssa.Instruction)) && !nilConst(st.Val) {
					ok = true
				}
			}
			c.Ob(rule, fname(fn)+"#sendCtx.upgrade installed", p.InstrPos(w), ok, ifs(!ok, "the push closure writes with a context whose upgrade was never installed: nil dereference on the first server push"))
		}
	}
}

// ruleWGDiscipline (C08/C10/C20): Add(1) when queueing, deferred Done in the worker.
func ruleWGDiscipline(c *Check, a *Analysis, rule string) {
	p := c.P
	if _, ok := c.rules[rule]; !ok {
		c.Rule(rule, "the connection wait group is incremented by exactly 1 per queued handler, and the worker defers Done whenever it was given the wait group", 3)
	}
	sc := siteCounter{}
	for _, fn := range p.Fns {
		if !strings.HasPrefix(fname(topParent(fn)), "(*Server).") {
			continue
		}
		for _, ad := range callsIn(fn, "(*sync.WaitGroup).Add") {
			k, isK := constInt(ad.Common().Args[1])
			c.Ob(rule, sc.key(fn, "wg.Add(1)"), p.InstrPos(ad), isK && k == 1, ifs(!(isK && k == 1), "the wait group is incremented by "+describe(ad.Common().Args[1])+" for one handler: the matching Done drives the counter negative (panic) or teardown waits forever"))
		}
	}
	if hr := p.Fn("(*Server).handleRequest"); hr != nil {
		ok := false
		{
			eachInstr(hr, func(in ssa.Instruction) {
				d, isD := in.(*ssa.Defer)
				if !isD || calleeNameCommon(d.Common()) != "(*sync.WaitGroup).Done" {
					return
				}
				// the wait group it was given: a parameter, or a field of a parameter struct
				wg := d.Call.Args[0]
				g, _ := p.guardedBy(in, negate(matchValueNil(p, wg)))
				if fr, _, isF := fieldOfLoad(p.canon(wg)); !g && isF {
					g, _ = p.guardedBy(in, negate(matchFieldNilAny(p, fr.Field)))
				}
				if fv, isFV := wg.(*ssa.Field); !g && isFV {
					if st2, okS := fv.X.Type().Underlying().(*types.Struct); okS {
						g, _ = p.guardedBy(in, negate(matchFieldNilAny(p, canonFieldName(namedOf(fv.X.Type()), st2.Field(fv.Field).Name()))))
					}
				}
				// and nothing that can block or return precedes it
				first := true
				eachInstr(hr, func(x ssa.Instruction) {
					if cc, isC := x.(*ssa.Call); isC && p.dominatesInstr(x, in) && !strings.HasPrefix(calleeName(cc), "builtin") {
						first = false
					}
				})
				if g && first {
					ok = true
				}
			})
		}
		c.Ob(rule, "(*Server).handleRequest#defers wg.Done when given a wait group", hr.Pos(), ok, ifs(!ok, "the worker does not defer wg.Done() (first thing, when wg != nil): a handler that was counted is never discounted and the connection's teardown waits forever"))
	}
}

// ruleSchedNil (C05/C08/C20): a scheduler that exists only in some modes is used only under a non-nil test.
func ruleSchedNil(c *Check, a *Analysis, rule string) {
	p := c.P
	c.Rule(rule, "every Schedule/Close invoked on a scheduler held in a field, parameter or captured variable (nil in some modes) is guarded by a non-nil test of that very value, unless that value is assigned a fresh scheduler.New on every path before", 6)
	sc := siteCounter{}
	for _, fn := range p.Fns {
		eachInstr(fn, func(in ssa.Instruction) {
			ci, ok := in.(ssa.CallInstruction)
			if !ok || !ci.Common().IsInvoke() {
				return
			}
			m := ci.Common().Method.Name()
			if (m != "Schedule" && m != "Close") || !strings.HasSuffix(ci.Common().Value.Type().String(), "scheduler.Scheduler") {
				return
			}
			v := ci.Common().Value
			// fresh on all origins → fine
			allFresh := true
			for _, o := range p.origins(v) {
				cc, isC := p.canon(o).(*ssa.Call)
				if !isC || calleeName(cc) != "scheduler.New" {
					allFresh = false
				}
			}
			if allFresh {
				c.Ob(rule, sc.key(fn, m+" on fresh scheduler"), p.InstrPos(in), true, "")
				return
			}
			g := false
			if fr, _, isF := fieldOfLoad(p.canon(v)); isF {
				g, _ = p.guardedBy(in, negate(matchFieldNilAny(p, fr.Field)))
			}
			if !g {
				g, _ = p.guardedBy(in, negate(matchValueNil(p, v)))
			}
			if !g {
				// a field that every constructor of the struct fills with a fresh scheduler
				g = schedEstablished(p, fn, in, v)
				if fr, _, isF := fieldOfLoad(p.canon(v)); g && isF {
					if onlyNil, _ := p.guardedBy(in, matchFieldNilAny(p, fr.Field)); onlyNil {
						c.Ob(rule, sc.key(fn, m+" not confined to the nil edge"), p.InstrPos(in), false, m+" on "+describe(v)+" is reachable only on the edge on which the scheduler was tested nil: it never runs for a live scheduler (its goroutine is never stopped / the task is never queued)")
						return
					}
				}
			}
			c.Ob(rule, sc.key(fn, m+" under non-nil test"), p.InstrPos(in), g, ifs(!g, m+" is invoked on "+describe(v)+" without a test that it is non-nil on this path: in the modes in which it is not created this is a nil-interface call (panic)"))
		})
	}
}

// schedEstablished: the value is loaded from a field that every allocation of its struct
// in package rpc initialises with a fresh scheduler.New, and that is never stored otherwise.
func schedEstablished(p *Prog, fn *ssa.Function, at ssa.Instruction, v ssa.Value) bool {
	fr, _, isF := fieldOfLoad(p.canon(v))
	if !isF {
		return false
	}
	allocs, inited := 0, 0
	for _, f := range p.Fns {
		eachInstr(f, func(in ssa.Instruction) {
			al, ok := in.(*ssa.Alloc)
			if !ok || pointeeName(al) != fr.Struct {
				return
			}
			if _, isStruct := al.Type().Underlying().(*types.Pointer).Elem().Underlying().(*types.Struct); !isStruct {
				return // a pointer-typed variable cell, not an object
			}
			allocs++
			for _, st := range p.fieldStoresIn(f, fr.Struct, fr.Field) {
				_, base, _ := fieldOfAddr(st.Addr)
				if cc, ok := p.canon(st.Val).(*ssa.Call); ok && calleeName(cc) == "scheduler.New" && p.canon(base) == ssa.Value(al) {
					inited++
					return
				}
			}
		})
	}
	if allocs == 0 || inited != allocs {
		return false
	}
	for _, s := range p.storesToField(fr.Struct, fr.Field) {
		if cc, ok := p.canon(s.Instr.(*ssa.Store).Val).(*ssa.Call); !ok || calleeName(cc) != "scheduler.New" {
			return false
		}
	}
	return true
}

// ruleStreamEvent (C09): what is queued on a stream carries the message.
func ruleStreamEvent(c *Check, a *Analysis, rule string) {
	p := c.P
	c.Rule(rule, "every event handed to stream.trigger is a fresh getEvent() whose Value (and, on the client, Error) was stored before the hand-off", 2)
	sc := siteCounter{}
	n := 0
	for _, fn := range p.Fns {
		for _, tr := range callsIn(fn, "(*stream).trigger") {
			n++
			e := tr.Common().Args[1]
			fresh := false
			for _, o := range p.origins(e) {
				if cc, ok := p.canon(o).(*ssa.Call); ok && calleeName(cc) == "getEvent" {
					fresh = true
				}
			}
			val := false
			for _, st := range p.fieldStoresIn(fn, "event", "Value") {
				_, base, _ := fieldOfAddr(st.Addr)
				if p.canon(base) == p.canon(e) && !nilConst(st.Val) && p.dominatesInstr(st, tr.(ssa.Instruction)) {
					val = true
				}
			}
			ok := fresh && val
			c.Ob(rule, sc.key(fn, "event carries the message before trigger"), p.InstrPos(tr), ok, ifs(!ok, "the event queued on the stream does not carry the message bytes at the time it is handed over (Value stored before trigger, on a fresh event): the message content is lost or written while the reader may already consume it"))
			// an Error field stored in the function must be stored before the hand-off as well
			for _, st := range p.fieldStoresIn(fn, "event", "Error") {
				_, base, _ := fieldOfAddr(st.Addr)
				if p.canon(base) == p.canon(e) {
					d := p.dominatesInstr(st, tr.(ssa.Instruction))
					c.Ob(rule, sc.key(fn, "event error before trigger"), p.InstrPos(st), d, ifs(!d, "the event's Error is stored after the event was handed to the reader"))
				}
			}
		}
	}
	// the client forwards the call's error to the stream reader
	{
		ok, any := true, false
		for _, fn := range p.Fns {
			if fileOf(p, topParent(fn)) != "conn.go" {
				continue
			}
			for _, tr := range callsIn(fn, "(*stream).trigger") {
				if tr.Parent() != fn && !p.isPlainHelper(tr.Parent()) {
					continue
				}
				any = true
				fwd := false
				for _, s := range p.fieldStoresIn(tr.Parent(), "event", "Error") {
					_, base, _ := fieldOfAddr(s.Addr)
					if isLoadOf(p.canon(s.Val), "Call", "Error") && p.canon(base) == p.canon(tr.Common().Args[1]) {
						fwd = true
					}
				}
				if !fwd {
					ok = false
				}
			}
		}
		if any {
			c.Ob(rule, "client delivery#forwards Call.Error", token.NoPos, ok, ifs(!ok, "the client's stream delivery drops the call's error: a failed stream message looks like an empty success"))
		}
	}
	if n == 0 {
		c.Undecided(rule, "no stream.trigger call found")
	}
}

// ruleStreamWrite (C09): client stream writes carry their message and a body.
func ruleStreamWrite(c *Check, a *Analysis, rule string) {
	p := c.P
	c.Rule(rule, "the client's stream write closure stores its message into the Call's Args before conn.write; NewStream clears NoRequest on the stream's upgrade object on every path after the open acknowledgement (stream messages carry a body)", 2)
	ns := p.Fn("(*Conn).NewStream")
	if ns == nil {
		c.Undecided(rule, "NewStream not found")
		return
	}
	okArgs := false
	for _, f := range withClosures(ns) {
		if f == ns || len(f.Params) == 0 {
			continue
		}
		for _, w := range callsIn(f, "(*Conn).write") {
			callArg := p.canon(w.Common().Args[1])
			for _, st := range p.fieldStoresIn(f, "Call", "Args") {
				_, base, _ := fieldOfAddr(st.Addr)
				if p.canon(base) != callArg || !p.dominatesInstr(st, w.(ssa.Instruction)) {
					continue
				}
				for _, o := range p.origins(st.Val) {
					if o == ssa.Value(f.Params[0]) {
						okArgs = true
					}
				}
			}
		}
	}
	c.Ob(rule, "(*Conn).NewStream#write closure stores its message into Call.Args before conn.write", ns.Pos(), okArgs, ifs(!okArgs, "the stream write closure does not attach its message argument to the call it sends: the message content is lost"))
	// NoRequest cleared after the acknowledgement
	var recv ssa.Instruction
	eachInstr(ns, func(in ssa.Instruction) {
		if u, ok := in.(*ssa.UnOp); ok && u.Op == token.ARROW && recv == nil {
			recv = in
		}
	})
	if recv == nil {
		c.Undecided(rule, "NewStream does not wait for the open acknowledgement")
		return
	}
	isClear := func(x ssa.Instruction) bool {
		st, ok := x.(*ssa.Store)
		if !ok {
			return false
		}
		fr, _, okf := fieldOfAddr(st.Addr)
		k, isK := constInt(st.Val)
		return okf && fr.Struct == "upgrade" && fr.Field == "NoRequest" && isK && k == 0
	}
	_, tr, okp := p.mustPass(ns, recv, isClear)
	c.Ob(rule, "(*Conn).NewStream#NoRequest cleared after the acknowledgement", p.InstrPos(recv), okp, ifs(!okp, "a path from the open acknowledgement to the return of the stream leaves NoRequest set ("+p.lineTrail(tr)+"): every stream message is sent without a body"))
}

// rulePollEOF (C10/C20): in poll mode the per-connection teardown runs on either EOF error, exactly once.
func rulePollEOF(c *Check, a *Analysis, rule string) {
	p := c.P
	c.Rule(rule, "in the poll-mode serve callback each of err == io.EOF and err == io.ErrUnexpectedEOF leads on every path to the compare-and-swap that elects the teardown, and the teardown (codec Close) runs only on the winning edge", 3)
	isEOF := func(name string) condMatch {
		return func(cond ssa.Value) (bool, bool) {
			b, ok := cond.(*ssa.BinOp)
			if !ok || (b.Op != token.EQL && b.Op != token.NEQ) {
				return false, false
			}
			for _, side := range []ssa.Value{b.X, b.Y} {
				if u, ok := p.canon(side).(*ssa.UnOp); ok && u.Op == token.MUL {
					if g, ok := u.X.(*ssa.Global); ok && g.Pkg != nil && g.Pkg.Pkg.Path() == "io" && g.Name() == name {
						return true, b.Op == token.EQL
					}
				}
			}
			return false, false
		}
	}
	n := 0
	sc := siteCounter{}
	for _, fn := range p.Fns {
		if fn.Parent() == nil || fname(topParent(fn)) != "(*Server).listen" {
			continue
		}
		var cas []ssa.Instruction
		eachInstr(fn, func(in ssa.Instruction) {
			if cc, ok := in.(*ssa.Call); ok && strings.HasPrefix(calleeName(cc), "sync/atomic.CompareAndSwap") {
				if fr, _, okf := fieldOfAddr(cc.Call.Args[0]); okf && fr.Struct == "ServerContext" && fr.Field == "closed" {
					cas = append(cas, in)
				}
			}
		})
		if len(cas) == 0 {
			continue
		}
		isCAS := func(x ssa.Instruction) bool {
			for _, k := range cas {
				if k == x {
					return true
				}
			}
			return false
		}
		for _, name := range []string{"EOF", "ErrUnexpectedEOF"} {
			edges, k := p.impliedEdges(fn, isEOF(name))
			if k == 0 {
				c.Ob(rule, sc.key(fn, "io."+name+" tested"), fn.Pos(), false, "the poll callback does not test the read error against io."+name+": a closed connection is never torn down")
				continue
			}
			for e := range edges {
				n++
				_, tr, miss := p.reachFromBlock(fn, e.to, isReturnLike, isCAS, nil)
				c.Ob(rule, sc.key(fn, "io."+name+" ⇒ teardown election"), p.InstrPos(e.to.Instrs[0]), !miss, ifs(miss, "with err == io."+name+" the callback can return without electing the teardown ("+p.lineTrail(tr)+"): the connection's schedulers, streams and codec are never released"))
			}
		}
		for _, cl := range invokesIn(fn, "ServerCodec", "Close") {
			n++
			g, _ := p.guardedBy(cl.(ssa.Instruction), matchCAS(p))
			c.Ob(rule, sc.key(fn, "teardown only on the winning edge"), p.InstrPos(cl), g, ifs(!g, "the poll-mode teardown is not confined to the edge on which the compare-and-swap succeeded: it runs twice, or never"))
		}
	}
	if n == 0 {
		c.Undecided(rule, "poll-mode teardown not found")
	}
}

// ruleSharedLocalMap (C03/C20): a map variable of Listen that its goroutines share is only
// touched under Server.mutex.
func ruleSharedLocalMap(c *Check, a *Analysis, rule string) {
	p := c.P
	ls := a.Locks()
	lis := p.Fn("(*Server).listen")
	if lis == nil {
		return
	}
	sc := siteCounter{}
	n := 0
	for _, fn := range withClosures(lis) {
		if p.isPlainHelper(fn) {
			continue // reached, with its arguments resolved, through its callers
		}
		eachInstrCtx(fn, func(in, at ssa.Instruction, res func(ssa.Value) ssa.Value) {
			// an operation on a map-typed parameter of a helper that is the shared map at this call
			if prmOp, mapVal := mapOperand(in); prmOp != nil {
				if _, isPrm := mapVal.(*ssa.Parameter); isPrm {
					if u2, ok := res(mapVal).(*ssa.UnOp); ok && u2.Op == token.MUL {
						if cell := p.localCell(u2.X); cell != nil && cell.Parent() == lis {
							n++
							held := ls.Held(in, "Server.mutex")
							c.Ob(rule, sc.key(in.Parent(), "shared map "+cell.Comment+" under Server.mutex"), p.InstrPos(in), held, ifs(!held, "the map variable "+cell.Comment+" of Listen is shared by the accept goroutines, the poll callbacks and the deferred clean-up, and is touched here without Server.mutex: concurrent map access is a fatal error"))
						}
					}
				}
				return
			}
			u, ok := in.(*ssa.UnOp)
			if !ok || u.Op != token.MUL {
				return
			}
			cell := p.localCell(u.X)
			if cell == nil || cell.Parent() != lis {
				return
			}
			if _, isMap := u.Type().Underlying().(*types.Map); !isMap || u.Referrers() == nil {
				return
			}
			// only cells shared with a closure
			shared := false
			if cell.Referrers() != nil {
				for _, r := range *cell.Referrers() {
					if _, ok := r.(*ssa.MakeClosure); ok {
						shared = true
					}
				}
			}
			if !shared {
				return
			}
			for _, r := range *u.Referrers() {
				switch x := r.(type) {
				case *ssa.MapUpdate, *ssa.Lookup, *ssa.Range:
				case *ssa.Call:
					if n := calleeName(x); n != "builtin delete" && n != "builtin len" {
						continue
					}
				default:
					continue
				}
				n++
				held := ls.Held(r, "Server.mutex")
				c.Ob(rule, sc.key(fn, "shared map "+cell.Comment+" under Server.mutex"), p.InstrPos(r), held, ifs(!held, "the map variable "+cell.Comment+" of Listen is shared by the accept goroutines, the poll callbacks and the deferred clean-up, and is touched here without Server.mutex: concurrent map access is a fatal error"))
			}
		})
	}
	if n < 4 {
		c.Undecided(rule, fmt.Sprintf("expected at least 4 accesses to Listen's shared codec map, found %d", n))
	}
}

// mapOperand: in operates on a map (update, lookup, range, delete, len); returns in and the map value.
func mapOperand(in ssa.Instruction) (ssa.Instruction, ssa.Value) {
	switch x := in.(type) {
	case *ssa.MapUpdate:
		return in, x.Map
	case *ssa.Lookup:
		if _, isMap := x.X.Type().Underlying().(*types.Map); isMap {
			return in, x.X
		}
	case *ssa.Range:
		if _, isMap := x.X.Type().Underlying().(*types.Map); isMap {
			return in, x.X
		}
	case *ssa.Call:
		if n := calleeName(x); (n == "builtin delete" || n == "builtin len") && len(x.Call.Args) > 0 {
			if _, isMap := x.Call.Args[0].Type().Underlying().(*types.Map); isMap {
				return in, x.Call.Args[0]
			}
		}
	}
	return nil, nil
}
