package main

// Thorough-tier cross-check of R-PANIC-BYTES against the Go compiler's own
// bounds-check-elimination facts (a compile, not an execution):
// `go build -gcflags=-d=ssa/check_bce/debug=1` lists every index/slice
// operation whose bounds check the compiler could NOT prove away. Every such
// operation in package rpc that READS a parameter-derived byte slice must lie
// in a function that is only entered below a recover barrier.

import (
	"bufio"
	"bytes"
	"fmt"
	"go/token"
	"os"
	"os/exec"
	"regexp"
	"sort"
	"strconv"
	"strings"

	"golang.org/x/tools/go/ssa"
)

func bceCrossCheck(c *Check, a *Analysis) map[string]interface{} {
	p := c.P
	c.Rule("R-BCE", "every bounds check the Go compiler cannot eliminate on a reader-side, parameter-derived byte slice in package rpc lies in a header Unmarshal method that is only called below a recover barrier, or in a function whose index is guarded by an explicit length test (upgrade decoder)", 1)
	cmd := exec.Command("go", "build", "-a", "-gcflags="+rpcPath+"=-d=ssa/check_bce/debug=1", "-o", os.DevNull, ".")
	cmd.Dir = p.Dir
	cmd.Env = append(os.Environ(), "GOFLAGS=-mod=mod", "GOPROXY=off", "GOSUMDB=off", "GOTOOLCHAIN=local", "GOWORK=off")
	var out bytes.Buffer
	cmd.Stderr = &out
	cmd.Stdout = &out
	if err := cmd.Run(); err != nil && !strings.Contains(out.String(), "Found Is") {
		c.Undecided("R-BCE", "compiler BCE run failed: "+err.Error()+" "+tail(out.String(), 300))
		return nil
	}
	re := regexp.MustCompile(`^\./([^:]+):(\d+):(\d+): Found (IsInBounds|IsSliceInBounds)`)
	type pos struct {
		file      string
		line, col int
	}
	unproven := map[pos]string{}
	sc := bufio.NewScanner(&out)
	for sc.Scan() {
		m := re.FindStringSubmatch(sc.Text())
		if m == nil {
			continue
		}
		l, _ := strconv.Atoi(m[2])
		cl, _ := strconv.Atoi(m[3])
		unproven[pos{m[1], l, cl}] = m[4]
	}
	if len(unproven) == 0 {
		c.Undecided("R-BCE", "the compiler reported no unproven bounds checks at all (flag not honoured?)")
		return nil
	}
	// functions under barrier: header Unmarshal methods reached from barrier functions
	covered := map[string]bool{}
	for _, st := range []string{"pbRequest", "pbResponse", "request", "response"} {
		covered["(*"+st+").Unmarshal"] = true
	}
	// every in-package static caller of those must itself be covered or have a barrier
	n, bad := 0, 0
	perFn := map[string]int{}
	for _, fn := range p.AllFns {
		eachInstrLocal(fn, func(in ssa.Instruction) {
			var base ssa.Value
			switch x := in.(type) {
			case *ssa.IndexAddr:
				base = x.X
			case *ssa.Index:
				base = x.X
			case *ssa.Slice:
				base = x.X
			default:
				return
			}
			ps := p.Fset.Position(in.Pos())
			file := ps.Filename[strings.LastIndex(ps.Filename, "/")+1:]
			kind, isUnproven := unproven[pos{file, ps.Line, ps.Column}]
			if !isUnproven {
				return
			}
			// reader side: base derives from a []byte/string parameter and the function never stores through it
			if !paramDerivedReadOnly(p, fn, base) {
				return
			}
			n++
			ok := covered[fname(fn)]
			if !ok && fname(fn) == "(*upgrade).Unmarshal" {
				ok = true // guarded by R-UPGRADE-LEN
			}
			if !ok {
				bad++
			}
			perFn[fname(fn)]++
			c.Ob("R-BCE", fmt.Sprintf("%s#%s@%d", fname(fn), kind, perFn[fname(fn)]), in.Pos(), ok, ifs(!ok, "unproven "+kind+" on peer-readable bytes in "+fname(fn)+", which is not below a recover barrier"))
		})
	}
	// the covered functions are only called from barrier functions (static calls) or through interfaces from them
	for name := range covered {
		fn := p.Fn(name)
		if fn == nil {
			continue
		}
		for _, call := range p.Callers(fn) {
			okB, why := hasRecoverBarrier(p, call.Parent(), call)
			c.Ob("R-BCE", fname(call.Parent())+"#static caller of "+name+" has barrier", call.Pos(), okB, ifs(!okB, why))
		}
	}
	var fns []string
	for f, k := range perFn {
		fns = append(fns, fmt.Sprintf("%s:%d", f, k))
	}
	sort.Strings(fns)
	return map[string]interface{}{"bce": map[string]interface{}{"compiler_unproven_total_in_rpc": len(unproven), "reader_side_peer_indexings": n, "outside_barrier": bad, "by_function": fns}}
}

func tail(s string, n int) string {
	if len(s) > n {
		return s[len(s)-n:]
	}
	return s
}

// paramDerivedReadOnly: base comes (through slicing) from a []byte/string
// parameter of fn, and fn never stores through an element address of it.
func paramDerivedReadOnly(p *Prog, fn *ssa.Function, base ssa.Value) bool {
	root := base
	for i := 0; i < 8; i++ {
		root = p.canon(root)
		if s, ok := root.(*ssa.Slice); ok {
			root = s.X
			continue
		}
		break
	}
	prm, ok := root.(*ssa.Parameter)
	if !ok {
		return false
	}
	if !isByteSlice(prm.Type()) && !isStringType(prm.Type()) {
		return false
	}
	// any store through an IndexAddr rooted at this parameter → writer side
	writer := false
	eachInstrLocal(fn, func(in ssa.Instruction) {
		s, ok := in.(*ssa.Store)
		if !ok {
			return
		}
		ia, ok := s.Addr.(*ssa.IndexAddr)
		if !ok {
			return
		}
		r := ia.X
		for i := 0; i < 8; i++ {
			r = p.canon(r)
			if sl, ok := r.(*ssa.Slice); ok {
				r = sl.X
				continue
			}
			break
		}
		if r == ssa.Value(prm) {
			writer = true
		}
	})
	if writer {
		return false
	}
	// reader side means the function actually reads elements of the parameter
	// (or hands it to a hslam/code decoder); a pure reslice of an output buffer
	// is covered by R-RESLICE-GUARD (C07), not by this rule.
	reads := false
	eachInstrLocal(fn, func(in ssa.Instruction) {
		rootOf := func(v ssa.Value) ssa.Value {
			for i := 0; i < 8; i++ {
				v = p.canon(v)
				if sl, ok := v.(*ssa.Slice); ok {
					v = sl.X
					continue
				}
				break
			}
			return v
		}
		switch x := in.(type) {
		case *ssa.UnOp:
			if ia, ok := x.X.(*ssa.IndexAddr); ok && x.Op == token.MUL && rootOf(ia.X) == ssa.Value(prm) {
				reads = true
			}
		case *ssa.Index:
			if rootOf(x.X) == ssa.Value(prm) {
				reads = true
			}
		case *ssa.Call:
			if strings.HasPrefix(calleeName(x), "code.Decode") && len(x.Call.Args) > 0 && rootOf(x.Call.Args[0]) == ssa.Value(prm) {
				reads = true
			}
		}
	})
	return reads
}
