package main

// Name resolution for types and fields. The rules name struct fields ("Conn.pending",
// "persistConn.alive"). A maintainer may rename an unexported type or field consistently; that
// changes no behaviour and must raise no alarm. The table frozenStructs (structs_gen.go, taken
// from the pinned tree by `rpcverif dumpstructs`) records every struct of package rpc with its
// fields in order and their types. When the tree under analysis has a struct or a field the table
// does not know while a recorded one is missing, the two are paired — by field-set similarity for
// types, by (unique) type and position for fields — and the new name is read as the old one.

import (
	"go/types"
	"sort"
	"strings"
)

type frozenField struct{ Name, Type string }

var (
	canonTypeOf  = map[string]string{}            // current type name → recorded name
	canonFieldOf = map[string]map[string]string{} // recorded struct name → current field → recorded field
	curFieldOf   = map[string]map[string]string{} // recorded struct name → recorded field → current field
	nameAliases  []string
)

func canonTypeName(n string) string {
	if c, ok := canonTypeOf[n]; ok {
		return c
	}
	return n
}

// canonFieldName maps a field name of the (already canonical) struct to the recorded name.
func canonFieldName(structCanon, field string) string {
	if m, ok := canonFieldOf[structCanon]; ok {
		if c, ok := m[field]; ok {
			return c
		}
	}
	return field
}

// currentFieldName is the inverse (for look-ups in go/types by name).
func currentFieldName(structCanon, field string) string {
	if m, ok := curFieldOf[structCanon]; ok {
		if c, ok := m[field]; ok {
			return c
		}
	}
	return field
}

func typeStr(t types.Type) string {
	return types.TypeString(t, func(p *types.Package) string {
		if p.Path() == rpcPath {
			return ""
		}
		return p.Name()
	})
}

func structsOf(pkg *types.Package) map[string][]frozenField {
	out := map[string][]frozenField{}
	sc := pkg.Scope()
	for _, n := range sc.Names() {
		tn, ok := sc.Lookup(n).(*types.TypeName)
		if !ok {
			continue
		}
		st, ok := tn.Type().Underlying().(*types.Struct)
		if !ok {
			continue
		}
		var fs []frozenField
		for i := 0; i < st.NumFields(); i++ {
			fs = append(fs, frozenField{st.Field(i).Name(), typeStr(st.Field(i).Type())})
		}
		out[n] = fs
	}
	return out
}

// namedNonStructs lists the named non-struct types of the package with their underlying type
// and method names ("list" → "[]*target|Len,Less,Swap").
func namedNonStructs(pkg *types.Package) map[string]string {
	out := map[string]string{}
	sc := pkg.Scope()
	for _, n := range sc.Names() {
		tn, ok := sc.Lookup(n).(*types.TypeName)
		if !ok || tn.IsAlias() {
			continue
		}
		if _, isStruct := tn.Type().Underlying().(*types.Struct); isStruct {
			continue
		}
		if _, isIface := tn.Type().Underlying().(*types.Interface); isIface {
			continue
		}
		var ms []string
		if named, ok := tn.Type().(*types.Named); ok {
			for i := 0; i < named.NumMethods(); i++ {
				ms = append(ms, named.Method(i).Name())
			}
		}
		sort.Strings(ms)
		out[n] = typeStr(tn.Type().Underlying()) + "|" + strings.Join(ms, ",")
	}
	return out
}

func resolveNames(pkg *types.Package) {
	canonTypeOf = map[string]string{}
	canonFieldOf = map[string]map[string]string{}
	curFieldOf = map[string]map[string]string{}
	nameAliases = nil
	if len(frozenStructs) == 0 {
		return
	}
	cur := structsOf(pkg)
	// ---- types
	var missing, added []string
	for n := range frozenStructs {
		if _, ok := cur[n]; !ok {
			missing = append(missing, n)
		}
	}
	for n := range cur {
		if _, ok := frozenStructs[n]; !ok {
			added = append(added, n)
		}
	}
	sort.Strings(missing)
	sort.Strings(added)
	used := map[string]bool{}
	for _, a := range added {
		best, bestScore := "", 0.0
		for _, m := range missing {
			if used[m] {
				continue
			}
			s := similarity(cur[a], frozenStructs[m])
			if s > bestScore {
				best, bestScore = m, s
			}
		}
		if best != "" && bestScore >= 0.6 {
			canonTypeOf[a] = best
			used[best] = true
			nameAliases = append(nameAliases, "type "+a+" ⇒ "+best)
		}
	}
	// ---- named non-struct types (same underlying type and method names)
	curN := namedNonStructs(pkg)
	for a, sig := range curN {
		if _, known := frozenNamed[a]; known {
			continue
		}
		var cands []string
		for m, fsig := range frozenNamed {
			if _, still := curN[m]; !still && fsig == sig {
				cands = append(cands, m)
			}
		}
		if len(cands) == 1 {
			canonTypeOf[a] = cands[0]
			nameAliases = append(nameAliases, "type "+a+" ⇒ "+cands[0])
		}
	}
	norm := func(t string) string {
		for c, f := range canonTypeOf {
			t = replaceIdent(t, c, f)
		}
		return t
	}
	// ---- fields
	for cn, cf := range cur {
		fn := canonTypeName(cn)
		ff, ok := frozenStructs[fn]
		if !ok {
			continue
		}
		have := map[string]bool{}
		for _, f := range cf {
			have[f.Name] = true
		}
		rec := map[string]bool{}
		for _, f := range ff {
			rec[f.Name] = true
		}
		var miss []int // indices into ff
		for i, f := range ff {
			if !have[f.Name] {
				miss = append(miss, i)
			}
		}
		taken := map[int]bool{}
		for ci, f := range cf {
			if rec[f.Name] {
				continue
			}
			var cands []int
			for _, mi := range miss {
				if !taken[mi] && norm(f.Type) == ff[mi].Type {
					cands = append(cands, mi)
				}
			}
			pick := -1
			switch {
			case len(cands) == 1:
				pick = cands[0]
			case len(cands) > 1:
				// same position among the fields, else the closest one
				bestD := 1 << 30
				for _, mi := range cands {
					d := mi - ci
					if d < 0 {
						d = -d
					}
					if d < bestD {
						bestD, pick = d, mi
					}
				}
			}
			if pick < 0 {
				continue
			}
			taken[pick] = true
			if canonFieldOf[fn] == nil {
				canonFieldOf[fn] = map[string]string{}
				curFieldOf[fn] = map[string]string{}
			}
			canonFieldOf[fn][f.Name] = ff[pick].Name
			curFieldOf[fn][ff[pick].Name] = f.Name
			nameAliases = append(nameAliases, "field "+cn+"."+f.Name+" ⇒ "+fn+"."+ff[pick].Name)
		}
	}
	sort.Strings(nameAliases)
}

func similarity(a, b []frozenField) float64 {
	if len(a) == 0 || len(b) == 0 {
		return 0
	}
	names := map[string]bool{}
	for _, f := range b {
		names[f.Name] = true
	}
	common := 0
	for _, f := range a {
		if names[f.Name] {
			common++
		}
	}
	n := len(a)
	if len(b) > n {
		n = len(b)
	}
	s := float64(common) / float64(n)
	// identical type sequences count as well (all fields renamed too)
	if len(a) == len(b) {
		same := true
		for i := range a {
			if a[i].Type != b[i].Type {
				same = false
			}
		}
		if same && s < 0.7 {
			s = 0.7
		}
	}
	return s
}

// replaceIdent replaces whole-identifier occurrences of from in s.
func replaceIdent(s, from, to string) string {
	var b strings.Builder
	for i := 0; i < len(s); {
		if strings.HasPrefix(s[i:], from) {
			before := i == 0 || !isIdentByte(s[i-1])
			j := i + len(from)
			after := j >= len(s) || !isIdentByte(s[j])
			if before && after {
				b.WriteString(to)
				i = j
				continue
			}
		}
		b.WriteByte(s[i])
		i++
	}
	return b.String()
}

func isIdentByte(c byte) bool {
	return c == '_' || c == '.' || (c >= '0' && c <= '9') || (c >= 'a' && c <= 'z') || (c >= 'A' && c <= 'Z')
}
