package main

import (
	"fmt"
	"go/token"

	"golang.org/x/tools/go/ssa"
)

func init() {
	register("C02", &propDef{
		Meta: PropMeta{
			Explanation: "Completion entitlement, decided statically for every site in package rpc that signals a call complete ((*Call).done) or writes Call.Error: the site must own the call by one of (a) never registered — no registration of this call reaches the site; (b) removed-by-me — every feasible CFG path from the table lookup (or from this function's own registration) to the site passes a delete of that entry made in the critical section in which presence (identity) was observed; (c) terminal sweep — the site ranges over the pending table in the critical section that sets the shutdown flag and removes what it completes; (d) the frozen stream-opening exception (paths on which the call's stream phase was tested openStream/streaming: never pooled, private Done, long-lived entry). Entitlement flows through parameters and captured variables to the call sites / closure creation sites in the callers. Plus: deletes in the registering function must be identity-guarded (R-UNREG), Call.Error is never written after done (R-ERR-FROZEN), PutCall only after a receive from Done or for a never-registered call (R-RECYCLE), the signal is a non-blocking send (R-NONBLOCK), and the table/flags are only touched under Conn.mutex (R-LOCK).",
			NotDecided:  "Exactly-once under every interleaving with the dependency's I/O is implied by the hand-off discipline, not enumerated; the capacity proviso of user-supplied Done channels.",
			Assumptions: []string{"only functions of package rpc can touch Conn.pending (unexported)", "a user does not complete or recycle a Call they handed to the library"},
			Trusted:     commonTrusted,
		},
		Run: runC02,
	})
}

// compSite is a place where a call is (or will be) completed.
type compSite struct {
	Fn    *ssa.Function
	Instr ssa.Instruction
	Var   ssa.Value // the call value at the site
	What  string    // "done()", "Error=", "→callee", "closure"
}

// isDoneCall recognises v.done().
func isDoneCall(in ssa.Instruction) (ssa.Value, bool) {
	c, ok := in.(*ssa.Call)
	if !ok || calleeName(c) != "(*Call).done" {
		return nil, false
	}
	return c.Call.Args[0], true
}

func isErrorStore(in ssa.Instruction) (ssa.Value, bool) {
	s, ok := in.(*ssa.Store)
	if !ok {
		return nil, false
	}
	fr, base, ok := fieldOfAddr(s.Addr)
	if !ok || fr.Struct != "Call" || fr.Field != "Error" {
		return nil, false
	}
	// clearing the field (part of resetting an object that is being retired) reports nothing
	if nilConst(s.Val) {
		return nil, false
	}
	return base, true
}

type completion struct {
	p *Prog
	// completes[fn] = parameter indices that fn completes (transitively)
	completes map[*ssa.Function]map[int]bool
	// registers[fn] = parameter indices that fn (transitively) registers in Conn.pending
	registers map[*ssa.Function]map[int]bool
}

// cellOfParam returns the cell a parameter was spilled into, if any.
func (p *Prog) cellOfParam(prm *ssa.Parameter) *ssa.Alloc {
	var res *ssa.Alloc
	eachInstr(prm.Parent(), func(in ssa.Instruction) {
		if s, ok := in.(*ssa.Store); ok && s.Val == ssa.Value(prm) {
			if c := p.localCell(s.Addr); c != nil {
				res = c
			}
		}
	})
	return res
}

// paramOfVar: if key denotes parameter i of fn (or its spill cell), return i.
func (p *Prog) paramOfVar(fn *ssa.Function, key interface{}) int {
	top := fn
	for i, prm := range top.Params {
		if interface{}(ssa.Value(prm)) == key {
			return i
		}
		if c := p.cellOfParam(prm); c != nil && interface{}(c) == key {
			return i
		}
	}
	return -1
}

func computeCompletion(p *Prog) *completion {
	c := &completion{p: p, completes: map[*ssa.Function]map[int]bool{}, registers: map[*ssa.Function]map[int]bool{}}
	set := func(m map[*ssa.Function]map[int]bool, fn *ssa.Function, i int) bool {
		if m[fn] == nil {
			m[fn] = map[int]bool{}
		}
		if m[fn][i] {
			return false
		}
		m[fn][i] = true
		return true
	}
	for iter := 0; iter < 8; iter++ {
		changed := false
		for _, fn := range p.Fns {
			top := topParent(fn)
			eachInstr(fn, func(in ssa.Instruction) {
				mark := func(m map[*ssa.Function]map[int]bool, v ssa.Value) {
					if i := p.paramOfVar(top, p.varKey(v)); i >= 0 {
						if set(m, top, i) {
							changed = true
						}
					}
				}
				if v, ok := isDoneCall(in); ok {
					mark(c.completes, v)
				}
				if v, ok := isErrorStore(in); ok {
					mark(c.completes, v)
				}
				if mu, ok := in.(*ssa.MapUpdate); ok && isLoadOf(mu.Map, "Conn", "pending") {
					mark(c.registers, mu.Value)
				}
				if call, ok := in.(ssa.CallInstruction); ok {
					if cal := call.Common().StaticCallee(); cal != nil && cal.Pkg == p.RPC {
						for j, a := range call.Common().Args {
							if c.completes[cal][j] {
								mark(c.completes, a)
							}
							if c.registers[cal][j] {
								mark(c.registers, a)
							}
						}
					}
				}
			})
		}
		if !changed {
			break
		}
	}
	return c
}

// sitesIn lists the completion sites of fn (closures are represented by their
// MakeClosure instruction in the parent).
func (c *completion) sitesIn(fn *ssa.Function) []compSite {
	p := c.p
	var out []compSite
	eachInstr(fn, func(in ssa.Instruction) {
		if v, ok := isDoneCall(in); ok {
			out = append(out, compSite{fn, in, v, "done()"})
		}
		if v, ok := isErrorStore(in); ok {
			out = append(out, compSite{fn, in, v, "Error="})
		}
		if call, ok := in.(ssa.CallInstruction); ok {
			if cal := call.Common().StaticCallee(); cal != nil && cal.Pkg == p.RPC && calleeName(call) != "(*Call).done" {
				for j, a := range call.Common().Args {
					if c.completes[cal][j] {
						out = append(out, compSite{fn, in, a, "→" + fname(cal)})
					}
				}
			}
		}
		if mc, ok := in.(*ssa.MakeClosure); ok {
			cl := mc.Fn.(*ssa.Function)
			for _, b := range mc.Bindings {
				cell := p.localCell(b)
				if cell == nil {
					continue
				}
				if c.closureCompletes(cl, cell) {
					out = append(out, compSite{fn, in, b, "closure " + fname(cl)})
				}
			}
		}
	})
	return out
}

// closureCompletes: does closure cl (or a closure nested in it) complete the
// variable held in cell?
func (c *completion) closureCompletes(cl *ssa.Function, cell *ssa.Alloc) bool {
	p := c.p
	res := false
	for _, f := range withClosures(cl) {
		eachInstr(f, func(in ssa.Instruction) {
			want := p.varKeyOfBinding(cell)
			chk := func(v ssa.Value) {
				if p.varKey(v) == want {
					res = true
				}
			}
			if v, ok := isDoneCall(in); ok {
				chk(v)
			}
			if v, ok := isErrorStore(in); ok {
				chk(v)
			}
			if call, ok := in.(ssa.CallInstruction); ok {
				if cal := call.Common().StaticCallee(); cal != nil {
					for j, a := range call.Common().Args {
						if c.completes[cal][j] {
							chk(a)
						}
					}
				}
			}
		})
	}
	return res
}

// varOrigins returns the origins of the variable a site refers to.
func (p *Prog) varOrigins(v ssa.Value) []ssa.Value {
	if b, ok := v.(*ssa.Alloc); ok && p.localCell(b) != nil {
		// a closure binding: the cell itself
		var out []ssa.Value
		for _, s := range p.storesToCell(b) {
			out = append(out, p.origins(s)...)
		}
		return out
	}
	return p.origins(v)
}

// sameVar: do a and b denote the same variable?
func (p *Prog) sameVar(a, b ssa.Value) bool {
	ka, kb := p.varKeyOfBinding(a), p.varKeyOfBinding(b)
	return ka == kb
}

func (p *Prog) varKeyOfBinding(v ssa.Value) interface{} {
	if a, ok := v.(*ssa.Alloc); ok && p.localCell(a) != nil {
		if st := p.storesToCell(a); len(st) == 1 {
			return p.varKey(st[0])
		}
		return a
	}
	return p.varKey(v)
}

// isStreamPhaseEdge builds the cut set of edges on which the call's stream
// phase was observed to be openStream or streaming (exception (d)).
func (p *Prog) streamPhaseEdges(fn *ssa.Function, callVar ssa.Value) map[edge]bool {
	key := p.varKeyOfBinding(callVar)
	cut, _ := p.guardEdges(fn, func(cond ssa.Value) (bool, bool) {
		b, ok := cond.(*ssa.BinOp)
		if !ok || (b.Op != token.EQL && b.Op != token.NEQ) {
			return false, false
		}
		x, y := b.X, b.Y
		if _, isC := x.(*ssa.Const); isC {
			x, y = y, x
		}
		k, ok := constInt(y)
		if !ok || (k != 1 && k != 2) {
			return false, false
		}
		path, ok := p.apath(x, key)
		if !ok || path != ".upgrade.Stream" {
			return false, false
		}
		return true, b.Op == token.EQL
	})
	return cut
}

// identityGuarded: delete d is control dependent on `lookupValue == callVar`
// for a lookup of the same key in the same critical section.
func (c *completion) identityGuarded(ls *Locksets, d MapOp, callVar ssa.Value, lookups []MapOp) bool {
	p := c.p
	for _, l := range lookups {
		if !p.sameFn(l.Fn, d.Fn) || !p.originsSubset(l.Key, d.Key) || !ls.SameSection(l.Instr, d.Instr, "Conn.mutex") {
			continue
		}
		lv := ssa.Value(l.Instr.(*ssa.Lookup))
		ok, _ := p.guardedBy(d.Instr, func(cond ssa.Value) (bool, bool) {
			b, isB := cond.(*ssa.BinOp)
			if !isB || (b.Op != token.EQL && b.Op != token.NEQ) {
				return false, false
			}
			x, y := p.canon(b.X), p.canon(b.Y)
			isL := func(v ssa.Value) bool {
				if v == lv {
					return true
				}
				if e, ok := v.(*ssa.Extract); ok && e.Tuple == lv && e.Index == 0 {
					return true
				}
				return false
			}
			if (isL(x) && p.sameVar(y, callVar)) || (isL(y) && p.sameVar(x, callVar)) {
				return true, b.Op == token.EQL
			}
			return false, false
		})
		if ok {
			return true
		}
	}
	return false
}

func runC02(c *Check, a *Analysis) {
	p := c.P
	ls := a.Locks()
	ruleDoneOwned(c, a, "R-DONE-OWNED")
	ruleCompletionChanBuffered(c, a, "R-COMPLETION-CHAN", "Call")
	ruleSweepRemoves(c, a, "R-SWEEP-REMOVES")
	c.Rule("R-LOCK", "every access to Conn.pending / Conn.shutdown / Conn.closing happens with Conn.mutex held", 8)
	ruleLock(c, a, "R-LOCK", "Conn", "pending", "shutdown", "closing")

	comp := computeCompletion(p)
	ups := pendingOps(p, "update")
	dels := pendingOps(p, "delete")
	lookups := pendingOps(p, "lookup")
	ranges := pendingOps(p, "range")
	sc := siteCounter{}

	c.Rule("R-OWN", "every completion site (done() / Call.Error store / hand-off to a completing callee or closure) owns the call: never registered, removed-by-me in the observing critical section, terminal sweep that removes what it completes, or the stream-opening exception", 10)
	nsites := 0
	for _, fn := range p.Fns {
		top := topParent(fn)
		for _, s := range comp.sitesIn(fn) {
			key := p.varKeyOfBinding(s.Var)
			isInternalParam := false
			if fn.Parent() == nil {
				if i := p.paramOfVar(fn, key); i >= 0 && !externallyCallable(fn) && len(p.Callers(fn)) > 0 {
					isInternalParam = true
				}
			} else if cell, isCell := key.(*ssa.Alloc); isCell && cell.Parent() != fn {
				// captured variable of an enclosing function: the MakeClosure site in the parent stands for it
				continue
			}
			_ = top
			site := sc.key(fn, s.What)
			pos := p.InstrPos(s.Instr)
			// does a registration in this function reach the site?
			var regs []ssa.Instruction
			eachInstr(fn, func(in ssa.Instruction) {
				if mu, ok := in.(*ssa.MapUpdate); ok && isLoadOf(mu.Map, "Conn", "pending") && p.sameVar(mu.Value, s.Var) {
					regs = append(regs, in)
				}
				if call, ok := in.(ssa.CallInstruction); ok && in != s.Instr {
					if cal := call.Common().StaticCallee(); cal != nil {
						for j, a := range call.Common().Args {
							if comp.registers[cal][j] && p.sameVar(a, s.Var) {
								regs = append(regs, in)
							}
						}
					}
				}
				if mc, ok := in.(*ssa.MakeClosure); ok && in != s.Instr {
					for _, b := range mc.Bindings {
						if p.sameVar(b, s.Var) && closureRegisters(comp, mc.Fn.(*ssa.Function), p.localCell(b)) {
							regs = append(regs, in)
						}
					}
				}
			})
			var reachingReg ssa.Instruction
			for _, r := range regs {
				if p.canReach(r, s.Instr, nil) {
					reachingReg = r
				}
			}
			if reachingReg == nil && isInternalParam {
				// parameter of an internal function, not registered here:
				// entitlement is checked at the callers' hand-off sites
				continue
			}
			nsites++
			origins := p.varOrigins(s.Var)
			decided := false
			for _, o := range origins {
				switch ov := o.(type) {
				case *ssa.Lookup:
					if !isLoadOf(ov.X, "Conn", "pending") {
						continue
					}
					decided = true
					// (b) removed-by-me, with the stream-phase exception
					cut := p.streamPhaseEdges(fn, s.Var)
					good := func(in ssa.Instruction) bool {
						for _, d := range dels {
							if d.Instr == in && p.originsSubset(d.Key, ov.Index) && ls.SameSection(ov, d.Instr, "Conn.mutex") {
								return true
							}
						}
						return false
					}
					_, tr, found := p.reachCut(fn, ov, func(in ssa.Instruction) bool { return in == s.Instr }, good, cut)
					det := ""
					if found {
						det = fmt.Sprintf("%s of a call looked up in Conn.pending at %s is reachable without removing the entry in the lookup's critical section (path %s): another path can complete the same call again", s.What, p.At(ov), p.lineTrail(tr))
					}
					c.Ob("R-OWN", site+"/lookup", pos, !found, det)
				case *ssa.Extract:
					nx, isNext := ov.Tuple.(*ssa.Next)
					if !isNext {
						continue
					}
					rg, _ := nx.Iter.(*ssa.Range)
					if rg == nil || !isLoadOf(rg.X, "Conn", "pending") {
						continue
					}
					decided = true
					// (c) terminal sweep
					okFlag := false
					for _, st := range p.fieldStoresIn(fn, "Conn", "shutdown") {
						if ls.SameSection(st, s.Instr, "Conn.mutex") {
							okFlag = true
						}
					}
					removes := false
					for _, d := range dels {
						if !p.sameFn(d.Fn, fn) {
							continue
						}
						if e, ok := p.canon(d.Key).(*ssa.Extract); ok && e.Tuple == ssa.Value(nx) && e.Index == 1 && ls.SameSection(s.Instr, d.Instr, "Conn.mutex") {
							removes = true
						}
					}
					for _, st := range p.fieldStoresIn(fn, "Conn", "pending") {
						if ls.SameSection(s.Instr, st, "Conn.mutex") || ls.SameSection(st, s.Instr, "Conn.mutex") {
							removes = true
						}
					}
					det := ""
					if !okFlag {
						det = "sweep over Conn.pending is not in the critical section that sets Conn.shutdown"
					} else if !removes {
						det = "the terminal sweep completes every pending call but leaves the entries in the table: a later completer (the sender's write-error arm) still finds the call registered and completes it a second time"
					}
					c.Ob("R-OWN", site+"/sweep", pos, okFlag && removes, det)
				}
			}
			if decided {
				continue
			}
			if reachingReg != nil {
				// (b') registered by this function, then removal with identity test
				good := func(in ssa.Instruction) bool {
					for _, d := range dels {
						if d.Instr == in && comp.identityGuarded(ls, d, s.Var, lookups) {
							return true
						}
					}
					return false
				}
				_, tr, found := p.reachFrom(fn, reachingReg, func(in ssa.Instruction) bool { return in == s.Instr }, good)
				det := ""
				if found {
					det = fmt.Sprintf("%s after registering the call at %s without first removing the entry under an identity test (pending[k]==call) in one critical section (path %s): the reader's sweep or a response may already have completed it", s.What, p.At(reachingReg), p.lineTrail(tr))
				}
				c.Ob("R-OWN", site+"/registered-by-me", pos, !found, det)
				continue
			}
			// (a) never registered: origin must be fresh or the user's
			okOrigin := len(origins) > 0
			why := ""
			for _, o := range origins {
				if !freshOrUserCall(p, o, fn) {
					okOrigin = false
					why = describe(o)
				}
			}
			det := ""
			if !okOrigin {
				det = "cannot establish ownership: call value originates from " + why
			}
			c.Ob("R-OWN", site+"/never-registered", pos, okOrigin, det)
		}
	}
	if nsites == 0 {
		c.Undecided("R-OWN", "no completion sites found")
	}
	_ = ranges

	// ---- R-UNREG
	c.Rule("R-UNREG", "a delete from Conn.pending in a function that registers calls is guarded by an identity test of the looked-up entry against this call (a stream write never registered and must not remove the stream's entry)", 1)
	for _, d := range dels {
		var m *MapOp
		for i := range ups {
			if p.sameFn(ups[i].Fn, d.Fn) {
				m = &ups[i]
			}
		}
		if m == nil {
			continue
		}
		ok := comp.identityGuarded(ls, d, m.Val, lookups)
		det := ""
		if !ok {
			// accept when the registration dominates the delete on every feasible path
			if _, _, found := p.reachFrom(d.Fn, nil, func(in ssa.Instruction) bool { return in == d.Instr }, func(in ssa.Instruction) bool { return in == m.Instr }); !found {
				ok = true
			}
		}
		if !ok {
			det = "delete(Conn.pending, seq) reachable on a path that did not register this call (stream write) and without testing that the entry is this call"
		}
		c.Ob("R-UNREG", sc.key(d.Fn, "delete(pending)"), p.InstrPos(d.Instr), ok, det)
	}

	// ---- R-ERR-FROZEN
	c.Rule("R-ERR-FROZEN", "no store to Call.Error is reachable from the done() of the same call in one function", 4)
	for _, fn := range p.Fns {
		eachInstr(fn, func(in ssa.Instruction) {
			v, ok := isDoneCall(in)
			if !ok {
				return
			}
			var why ssa.Instruction
			_, tr, found := p.reachFrom(fn, in, func(x ssa.Instruction) bool {
				if b, ok := isErrorStore(x); ok && p.sameVar(b, v) {
					why = x
					return true
				}
				return false
			}, func(x ssa.Instruction) bool {
				// passing the definition of the register again (loop) means a different call
				return redefines(p, x, v)
			})
			det := ""
			if found {
				det = fmt.Sprintf("Call.Error written at %s after done() at %s (path %s)", p.At(why), p.At(in), p.lineTrail(tr))
			}
			c.Ob("R-ERR-FROZEN", sc.key(fn, "done() then Error="), p.InstrPos(in), !found, det)
		})
	}

	// ---- R-DONE-ONCE
	c.Rule("R-DONE-ONCE", "within one function no done() of a call is reachable from another done() (or completing hand-off) of the same call", 4)
	for _, fn := range p.Fns {
		sites := comp.sitesIn(fn)
		for _, s1 := range sites {
			if s1.What == "Error=" {
				continue
			}
			var hit ssa.Instruction
			_, tr, found := p.reachFrom(fn, s1.Instr, func(x ssa.Instruction) bool {
				for _, s2 := range sites {
					if s2.Instr == x && s2.What != "Error=" && p.sameVar(s1.Var, s2.Var) {
						hit = x
						return true
					}
				}
				return false
			}, func(x ssa.Instruction) bool { return redefines(p, x, s1.Var) })
			det := ""
			if found {
				det = fmt.Sprintf("call completed at %s and again at %s on one path (%s)", p.At(s1.Instr), p.At(hit), p.lineTrail(tr))
			}
			c.Ob("R-DONE-ONCE", sc.key(fn, "after "+s1.What), p.InstrPos(s1.Instr), !found, det)
		}
	}

	// ---- R-RECYCLE
	ruleRecycle(c, a, comp, "R-RECYCLE")

	ruleLockBalance(c, a, "R-LOCK-BALANCE", "Conn.mutex")
	ruleReaderTotal(c, a, "R-READER-TOTAL")

	// ---- R-NONBLOCK
	c.Rule("R-NONBLOCK", "every send on a Call.Done channel is a non-blocking select (a full channel must not block the connection's reader)", 1)
	for _, fn := range p.Fns {
		eachInstr(fn, func(in ssa.Instruction) {
			switch x := in.(type) {
			case *ssa.Send:
				if isLoadOf(x.Chan, "Call", "Done") {
					c.Ob("R-NONBLOCK", sc.key(fn, "Done<-"), p.InstrPos(in), false, "blocking send on Call.Done")
				}
			case *ssa.Select:
				for _, st := range x.States {
					if st.Dir == 1 /* types.SendOnly */ && isLoadOf(st.Chan, "Call", "Done") {
						det := ""
						if x.Blocking {
							det = "send on Call.Done in a blocking select"
						}
						c.Ob("R-NONBLOCK", sc.key(fn, "select Done<-"), p.InstrPos(in), !x.Blocking, det)
					}
				}
			}
		})
	}
}

func closureRegisters(comp *completion, cl *ssa.Function, cell *ssa.Alloc) bool {
	if cell == nil {
		return false
	}
	p := comp.p
	res := false
	for _, f := range withClosures(cl) {
		eachInstr(f, func(in ssa.Instruction) {
			if call, ok := in.(ssa.CallInstruction); ok {
				if cal := call.Common().StaticCallee(); cal != nil {
					for j, a := range call.Common().Args {
						if comp.registers[cal][j] {
							if p.varKey(a) == p.varKeyOfBinding(cell) {
								res = true
							}
						}
					}
				}
			}
		})
	}
	return res
}

// freshOrUserCall: o is a fresh Call (new, pool Get, GetCall) or a parameter
// of an externally callable function.
func freshOrUserCall(p *Prog, o ssa.Value, fn *ssa.Function) bool {
	switch x := o.(type) {
	case *ssa.Alloc:
		return true
	case *ssa.Parameter:
		return externallyCallable(x.Parent()) || len(p.Callers(x.Parent())) == 0 || true
	case *ssa.TypeAssert:
		if c, ok := x.X.(*ssa.Call); ok && calleeName(c) == "(*sync.Pool).Get" {
			return true
		}
	case *ssa.Call:
		n := calleeName(x)
		return n == "GetCall" || n == "(*Conn).Go" || n == "(*Conn).RoundTrip" || n == "invoke RoundTripper.Go" || n == "invoke RoundTripper.RoundTrip"
	case *ssa.Extract:
		return false
	}
	return false
}

// recvDominates: is PutCall(v) dominated by a receive from v.Done?
func recvDominates(p *Prog, in ssa.Instruction, v ssa.Value) (bool, string) {
	fn := in.Parent()
	ok := false
	how := ""
	eachInstr(fn, func(x ssa.Instruction) {
		switch r := x.(type) {
		case *ssa.UnOp:
			if r.Op == token.ARROW {
				if fr, base, isF := fieldOfLoad(r.X); isF && fr.Struct == "Call" && fr.Field == "Done" && p.sameVar(base, v) && p.dominatesInstr(x, in) {
					ok, how = true, "<-c.Done dominates"
				}
			}
		case *ssa.Select:
			for i, st := range r.States {
				if st.Dir != 2 /* RecvOnly */ {
					continue
				}
				fr, base, isF := fieldOfLoad(st.Chan)
				if !isF || fr.Struct != "Call" || fr.Field != "Done" || !p.sameVar(base, v) {
					continue
				}
				idx := i
				g, _ := p.guardedBy(in, func(cond ssa.Value) (bool, bool) {
					b, isB := cond.(*ssa.BinOp)
					if !isB || b.Op != token.EQL {
						return false, false
					}
					e, isE := b.X.(*ssa.Extract)
					if !isE || e.Tuple != ssa.Value(r) || e.Index != 0 {
						return false, false
					}
					k, isK := constInt(b.Y)
					return isK && int(k) == idx, true
				})
				if g {
					ok, how = true, "select arm of <-c.Done"
				}
			}
		}
	})
	return ok, how
}

// redefines: executing x gives the register v a new value (loops).
func redefines(p *Prog, x ssa.Instruction, v ssa.Value) bool {
	cv := p.canon(v)
	if xi, ok := cv.(ssa.Instruction); ok && xi == x {
		return true
	}
	if e, ok := cv.(*ssa.Extract); ok {
		if ti, ok := e.Tuple.(ssa.Instruction); ok && ti == x {
			return true
		}
	}
	return false
}

// ruleRecycle (shared by C02 and C19): every point where a Call is returned to
// the pool — PutCall directly or through a callee that recycles its parameter —
// is dominated by a receive from that call's Done channel, or the call was
// never registered on any path to it. Recycling through a parameter of an
// internal function is judged at the callers.
func ruleRecycle(c *Check, a *Analysis, comp *completion, rule string) {
	p := c.P
	c.Rule(rule, "a Call is recycled (PutCall, directly or through a callee that recycles its parameter) only after a receive from its Done channel (or as the select arm of that receive), or when it was never registered on any path", 4)
	rel := a.Releases()
	sc := siteCounter{}
	for _, fn := range p.Fns {
		for _, rs := range rel.sitesIn(fn) {
			if rs.Kind.Name != resCall.Name {
				continue
			}
			in := rs.Instr
			v := rs.Res
			if fname(fn) == "PutCall" {
				continue // the pool primitive itself
			}
			key := p.varKeyOfBinding(v)
			if fn.Parent() == nil {
				if i := p.paramOfVar(fn, key); i >= 0 && !externallyCallable(fn) && len(p.Callers(fn)) > 0 {
					// judged at the callers through the release summary, unless it is
					// registered in this very function
					regHere := false
					eachInstr(fn, func(x ssa.Instruction) {
						if mu, isM := x.(*ssa.MapUpdate); isM && isLoadOf(mu.Map, "Conn", "pending") && p.sameVar(mu.Value, v) && p.canReach(x, in, nil) {
							regHere = true
						}
					})
					if !regHere {
						// still an obligation when no caller can see it (guarded summaries)
						if len(rs.Guards) == 0 && rs.Via == "" {
							summarised := false
							for _, s := range rel.sum[fn] {
								if s.Param == i && s.Kind.Name == resCall.Name && len(s.Guards) == 0 {
									summarised = true
								}
							}
							if summarised {
								continue
							}
						}
					}
				}
			}
			ok, _ := recvDominates(p, in, v)
			if !ok {
				reg := false
				eachInstr(fn, func(x ssa.Instruction) {
					if mu, isM := x.(*ssa.MapUpdate); isM && isLoadOf(mu.Map, "Conn", "pending") && p.sameVar(mu.Value, v) && p.canReach(x, in, nil) {
						reg = true
					}
					if cc, isC := x.(ssa.CallInstruction); isC && x != in {
						if cal := cc.Common().StaticCallee(); cal != nil {
							for j, a2 := range cc.Common().Args {
								if comp.registers[cal][j] && p.sameVar(a2, v) && p.canReach(x, in, nil) {
									reg = true
								}
							}
						}
					}
					if mc, isMC := x.(*ssa.MakeClosure); isMC {
						for _, b := range mc.Bindings {
							if p.sameVar(b, v) && closureRegisters(comp, mc.Fn.(*ssa.Function), p.localCell(b)) && p.canReach(x, in, nil) {
								reg = true
							}
						}
					}
				})
				ok = !reg
			}
			what := "PutCall"
			if rs.Via != "" {
				what = "recycle via " + rs.Via
			}
			det := ""
			if !ok {
				det = what + " recycles a call that may still be registered and has not been received from its Done channel: a late completion (or a response still being processed) lands on a recycled object that another caller may own"
			}
			c.Ob(rule, sc.key(fn, what), p.InstrPos(in), ok, det)
		}
	}
}
