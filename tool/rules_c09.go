package main

import (
	"fmt"
	"go/token"
	"strings"

	"golang.org/x/tools/go/ssa"
)

func init() {
	register("C09", &propDef{
		Meta: PropMeta{
			Explanation: "Stream establishment and routing shape, decided over all CFG paths: (1) R-ACK-FIRST — on the stream-open path of callService the handler goroutine is started only after the acknowledgement (sendResponse); (2) R-ACK-ONCE — in the client's response reader the branch that treats a response as the open acknowledgement advances the very phase it tested (stores a different value into upgrade.Stream, or removes the table entry) before it signals, so every later response on that sequence number is a message; (3) R-STREAM-ROUTE — a stream write reuses the stream's sequence number and never registers in the pending table; the server's push closure sends under the opening request's Seq with Stream=streaming; Call.streaming delivers only to the call's own stream and only in the streaming phase; (4) R-STREAM-FIFO — stream messages travel reader → Conn.readStream / the server's readStream queue (single worker, C05) → stream.events, appended at the tail and taken from the head under stream.mut; (5) stream message bytes handed to the user never alias a pooled buffer and no pooled object is used after release.",
			NotDecided:  "Exactly-once and ordering under all interleavings at value level; FIFO-ness of hslam/scheduler (trusted).",
			Assumptions: []string{"responses carry only seq/error/reply, so the reader can tell ack from message only by the call's phase"},
			Trusted:     commonTrusted,
		},
		Run: runC09,
	})
	register("C10", &propDef{
		Meta: PropMeta{
			Explanation: "Stream shutdown shape: (1) R-STOP — stream.stop sets the closed flag inside stream.mut and broadcasts on every path; ReadMessage re-tests the flag after every Wait before touching the queue; WriteMessage tests it before writing; Close calls stop before the transport-level close; (2) the client reader's exit stops every stream in Conn.streams (inside the shutdown critical section); (3) R-TEARDOWN-SIBLINGS — the two server teardown sequences (blocking ServeCodec tail, poll-mode EOF branch) perform the same effect set {drain decode queue, wait for handlers, unregister codec, close codec, close dispatch queue, close every stream of the connection, close stream queue}: an effect present in one and absent in the other is reported; (4) the close-stream request closes the server-side stream, removes it from the table and is acknowledged on every path; the client removes its table entry on the acknowledgement.",
			NotDecided:  "Promptness; that closing the transport unblocks blocked I/O (dependency).",
			Assumptions: []string{"sync.Cond semantics"},
			Trusted:     commonTrusted,
		},
		Run: runC10,
	})
}

// matchStreamEqRooted recognises `<root>.upgrade.Stream == k`.
func matchStreamEqRooted(p *Prog, root interface{}, k int64) condMatch {
	return func(cond ssa.Value) (bool, bool) {
		b, ok := cond.(*ssa.BinOp)
		if !ok || (b.Op != token.EQL && b.Op != token.NEQ) {
			return false, false
		}
		x, y := b.X, b.Y
		if _, isC := x.(*ssa.Const); isC {
			x, y = y, x
		}
		if kk, ok := constInt(y); !ok || kk != k {
			return false, false
		}
		path, ok := p.apath(x, root)
		if !ok || path != ".upgrade.Stream" {
			return false, false
		}
		return true, b.Op == token.EQL
	}
}

func runC09(c *Check, a *Analysis) {
	p := c.P
	ls := a.Locks()
	sc := siteCounter{}
	ruleUserBytesFresh(c, a, "R-USER-BYTES-FRESH")

	// ---- R-ACK-FIRST
	c.Rule("R-ACK-FIRST", "every `go` start of a stream handler (a goroutine that invokes Func.ValueCall) is preceded on every path by the open acknowledgement (sendResponse)", 1)
	n := 0
	for _, fn := range p.Fns {
		if !strings.HasPrefix(fname(topParent(fn)), "(*Server).") {
			continue
		}
		acks := eventsOf(fn, "(*Server).sendResponse")
		for _, ev := range eventsOf(fn, "(*funcs.Func).ValueCall") {
			if _, isGo := ev.(*ssa.Go); !isGo {
				continue
			}
			n++
			_, tr, found := p.reachFrom(fn, nil, func(x ssa.Instruction) bool { return x == ev }, func(x ssa.Instruction) bool { return isIn(x, acks) })
			det := ""
			if found {
				det = "the stream handler goroutine is started before the open acknowledgement is sent (path " + p.lineTrail(tr) + "): its first pushed messages can reach the client before the ack and are taken for the ack / dropped"
			}
			c.Ob("R-ACK-FIRST", sc.key(fn, "ack before go handler"), p.InstrPos(ev), !found, det)
		}
	}
	if n == 0 {
		c.Undecided("R-ACK-FIRST", "no goroutine start of a stream handler found")
	}

	// ---- R-ACK-ONCE
	c.Rule("R-ACK-ONCE", "in the response reader the done() that is reachable only through `upgrade.Stream == openStream` is preceded, on every path from that test, by a store of a different phase into the same upgrade.Stream (or the removal of the pending entry)", 1)
	comp := computeCompletion(p)
	na := 0
	for _, l := range pendingOps(p, "lookup") {
		fn := l.Fn
		if len(pendingOps2(p, topParent(fn), "update")) > 0 {
			continue
		}
		lk := l.Instr.(*ssa.Lookup)
		key := p.varKey(lk)
		m := matchStreamEqRooted(p, key, 1)
		edges, _ := p.guardEdges(fn, m)
		for _, s := range comp.sitesIn(fn) {
			if s.What != "done()" || !p.sameVarOrigin(s.Var, lk) {
				continue
			}
			if g, _ := p.guardedBy(s.Instr, m); !g {
				continue
			}
			na++
			advance := func(x ssa.Instruction) bool {
				if st, ok := x.(*ssa.Store); ok {
					fr, base, ok := fieldOfAddr(st.Addr)
					if ok && fr.Struct == "upgrade" && fr.Field == "Stream" {
						if path, ok := p.apath(base, key); ok && path == ".upgrade" {
							if k, isK := constInt(st.Val); isK && k != 1 {
								return true
							}
						}
					}
				}
				for _, d := range pendingOps(p, "delete") {
					if d.Instr == x {
						return true
					}
				}
				return false
			}
			bad := false
			var trail string
			for e := range edges {
				if _, tr, found := p.reachFromBlock(fn, e.to, func(x ssa.Instruction) bool { return x == s.Instr }, advance, nil); found {
					bad = true
					trail = p.lineTrail(tr)
				}
			}
			det := ""
			if bad {
				det = "the open acknowledgement is signalled without advancing the stream phase in the reader (path " + trail + "): the phase is switched later by the woken caller, and messages arriving in between are taken for further acks and lost"
			}
			c.Ob("R-ACK-ONCE", sc.key(fn, "ack branch advances phase"), p.InstrPos(s.Instr), !bad, det)
		}
		// the acknowledgement wrapped in a closure that is handed on (to a queue) instead of run
		// by the reader: whatever it does, it does it after the reader went on to the next frame
		eachInstrLocal(fn, func(in ssa.Instruction) {
			mc, ok := in.(*ssa.MakeClosure)
			if !ok {
				return
			}
			cl, ok := mc.Fn.(*ssa.Function)
			if !ok || p.isPlainHelper(cl) {
				return
			}
			if g, _ := p.guardedBy(in, m); !g {
				return
			}
			for _, s := range comp.sitesIn(cl) {
				if s.What != "done()" {
					continue
				}
				na++
				c.Ob("R-ACK-ONCE", sc.key(fn, "ack branch signals in the reader"), p.InstrPos(s.Instr), false, "the open acknowledgement is signalled (and the stream phase advanced) by a closure handed on at "+p.At(in)+" instead of by the reader itself: the reader decodes the next response on this sequence number while the phase still says `opening`, takes it for another acknowledgement and drops the message")
			}
		})
	}
	if na == 0 {
		c.Undecided("R-ACK-ONCE", "no acknowledgement branch (done() guarded by Stream == openStream) found in the response reader")
	}

	// ---- R-STREAM-ROUTE
	c.Rule("R-STREAM-ROUTE", "stream writes use the stream's own sequence number and never register; the server push closure sends with the opening Seq and Stream=streaming; Call.streaming delivers only to call.stream in the streaming phase", 5)
	for _, m := range pendingOps(p, "update") {
		fn := m.Fn
		edges, ne := p.guardEdges(fn, matchFieldEqConst("upgrade", "Stream", 2))
		if ne == 0 {
			c.Undecided("R-STREAM-ROUTE", "no streaming-phase test in "+fname(fn))
		}
		for e := range edges {
			_, _, found := p.reachFromBlock(fn, e.to, func(x ssa.Instruction) bool { return x == m.Instr }, nil, nil)
			c.Ob("R-STREAM-ROUTE", sc.key(fn, "stream write bypasses pending"), p.InstrPos(m.Instr), !found, ifs(found, "a stream message write registers itself in Conn.pending (it would overwrite the stream's entry)"))
		}
		// the wire seq on the streaming path comes from stream.seq
		okSeq := false
		for _, o := range p.origins(m.Key) {
			if isLoadOf(o, "stream", "seq") {
				okSeq = true
			}
		}
		for _, w := range invokesIn(fn, "ClientCodec", "WriteRequest") {
			for _, s := range p.fieldStoresIn(fn, "Context", "Seq") {
				_, base, _ := fieldOfAddr(s.Addr)
				if base != w.Common().Args[0] {
					continue
				}
				for _, o := range p.origins(s.Val) {
					if isLoadOf(o, "stream", "seq") {
						okSeq = true
					}
				}
			}
		}
		c.Ob("R-STREAM-ROUTE", sc.key(fn, "stream write uses stream.seq"), p.InstrPos(m.Instr), okSeq, ifs(!okSeq, "the sequence number of a stream write does not come from stream.seq"))
	}
	// server push closure
	np := 0
	for _, fn := range p.Fns {
		if fn.Parent() == nil || !strings.HasPrefix(fname(topParent(fn)), "(*Server).") {
			continue
		}
		for _, w := range invokesIn(fn, "ServerCodec", "WriteResponse") {
			np++
			ctxArg := p.canon(w.Common().Args[0])
			okStream, okSeq := false, false
			for _, s := range storesIn(fn) {
				fr, base, ok := fieldOfAddr(s.Addr)
				if !ok || !p.dominatesInstr(s, w) {
					continue
				}
				if fr.Struct == "upgrade" && fr.Field == "Stream" {
					if k, isK := constInt(s.Val); isK && k == 2 {
						if fb, bb, ok := fieldOfLoad(p.canon(base)); ok && fb.Field == "upgrade" && p.canon(bb) == ctxArg {
							okStream = true
						}
					}
				}
				if fr.Struct == "Context" && fr.Field == "Seq" && p.canon(base) == ctxArg {
					for _, o := range p.origins(s.Val) {
						if isLoadOf(o, "Context", "Seq") {
							okSeq = true
						}
					}
				}
			}
			c.Ob("R-STREAM-ROUTE", sc.key(fn, "push: Stream=streaming"), p.InstrPos(w), okStream, ifs(!okStream, "a pushed stream message is not marked Stream=streaming before it is written"))
			c.Ob("R-STREAM-ROUTE", sc.key(fn, "push: Seq of opening request"), p.InstrPos(w), okSeq, ifs(!okSeq, "a pushed stream message does not carry the opening request's Seq"))
		}
	}
	if np == 0 {
		c.Undecided("R-STREAM-ROUTE", "server push closure (WriteResponse inside a closure) not found")
	}
	// client side: a received stream message goes to the stream of the call it was routed to, in the streaming phase
	nDel := 0
	for _, fn := range p.Fns {
		if fileOf(p, topParent(fn)) != "conn.go" {
			continue
		}
		for _, t := range callsIn(fn, "(*stream).trigger") {
			if t.Parent() != fn && !p.isPlainHelper(t.Parent()) {
				continue
			}
			nDel++
			recv := p.canon(t.Common().Args[0])
			fr, _, ok := fieldOfLoad(recv)
			okR := ok && fr.Struct == "Call" && fr.Field == "stream"
			g, _ := p.guardedBy(t.(ssa.Instruction), matchFieldEqConst("upgrade", "Stream", 2))
			c.Ob("R-STREAM-ROUTE", sc.key(fn, "deliver to own stream in streaming phase"), p.InstrPos(t), okR && g, ifs(!(okR && g), "a received stream message is delivered to a stream other than the routed call's own, or outside the streaming phase"))
		}
	}
	if nDel == 0 {
		c.Undecided("R-STREAM-ROUTE", "no client-side stream delivery (stream.trigger) found")
	}

	// ---- R-STREAM-FIFO
	c.Rule("R-STREAM-FIFO", "stream messages are queued on the per-connection single-worker stream queue and stream.events is appended at the tail / taken from the head under stream.mut", 5)
	for _, l := range pendingOps(p, "lookup") {
		fn := l.Fn
		if len(pendingOps2(p, topParent(fn), "update")) > 0 {
			continue
		}
		// the scheduled closure that calls Call.streaming must be handed to Conn.readStream
		eachInstr(fn, func(in ssa.Instruction) {
			cc, ok := in.(*ssa.Call)
			if !ok || !strings.HasSuffix(calleeName(cc), ".Schedule") {
				return
			}
			mc, ok := cc.Common().Args[len(cc.Common().Args)-1].(*ssa.MakeClosure)
			if !ok || !closureCallsTo(mc.Fn.(*ssa.Function), deliveryName(p)) {
				return
			}
			okQ := cc.Common().IsInvoke() && isLoadOf(p.canon(cc.Common().Value), "Conn", "readStream")
			c.Ob("R-STREAM-FIFO", sc.key(fn, "client stream messages via Conn.readStream"), p.InstrPos(in), okQ, ifs(!okQ, "stream messages are delivered through "+calleeName(cc)+" instead of the connection's single-worker stream queue"))
		})
	}
	if sr := p.Fn("(*Server).ServeRequest"); sr != nil {
		for _, ev := range eventsOf(sr, "(*Server).handleRequest") {
			g, _ := p.guardedBy(ev, matchFieldEqConst("upgrade", "Stream", 2))
			if !g {
				continue
			}
			cc, isCall := ev.(*ssa.Call)
			if !isCall {
				c.Ob("R-STREAM-FIFO", sc.key(sr, "server stream messages via readStream"), p.InstrPos(ev), false, "stream message dispatched with go")
				continue
			}
			n := calleeName(cc)
			okQ := n == "(*Server).handleRequest" // inline (direct I/O): decode order is delivery order
			if strings.HasSuffix(n, ".Schedule") {
				okQ = false
				if prm, isP := p.canon(cc.Common().Value).(*ssa.Parameter); cc.Common().IsInvoke() && isP && prm.Name() == "readStream" {
					okQ = true
				}
			}
			c.Ob("R-STREAM-FIFO", sc.key(sr, "server stream messages via readStream"), p.InstrPos(ev), okQ, ifs(!okQ, "server-side stream messages are dispatched through "+n+" instead of the per-connection stream queue"))
		}
	}
	// events queue discipline
	for _, op := range p.mapOps("stream", "events") {
		switch op.Kind {
		case "append":
			held := ls.Held(op.Instr, "stream.mut")
			c.Ob("R-STREAM-FIFO", sc.key(op.Fn, "append at tail under stream.mut"), p.InstrPos(op.Instr), held, ifs(!held, "stream.events appended without stream.mut"))
		case "index":
			k, isK := constInt(op.Key)
			held := ls.Held(op.Instr, "stream.mut")
			ok := isK && k == 0 && held
			c.Ob("R-STREAM-FIFO", sc.key(op.Fn, "take events[0] under stream.mut"), p.InstrPos(op.Instr), ok, ifs(!ok, fmt.Sprintf("stream.events read at index %v (must be the head, under the lock)", describe(op.Key))))
		}
	}
	// the reslice after taking the head drops exactly one element from the front
	for _, fn := range p.Fns {
		eachInstr(fn, func(in ssa.Instruction) {
			sl, ok := in.(*ssa.Slice)
			if !ok || !isLoadOf(p.canon(sl.X), "stream", "events") {
				return
			}
			k, isK := constInt(sl.Low)
			ok = sl.Low != nil && isK && k == 1 && sl.High == nil
			c.Ob("R-STREAM-FIFO", sc.key(fn, "events = events[1:]"), p.InstrPos(in), ok, ifs(!ok, "stream.events is not advanced by exactly one element from the front"))
		})
	}

	ruleUpgradeOwner(c, a, "R-UPGRADE-OWNER")
	ruleStreamCtxStable(c, a, "R-STREAM-CTX-STABLE")
	ruleStreamSeqAssigned(c, a, "R-STREAM-SEQ")
	ruleStreamQueue(c, a, "R-STREAM-QUEUE")
	ruleStreamEvent(c, a, "R-STREAM-EVENT")
	ruleStreamFreshValue(c, a, "R-STREAM-FRESH-VALUE")
	ruleStreamWrite(c, a, "R-STREAM-WRITE")
	c.Rule("R-LOCK", "stream.events only under stream.mut", 3)
	ruleLock(c, a, "R-LOCK", "stream", "events")
	rulePushCtx(c, a, "R-PUSH-CTX")
	ruleReaderTotal(c, a, "R-READER-TOTAL")
	ruleCopyDestFresh(c, a, "R-COPY-DEST-FRESH")
	// the stream's single long-lived Call is a shared slot: per-message data must not cross the queue hop in it
	c.Rule("R-STREAM-SLOT", "when a stream message is delivered through a queued task, the message bytes are stored into the stream's shared Call only inside that task (never by the reader before queueing): the reader would overwrite the slot with the next message before the worker delivers the previous one", 1)
	for _, l := range pendingOps(p, "lookup") {
		fn := l.Fn
		if len(pendingOps2(p, topParent(fn), "update")) > 0 {
			continue
		}
		lk := l.Instr.(*ssa.Lookup)
		for _, ev := range eventsOf(fn, deliveryName(p)) {
			cc, isCall := ev.(*ssa.Call)
			if !isCall || calleeName(cc) == deliveryName(p) {
				continue // inline delivery (direct I/O): no hop
			}
			var bad ssa.Instruction
			for _, s := range p.fieldStoresIn(fn, "Call", "Value") {
				_, base, _ := fieldOfAddr(s.Addr)
				if p.sameVarOrigin(base, lk) && p.canReach(s, ev, nil) {
					bad = s
				}
			}
			c.Ob("R-STREAM-SLOT", sc.key(fn, "message stored inside the queued task"), p.InstrPos(ev), bad == nil, ifs(bad != nil, "the reader stores the message into the stream's shared Call at "+p.At(bad)+" and then queues the delivery: back-to-back messages overwrite each other (loss and duplication)"))
		}
	}

	// ---- alias / use-after-release for stream payloads
	ruleAliasSinks(c, a, "R-ALIAS", FieldRef{"event", "Value"})
	ruleStreamReadCopy(c, a, "R-STREAM-COPY")
	ruleUseAfterRelease(c, a, "R-UAR", func(fn *ssa.Function) bool { return uarClient(fn) || uarServer(fn) })
}

// ruleStreamReadCopy: stream.ReadMessage hands the user a copy of the event
// buffer (unless noCopy) and returns the buffer to the pool only after the
// last use.
func ruleStreamReadCopy(c *Check, a *Analysis, rule string) {
	p := c.P
	c.Rule(rule, "stream.ReadMessage decodes from a private copy of the event buffer unless stream.noCopy, and PutBuffer(e.Value) is not followed by a use of e.Value", 2)
	fn := p.Fn("(*stream).ReadMessage")
	if fn == nil {
		c.Undecided(rule, "(*stream).ReadMessage not found")
		return
	}
	sc := siteCounter{}
	// calls through the unmarshal field
	eachInstr(fn, func(in ssa.Instruction) {
		cc, ok := in.(*ssa.Call)
		if !ok || cc.Common().IsInvoke() || cc.Common().StaticCallee() != nil {
			return
		}
		if !isLoadOf(p.canon(cc.Common().Value), "stream", "unmarshal") || len(cc.Common().Args) < 1 {
			return
		}
		arg := cc.Common().Args[0]
		aliased := false
		for _, o := range p.origins(arg) {
			if isLoadOf(p.canon(o), "event", "Value") {
				aliased = true
			}
		}
		ok = true
		det := ""
		if aliased {
			g, _ := p.guardedBy(in, matchBoolField("stream", "noCopy"))
			if !g {
				ok = false
				det = "the user's message is decoded directly from the pooled event buffer although noCopy was not requested"
			}
		}
		if !aliased {
			// the private buffer really received the event's bytes
			filled := false
			for _, cp := range callsIn(fn, "builtin copy") {
				if p.canon(cp.Common().Args[0]) == p.canon(arg) && isLoadOf(p.canon(cp.Common().Args[1]), "event", "Value") && p.dominatesInstr(cp.(ssa.Instruction), in) {
					filled = true
				}
			}
			if !filled {
				ok = false
				det = "the private buffer handed to the decoder was never filled from the event's bytes: the message content is lost"
			}
		}
		c.Ob(rule, sc.key(fn, "unmarshal from copy unless noCopy"), p.InstrPos(in), ok, det)
	})
	// PutBuffer(e.Value) then no load of e.Value
	for _, pb := range callsIn(fn, "PutBuffer") {
		in := pb.(ssa.Instruction)
		var hit ssa.Instruction
		_, tr, found := p.reachFrom(fn, in, func(x ssa.Instruction) bool {
			if x == in {
				return false
			}
			if v, ok := x.(ssa.Value); ok && isLoadOf(v, "event", "Value") {
				hit = x
				return true
			}
			return false
		}, nil)
		det := ""
		if found {
			det = "e.Value used at " + p.At(hit) + " after it was returned to the pool (" + p.lineTrail(tr) + ")"
		}
		c.Ob(rule, sc.key(fn, "no use of e.Value after PutBuffer"), p.InstrPos(in), !found, det)
	}
}

func runC10(c *Check, a *Analysis) {
	p := c.P
	ls := a.Locks()
	sc := siteCounter{}
	ruleLockBalance(c, a, "R-LOCK-BALANCE", "stream.mut", "Conn.mutex", "Server.mutex")
	ruleStreamCond(c, a, "R-STREAM-COND")
	ruleWaitUnderFlag(c, a, "R-WAIT-UNDER-FLAG")
	ruleSweepKeepsStreams(c, a, "R-SWEEP-KEEPS-STREAMS")
	rulePollEOF(c, a, "R-POLL-EOF")
	ruleSchedNil(c, a, "R-SCHED-NIL")
	ruleStreamQueue(c, a, "R-STREAM-QUEUE")
	c.Rule("R-LOCK", "stream.events only under stream.mut", 3)
	ruleLock(c, a, "R-LOCK", "stream", "events")
	ruleWGDiscipline(c, a, "R-WG-DISCIPLINE")

	ruleStop(c, a, "R-STOP")

	// ---- client reader exit stops streams
	c.Rule("R-READER-STOPS-STREAMS", "the client reader's exit ranges over Conn.streams stopping every stream, inside the critical section that sets Conn.shutdown, on every path", 2)
	nr := 0
	for _, st := range p.storesToField("Conn", "shutdown") {
		s := st.Instr.(*ssa.Store)
		if cst, ok := s.Val.(*ssa.Const); !ok || constStr(cst) != "true" {
			continue
		}
		fn := st.Fn
		for _, m := range p.mapOps("Conn", "streams") {
			if m.Kind != "range" || !p.sameFn(m.Fn, fn) {
				continue
			}
			nr++
			_, tr, okp := p.mustPass(fn, s, func(x ssa.Instruction) bool { return x == m.Instr })
			c.Ob("R-READER-STOPS-STREAMS", sc.key(fn, "range streams on every exit path"), p.InstrPos(m.Instr), okp, ifs(!okp, "a path from shutdown=true to the return skips the streams ("+p.lineTrail(tr)+")"))
			stopped := false
			for _, sp := range callsIn(fn, "(*stream).stop") {
				if p.inLoop(sp.(ssa.Instruction)) && ls.SameSection(s, sp.(ssa.Instruction), "Conn.mutex") {
					stopped = true
				}
			}
			c.Ob("R-READER-STOPS-STREAMS", sc.key(fn, "stop() in the loop"), p.InstrPos(m.Instr), stopped, ifs(!stopped, "the reader's exit does not stop the streams it ranges over: ReadMessage callers block forever after connection loss"))
		}
	}
	if nr == 0 {
		c.Undecided("R-READER-STOPS-STREAMS", "no range over Conn.streams in the reader exit")
	}

	// ---- R-TEARDOWN-SIBLINGS
	c.Rule("R-TEARDOWN-SIBLINGS", "both server teardown sequences perform the same effect set {drain decode queue, wait for handlers, unregister codec, close codec, close every scheduler they own, close every stream of the connection}", 2)
	type effects map[string]bool
	var seqs []struct {
		fn *ssa.Function
		e  effects
	}
	for _, fn := range p.Fns {
		if !strings.HasPrefix(fname(topParent(fn)), "(*Server).") || len(callsIn(fn, "(*sync.WaitGroup).Wait")) == 0 {
			continue
		}
		e := effects{"wait for handlers": true}
		nClose := 0
		eachInstr(fn, func(in ssa.Instruction) {
			cc, ok := in.(*ssa.Call)
			if !ok {
				return
			}
			n := calleeName(cc)
			switch {
			case n == "invoke scheduler.Scheduler.Close":
				nClose++
			case n == "(*Server).deleteCodec":
				e["unregister codec"] = true
			case n == "invoke ServerCodec.Close":
				e["close codec"] = true
			case n == "(*stream).Close" && p.inLoop(in):
				e["close every stream"] = true
			}
		})
		e[fmt.Sprintf("close %d schedulers", nClose)] = true
		seqs = append(seqs, struct {
			fn *ssa.Function
			e  effects
		}{fn, e})
	}
	if len(seqs) < 2 {
		c.Undecided("R-TEARDOWN-SIBLINGS", fmt.Sprintf("expected two teardown sequences, found %d", len(seqs)))
	}
	for i := range seqs {
		for j := range seqs {
			if i == j {
				continue
			}
			var missing []string
			for k := range seqs[j].e {
				if !seqs[i].e[k] {
					missing = append(missing, k)
				}
			}
			det := ""
			if len(missing) > 0 {
				det = fmt.Sprintf("%s lacks effects that its sibling %s performs: %v", fname(seqs[i].fn), fname(seqs[j].fn), missing)
			}
			c.Ob("R-TEARDOWN-SIBLINGS", fname(seqs[i].fn)+"#same effects as "+fname(seqs[j].fn), seqs[i].fn.Pos(), len(missing) == 0, det)
		}
	}
	// every teardown closes the streams on every path past wg.Wait
	for _, s := range seqs {
		for _, w := range callsIn(s.fn, "(*sync.WaitGroup).Wait") {
			var rng ssa.Instruction
			eachInstr(s.fn, func(in ssa.Instruction) {
				if r, ok := in.(*ssa.Range); ok && isStreamTable(p, r.X) {
					rng = in
				}
			})
			ok := rng != nil
			if ok {
				_, _, ok = p.mustPass(s.fn, w.(ssa.Instruction), func(x ssa.Instruction) bool { return x == rng })
			}
			c.Ob("R-TEARDOWN-SIBLINGS", sc.key(s.fn, "streams closed after wg.Wait on every path"), p.InstrPos(w), ok, ifs(!ok, "a teardown path does not close the connection's streams: their handlers stay blocked"))
		}
	}

	// ---- close-stream request path
	c.Rule("R-CLOSE-STREAM", "the close-stream request closes the server-side stream, removes it from the table and is acknowledged on every path; the client removes the Conn.streams entry when the acknowledgement arrives", 3)
	if sr := p.Fn("(*Server).ServeRequest"); sr == nil {
		c.Undecided("R-CLOSE-STREAM", "ServeRequest not found")
	} else {
		edges, ne := p.guardEdges(sr, matchFieldEqConst("upgrade", "Stream", 3))
		if ne == 0 {
			c.Undecided("R-CLOSE-STREAM", "no closeStream test in ServeRequest")
		}
		sends := eventsOf(sr, "(*Server).sendResponse")
		for e := range edges {
			_, tr, miss := p.reachFromBlock(sr, e.to, isReturnLike, func(x ssa.Instruction) bool { return isIn(x, sends) }, nil)
			c.Ob("R-CLOSE-STREAM", sc.key(sr, "acknowledged on every path"), p.InstrPos(e.to.Instrs[0]), !miss, ifs(miss, "a close-stream request can go unanswered ("+p.lineTrail(tr)+"): the client's Close blocks forever"))
			_, _, closes := p.reachFromBlock(sr, e.to, func(x ssa.Instruction) bool { return isCallTo(x, "(*stream).Close") }, nil, nil)
			_, _, deletes := p.reachFromBlock(sr, e.to, func(x ssa.Instruction) bool {
				cc, ok := x.(*ssa.Call)
				return ok && calleeName(cc) == "builtin delete" && isStreamTable(p, cc.Call.Args[0])
			}, nil, nil)
			c.Ob("R-CLOSE-STREAM", sc.key(sr, "closes and removes the stream"), p.InstrPos(e.to.Instrs[0]), closes && deletes, ifs(!(closes && deletes), "the close-stream request does not close the server-side stream / remove it from the table: the handler stays blocked"))
		}
	}
	nd := 0
	for _, d := range p.mapOps("Conn", "streams") {
		if d.Kind != "delete" {
			continue
		}
		if len(pendingOps2(p, topParent(d.Fn), "update")) > 0 {
			continue
		}
		g, _ := p.guardedBy(d.Instr, matchFieldEqConst("upgrade", "Stream", 3))
		if g {
			nd++
		}
	}
	// the client's close request carries the close phase and asks for a bare acknowledgement
	if cs := p.Fn("(*Conn).closeStream"); cs == nil {
		c.Undecided("R-CLOSE-STREAM", "(*Conn).closeStream not found")
	} else {
		for _, w := range []struct {
			field string
			k     int64
			why   string
		}{{"Stream", 3, "the server does not recognise the request as a stream close: the server-side stream stays open and its handler blocked"}, {"NoResponse", 1, "the acknowledgement is not routed to the close arm of the reader: the Conn.streams entry is never removed (NumCalls stays non-zero, the connection is never reclaimed)"}} {
			ok := false
			eachInstrCtx(cs, func(in, at ssa.Instruction, res func(ssa.Value) ssa.Value) {
				st, isSt := in.(*ssa.Store)
				if !isSt {
					return
				}
				fr, _, okf := fieldOfAddr(st.Addr)
				if !okf || fr.Struct != "upgrade" || fr.Field != w.field {
					return
				}
				if k, isK := constInt(res(st.Val)); isK && k == w.k {
					for _, wr := range callsIn(cs, "(*Conn).write") {
						if p.dominatesInstr(at, wr.(ssa.Instruction)) {
							ok = true
						}
					}
				}
			})
			c.Ob("R-CLOSE-STREAM", "(*Conn).closeStream#request carries "+w.field, cs.Pos(), ok, ifs(!ok, "closeStream sends its request without "+w.field+" set: "+w.why))
		}
	}
	// stopping a stream is never confined to the edge on which the stream is nil
	for _, fn := range p.Fns {
		for _, sc2 := range callsIn(fn, "(*stream).stop", "(*stream).Close") {
			recv := sc2.Common().Args[0]
			onlyNil, _ := p.guardedBy(sc2.(ssa.Instruction), matchValueNil(p, recv))
			if fr, _, isF := fieldOfLoad(p.canon(recv)); !onlyNil && isF {
				onlyNil, _ = p.guardedBy(sc2.(ssa.Instruction), matchFieldNilAny(p, fr.Field))
			}
			c.Ob("R-CLOSE-STREAM", sc.key(fn, "stream stop/Close not on the nil edge"), p.InstrPos(sc2), !onlyNil, ifs(onlyNil, "the stream is stopped only on the edge on which it was tested nil: live streams are never stopped and their blocked readers never released"))
		}
	}
	c.Ob("R-CLOSE-STREAM", "reader#delete(Conn.streams) on close ack", token.NoPos, nd > 0, ifs(nd == 0, "the client never removes a closed stream from Conn.streams: NumCalls stays non-zero and the connection is never reclaimed"))
}

// ruleUpgradeOwner (shared by C06 and C09): the response reader may return a
// looked-up call's upgrade object to its pool only for call kinds whose owner
// never touches it again — plain calls (NoResponse clear), pings and stream
// closes. The opening call of a stream keeps using its upgrade for the
// stream's lifetime (NewStream switches its phase, every stream write shares
// it), so no recycle may be reachable for it — in particular not on the error
// arm, which every kind of call can take.
func ruleUpgradeOwner(c *Check, a *Analysis, rule string) {
	p := c.P
	c.Rule(rule, "in the response reader, putUpgrade of a looked-up call's upgrade is dominated by a test that excludes stream-open/streaming calls: NoResponse != 1 (plain call), Heartbeat == 1 (ping) or Stream == closeStream", 2)
	sc := siteCounter{}
	n := 0
	for _, l := range pendingOps(p, "lookup") {
		fn := l.Fn
		if len(pendingOps2(p, topParent(fn), "update")) > 0 {
			continue
		}
		lk := l.Instr.(*ssa.Lookup)
		for _, f := range withClosures(fn) {
			for _, call := range callsIn(f, "putUpgrade") {
				arg := call.Common().Args[0]
				fromCall := false
				for _, o := range p.origins(arg) {
					if fr, base, ok := fieldOfLoad(p.canon(o)); ok && fr.Struct == "Call" && fr.Field == "upgrade" && p.sameVarOrigin(base, lk) {
						fromCall = true
					}
				}
				if !fromCall {
					continue
				}
				n++
				in := call.(ssa.Instruction)
				g1, _ := p.guardedBy(in, negate(matchFieldEqConst("upgrade", "NoResponse", 1)))
				g2, _ := p.guardedBy(in, matchFieldEqConst("upgrade", "Heartbeat", 1))
				g3, _ := p.guardedBy(in, matchFieldEqConst("upgrade", "Stream", 3))
				ok := g1 || g2 || g3
				c.Ob(rule, sc.key(f, "putUpgrade(call.upgrade) only for plain/ping/close calls"), p.InstrPos(in), ok, ifs(!ok, "the reader recycles the upgrade object of a call that may be a stream-opening call: NewStream and the stream's writes keep using it, so the pool hands a dirty (Stream=streaming) upgrade to a later ordinary call, which is then sent as a stream message on a nil stream"))
			}
		}
	}
	if n == 0 {
		c.Undecided(rule, "no putUpgrade of a looked-up call's upgrade found in the reader")
	}
}

// ruleStreamCtxStable (C09): the fields of the stream-opening request Context
// that the server's push closure reads stay untouched on the open-stream path
// of sendResponse (the context lives as long as the stream).
func ruleStreamCtxStable(c *Check, a *Analysis, rule string) {
	p := c.P
	c.Rule(rule, "on the open-stream arm of sendResponse the long-lived request Context is neither overwritten as a whole nor has any field stored that the stream's push closure reads (Seq, codec, …)", 1)
	sr := p.Fn("(*Server).ServeRequest")
	sp := p.Fn("(*Server).sendResponse")
	if sr == nil || sp == nil {
		c.Undecided(rule, "ServeRequest / sendResponse not found")
		return
	}
	// read set of the push closure (the closure stored into stream.write)
	reads := map[string]bool{}
	eachInstr(sr, func(in ssa.Instruction) {
		st, ok := in.(*ssa.Store)
		if !ok {
			return
		}
		fr, _, ok := fieldOfAddr(st.Addr)
		if !ok || fr.Struct != "stream" || fr.Field != "write" {
			return
		}
		mc, ok := st.Val.(*ssa.MakeClosure)
		if !ok {
			return
		}
		cl := mc.Fn.(*ssa.Function)
		eachInstr(cl, func(x ssa.Instruction) {
			if v, ok := x.(ssa.Value); ok {
				if f, base, ok := fieldOfLoad(v); ok && f.Struct == "Context" {
					// through the captured request context
					if _, isFV := p.canon(base).(*ssa.Parameter); isFV || p.localCell(baseAddr(base)) != nil || true {
						if pn, ok := p.varKey(base).(*ssa.Parameter); ok && pn.Parent() == sr {
							reads[f.Field] = true
						}
					}
				}
			}
		})
	})
	if len(reads) == 0 {
		c.Undecided(rule, "the push closure's reads of the request context could not be determined")
		return
	}
	edges, n := p.guardEdges(sp, matchFieldEqConst("upgrade", "Stream", 1))
	if n == 0 {
		c.Undecided(rule, "sendResponse has no open-stream arm")
		return
	}
	ctxParam := ssa.Value(sp.Params[1])
	for e := range edges {
		var why string
		relSites := a.Releases().sitesIn(sp)
		w, _, bad := p.reachFromBlock(sp, e.to, func(x ssa.Instruction) bool {
			for _, r := range relSites {
				if r.Instr == x && r.Kind.Name == resContext.Name && p.varKey(r.Res) == interface{}(ctxParam) {
					why = "the Context is returned to the pool"
					return true
				}
			}
			if isCallTo(x, "(*Context).Reset") {
				why = "the Context is reset"
				return true
			}
			st, ok := x.(*ssa.Store)
			if !ok {
				return false
			}
			if p.canon(st.Addr) == ctxParam || p.varKey(st.Addr) == interface{}(ctxParam) {
				why = "the whole Context is overwritten"
				return true
			}
			if fr, base, ok := fieldOfAddr(st.Addr); ok && fr.Struct == "Context" && reads[fr.Field] && p.varKey(base) == interface{}(ctxParam) {
				why = "Context." + fr.Field + " is overwritten"
				return true
			}
			return false
		}, nil, nil)
		det := ""
		if bad {
			det = "after the open acknowledgement " + why + " at " + p.At(w) + ", but the stream's push closure keeps reading it: every pushed message is sent under a wrong sequence number / codec"
		}
		c.Ob(rule, fname(sp)+"#open-stream context keeps the fields the push closure reads", p.InstrPos(e.to.Instrs[0]), !bad, det)
	}
}

func baseAddr(v ssa.Value) ssa.Value {
	if u, ok := v.(*ssa.UnOp); ok {
		return u.X
	}
	return v
}

// ruleStop is shared by C10 and C03.
func ruleStop(c *Check, a *Analysis, rule string) {
	p := c.P
	ls := a.Locks()
	sc := siteCounter{}
	// ---- R-STOP
	c.Rule(rule, "stream.stop stores the closed flag inside stream.mut and broadcasts on every path; ReadMessage re-tests the flag after every Cond.Wait before touching the queue; WriteMessage tests it before writing; Close stops before closing the transport side", 5)
	if stop := p.Fn("(*stream).stop"); stop == nil {
		c.Undecided(rule, "(*stream).stop not found")
	} else {
		nSet := 0
		eachInstr(stop, func(in ssa.Instruction) {
			cc, ok := in.(*ssa.Call)
			if !ok || calleeName(cc) != "sync/atomic.StoreInt32" {
				return
			}
			if fr, _, ok := fieldOfAddr(cc.Call.Args[0]); ok && fr.Struct == "stream" && fr.Field == "closed" {
				nSet++
				k, isK := constInt(cc.Call.Args[1])
				c.Ob(rule, sc.key(stop, "closed set to non-zero"), p.InstrPos(in), isK && k != 0, ifs(!(isK && k != 0), "stop stores "+describe(cc.Call.Args[1])+" into the closed flag: the stream is never seen as closed"))
				held := ls.Held(in, "stream.mut")
				c.Ob(rule, sc.key(stop, "closed=1 under stream.mut"), p.InstrPos(in), held, ifs(!held, "the closed flag is set outside stream.mut: a reader can test the flag, miss the broadcast and block forever"))
				_, tr, okp := p.mustPass(stop, nil, func(x ssa.Instruction) bool { return x == in })
				c.Ob(rule, sc.key(stop, "closed=1 on every path"), p.InstrPos(in), okp, ifs(!okp, "a path through stop does not set the flag ("+p.lineTrail(tr)+")"))
			}
		})
		if nSet == 0 {
			c.Ob(rule, sc.key(stop, "closed=1 under stream.mut"), stop.Pos(), false, "stop does not set stream.closed")
		}
		_, tr, okp := p.mustPass(stop, nil, func(x ssa.Instruction) bool { return isCallTo(x, "(*sync.Cond).Broadcast") })
		c.Ob(rule, sc.key(stop, "Broadcast on every path"), stop.Pos(), okp, ifs(!okp, "a path through stop does not broadcast ("+p.lineTrail(tr)+"): blocked readers are never woken"))
	}
	isClosedTest := func(x ssa.Instruction) bool {
		cc, ok := x.(*ssa.Call)
		if !ok || calleeName(cc) != "sync/atomic.LoadInt32" {
			return false
		}
		fr, _, ok := fieldOfAddr(cc.Call.Args[0])
		return ok && fr.Struct == "stream" && fr.Field == "closed"
	}
	if rm := p.Fn("(*stream).ReadMessage"); rm == nil {
		c.Undecided(rule, "(*stream).ReadMessage not found")
	} else {
		waits := callsIn(rm, "(*sync.Cond).Wait")
		if len(waits) == 0 {
			c.Undecided(rule, "ReadMessage does not wait on the condition variable")
		}
		for _, w := range waits {
			var hit ssa.Instruction
			_, tr, found := p.reachFrom(rm, w.(ssa.Instruction), func(x ssa.Instruction) bool {
				if v, ok := x.(ssa.Value); ok && isLoadOf(v, "stream", "events") {
					hit = x
					return true
				}
				return x == w.(ssa.Instruction)
			}, isClosedTest)
			det := ""
			if found {
				det = "after Cond.Wait the queue is examined (or Wait is re-entered) at " + p.At(hit) + " without re-testing the closed flag (" + p.lineTrail(tr) + "): a reader woken by stop() blocks again forever"
			}
			c.Ob(rule, sc.key(rm, "re-test closed after Wait"), p.InstrPos(w), !found, det)
		}
		// first test before the first wait
		for _, w := range waits {
			_, _, found := p.reachFrom(rm, nil, func(x ssa.Instruction) bool { return x == w.(ssa.Instruction) }, isClosedTest)
			c.Ob(rule, sc.key(rm, "closed tested before first Wait"), p.InstrPos(w), !found, ifs(found, "ReadMessage can wait without ever testing the closed flag"))
		}
	}
	// every flag test distinguishes closed from open, and the closed edge leaves without the queue
	for _, name := range []string{"(*stream).ReadMessage", "(*stream).WriteMessage"} {
		fn := p.Fn(name)
		if fn == nil {
			continue
		}
		eachInstr(fn, func(in ssa.Instruction) {
			if !isClosedTest(in) {
				return
			}
			rec := false
			if refs := in.(ssa.Value).Referrers(); refs != nil {
				for _, r := range *refs {
					if b, ok := r.(*ssa.BinOp); ok {
						if m, _ := matchAtomicFlag("stream", "closed")(b); m {
							rec = true
						}
					}
				}
			}
			c.Ob(rule, sc.key(fn, "flag test is closed != 0"), p.InstrPos(in), rec, ifs(!rec, "the closed flag is compared in a way that does not separate 0 (open) from 1 (closed): a closed stream is not recognised"))
		})
		edges, _ := p.guardEdges(fn, matchAtomicFlag("stream", "closed"))
		for e := range edges {
			var hit ssa.Instruction
			_, tr, found := p.reachFromBlock(fn, e.to, func(x ssa.Instruction) bool {
				if v, ok := x.(ssa.Value); ok && (isLoadOf(v, "stream", "events") || isLoadOf(v, "stream", "write")) {
					hit = x
					return true
				}
				if isCallTo(x, "(*sync.Cond).Wait") {
					hit = x
					return true
				}
				return false
			}, never, nil)
			c.Ob(rule, sc.key(fn, "closed edge leaves"), p.InstrPos(e.to.Instrs[0]), !found, ifs(found, "on the edge on which the stream is known closed the function goes on to "+p.At(hit)+" ("+p.lineTrail(tr)+") instead of returning ErrStreamShutdown"))
		}
	}
	if wm := p.Fn("(*stream).WriteMessage"); wm == nil {
		c.Undecided(rule, "(*stream).WriteMessage not found")
	} else {
		eachInstr(wm, func(in ssa.Instruction) {
			cc, ok := in.(*ssa.Call)
			if !ok || !isLoadOf(p.canon(cc.Common().Value), "stream", "write") {
				return
			}
			g, _ := p.guardedBy(in, negate(matchAtomicFlag("stream", "closed")))
			c.Ob(rule, sc.key(wm, "closed tested before write"), p.InstrPos(in), g, ifs(!g, "WriteMessage writes without testing the closed flag"))
		})
	}
	if cl := p.Fn("(*stream).Close"); cl == nil {
		c.Undecided(rule, "(*stream).Close not found")
	} else {
		stops := callsIn(cl, "(*stream).stop")
		ok := len(stops) > 0
		eachInstr(cl, func(in ssa.Instruction) {
			cc, isC := in.(*ssa.Call)
			if !isC || !isLoadOf(p.canon(cc.Common().Value), "stream", "close") {
				return
			}
			for _, s := range stops {
				if !p.dominatesInstr(s.(ssa.Instruction), in) {
					ok = false
				}
			}
		})
		_, _, okp := p.mustPass(cl, nil, func(x ssa.Instruction) bool { return isCallTo(x, "(*stream).stop") })
		c.Ob(rule, sc.key(cl, "stop before close, on every path"), cl.Pos(), ok && okp, ifs(!(ok && okp), "stream.Close does not call stop() first on every path"))
	}

}

// ruleStreamQueue (C09): the per-stream queue is a FIFO under stream.mut: trigger appends
// and signals, ReadMessage takes events[0] and stores events[1:] in the same critical section.
func ruleStreamQueue(c *Check, a *Analysis, rule string) {
	p := c.P
	ls := a.Locks()
	c.Rule(rule, "stream.trigger appends the event to stream.events under stream.mut and then signals the condition variable on every path; ReadMessage delivers events[0] and stores events[1:] in the same critical section", 4)
	if tr := p.Fn("(*stream).trigger"); tr == nil || len(tr.Params) < 2 {
		c.Undecided(rule, "(*stream).trigger not found")
	} else {
		var app ssa.Instruction
		for _, st := range p.fieldStoresIn(tr, "stream", "events") {
			if cc, ok := p.canon(st.Val).(*ssa.Call); ok && calleeName(cc) == "builtin append" && isLoadOf(p.canon(cc.Call.Args[0]), "stream", "events") {
				for _, e := range appendedElems(p, cc) {
					if p.canon(e) == ssa.Value(tr.Params[1]) && ls.Held(st, "stream.mut") {
						app = st
					}
				}
			}
		}
		c.Ob(rule, "(*stream).trigger#events = append(events, e) under stream.mut", tr.Pos(), app != nil, ifs(app == nil, "trigger does not append its event to the stream's queue under stream.mut: the message is lost"))
		if app != nil {
			_, trl, okp := p.mustPass(tr, app, func(x ssa.Instruction) bool {
				return isCallTo(x, "(*sync.Cond).Signal") || isCallTo(x, "(*sync.Cond).Broadcast")
			})
			c.Ob(rule, "(*stream).trigger#signal after append", p.InstrPos(app), okp, ifs(!okp, "after queueing the event no Signal/Broadcast follows ("+p.lineTrail(trl)+"): a reader blocked in ReadMessage is not woken"))
		}
	}
	rm := p.Fn("(*stream).ReadMessage")
	if rm == nil {
		c.Undecided(rule, "(*stream).ReadMessage not found")
		return
	}
	sc := siteCounter{}
	n := 0
	eachInstr(rm, func(in ssa.Instruction) {
		// element taken: load of IndexAddr(events, k)
		u, ok := in.(*ssa.UnOp)
		if !ok || u.Op != token.MUL {
			return
		}
		ia, ok := u.X.(*ssa.IndexAddr)
		if !ok || !isLoadOf(p.canon(ia.X), "stream", "events") {
			return
		}
		n++
		k, isK := constInt(ia.Index)
		c.Ob(rule, sc.key(rm, "delivers the oldest event"), p.InstrPos(in), isK && k == 0, ifs(!(isK && k == 0), "ReadMessage takes events["+describe(ia.Index)+"], not the oldest one: order is broken"))
		// followed, in the same critical section, by events = events[1:]
		popped := false
		for _, st := range p.fieldStoresIn(rm, "stream", "events") {
			sl, ok := p.canon(st.Val).(*ssa.Slice)
			if !ok || !isLoadOf(p.canon(sl.X), "stream", "events") || sl.High != nil || sl.Low == nil {
				continue
			}
			lo, isL := constInt(sl.Low)
			if isL && lo == 1 && ls.SameSection(in, st, "stream.mut") && p.dominatesInstr(in, st) {
				popped = true
			}
		}
		c.Ob(rule, sc.key(rm, "pop in the same critical section"), p.InstrPos(in), popped, ifs(!popped, "the delivered event is not removed from the queue (events = events[1:]) in the critical section in which it was taken: it is delivered again, or two readers take the same one"))
		// the taken event is decoded into the caller's message on every path
		_, trU, okU := p.mustPass(rm, in, func(x ssa.Instruction) bool {
			cc, ok := x.(*ssa.Call)
			return ok && !cc.Common().IsInvoke() && cc.Common().StaticCallee() == nil && isLoadOf(p.canon(cc.Common().Value), "stream", "unmarshal")
		})
		c.Ob(rule, sc.key(rm, "taken event is decoded on every path"), p.InstrPos(in), okU, ifs(!okU, "a path from taking the event to the return does not decode it into the caller's message ("+p.lineTrail(trU)+"): the message is consumed and its content lost"))
	})
	if n == 0 {
		c.Undecided(rule, "ReadMessage does not take an element of stream.events")
	}
}

// deliveryName: the call that hands a received stream message to the stream on the client side:
// the helper (*Call).streaming while it exists, else the queueing call itself.
func deliveryName(p *Prog) string {
	if p.Fn("(*Call).streaming") != nil {
		return "(*Call).streaming"
	}
	return "(*stream).trigger"
}
