package main

import (
	"golang.org/x/tools/go/ssa"
)

func init() {
	register("C11", &propDef{
		Meta: PropMeta{
			Explanation: "Buffer-alias taint (E6) and use-after-release typestate (E7) over package rpc: (1) the bytes the server decodes a handler's arguments from are a private copy of the request body unless the copy is skipped on an edge dominated by Server.noCopy == true; (2) on the client Call.Value is a fresh allocation or the caller's Call.Buffer[:n] (with n bounded by its capacity) filled by copy before decode and before the read buffer is released; (3) stream messages are copied into a pool buffer by the reader and into the user's/a fresh buffer by ReadMessage before the event buffer is returned (unless stream.noCopy); (4) no read buffer, pooled Context, Call, upgrade or event is used after release, released twice, or touched by a function after it handed the object to a scheduled closure; (5) nothing user-visible (Call.Error, Call.Value, event.Value) aliases the pooled read buffer.",
			NotDecided:  "Behaviour of user codecs that keep references into their input; the server-side shared context buffer (SetContextBuffer) is outside the property statement and not armed.",
			Assumptions: []string{"the header decoders may return zero-copy views of the frame (code.DecodeString/DecodeBytes do)", "copy() and string/[]byte conversions produce private data"},
			Trusted:     commonTrusted,
		},
		Run: runC11,
	})
}

func runC11(c *Check, a *Analysis) {
	p := c.P
	t := a.Taint()
	sc := siteCounter{}
	ruleRecycleClean(c, a, "R-RECYCLE-CLEAN")
	ruleUserBytesFresh(c, a, "R-USER-BYTES-FRESH")
	rulePoolOwnBuffers(c, a, "R-POOL-OWN-BUFFERS")
	ruleStreamFreshValue(c, a, "R-STREAM-FRESH-VALUE")
	c.Rule("R-SERVER-COPY", "the bytes passed to ServerCodec.ReadRequestBody together with a handler argument object are clean, except on φ-edges whose predecessor is dominated by Server.noCopy == true", 1)
	n := 0
	for _, fn := range p.Fns {
		for _, call := range invokesIn(fn, "ServerCodec", "ReadRequestBody") {
			args := call.Common().Args
			if nilConst(args[1]) {
				continue
			}
			n++
			v := args[0]
			ok := true
			det := ""
			check := func(val ssa.Value, at ssa.Instruction) {
				if !t.Tainted(val) {
					return
				}
				g, _ := p.guardedBy(at, matchBoolField("Server", "noCopy"))
				if !g {
					ok = false
					det = "handler arguments are decoded from bytes that alias the pooled read buffer (" + describe(val) + ") although NoCopy was not requested"
				}
			}
			if phi, isPhi := p.canon(v).(*ssa.Phi); isPhi {
				for i, e := range phi.Edges {
					pred := phi.Block().Preds[i]
					check(e, pred.Instrs[len(pred.Instrs)-1])
				}
			} else {
				check(v, call)
			}
			c.Ob("R-SERVER-COPY", sc.key(fn, "ReadRequestBody(copy, args)"), p.InstrPos(call), ok, det)
		}
	}
	if n == 0 {
		c.Undecided("R-SERVER-COPY", "no ReadRequestBody call with an argument object found")
	}
	ruleClientCopyBeforeDecode(c, a, "R-COPY-BEFORE-DECODE")
	ruleAliasSinks(c, a, "R-ALIAS", FieldRef{"Call", "Value"}, FieldRef{"Call", "Error"}, FieldRef{"event", "Value"})
	ruleStreamReadCopy(c, a, "R-STREAM-COPY")
	// copies are filled: every store of a fresh buffer into Call.Value / event.Value is followed by a copy into it before it escapes
	c.Rule("R-COPY-FILLED", "a fresh buffer stored into Call.Value / event.Value is filled by copy(dst, src) on every path before the value is used by a decoder or delivered", 2)
	for _, sk := range []FieldRef{{"Call", "Value"}, {"event", "Value"}} {
		for _, s := range p.storesToField(sk.Struct, sk.Field) {
			st := s.Instr.(*ssa.Store)
			if nilConst(st.Val) {
				continue
			}
			fn := s.Fn
			// uses: decode / trigger / streaming
			isUse := func(x ssa.Instruction) bool {
				if cc, ok := x.(*ssa.Call); ok {
					n := calleeName(cc)
					return n == "invoke ClientCodec.ReadResponseBody" || n == "(*stream).trigger" || n == "(*Call).streaming"
				}
				return false
			}
			isCopy := func(x ssa.Instruction) bool {
				cc, ok := x.(*ssa.Call)
				return ok && calleeName(cc) == "builtin copy"
			}
			// start from the allocation of the buffer (GetBuffer / make / Buffer[:n])
			var allocs []ssa.Instruction
			for _, o := range p.origins(st.Val) {
				switch x := p.canon(o).(type) {
				case *ssa.Call:
					allocs = append(allocs, x)
				case *ssa.MakeSlice:
					allocs = append(allocs, x)
				case *ssa.Slice:
					allocs = append(allocs, x)
				}
			}
			for _, al := range allocs {
				if al.Parent() != fn {
					continue
				}
				_, _, anyUse := p.reachFrom(fn, al, isUse, nil)
				if !anyUse {
					continue
				}
				_, tr, found := p.reachFrom(fn, al, isUse, isCopy)
				c.Ob("R-COPY-FILLED", sc.key(fn, sk.String()+" filled before use"), p.InstrPos(st), !found, ifs(found, "a fresh buffer is delivered/decoded without the payload having been copied into it ("+p.lineTrail(tr)+")"))
			}
		}
	}
	// server side: the private copy is filled before the handler's arguments are decoded from it
	for _, fn := range p.Fns {
		for _, call := range invokesIn(fn, "ServerCodec", "ReadRequestBody") {
			if nilConst(call.Common().Args[1]) {
				continue
			}
			for _, o := range p.origins(call.Common().Args[0]) {
				var al ssa.Instruction
				switch x := p.canon(o).(type) {
				case *ssa.Call:
					al = x
				case *ssa.MakeSlice:
					al = x
				case *ssa.Slice:
					if cc, ok := p.canon(x.X).(*ssa.Call); ok {
						al = cc
					}
				}
				if al == nil || al.Parent() != fn {
					continue
				}
				_, tr, found := p.reachFrom(fn, al, func(x ssa.Instruction) bool { return x == call.(ssa.Instruction) }, func(x ssa.Instruction) bool {
					cc, ok := x.(*ssa.Call)
					return ok && calleeName(cc) == "builtin copy"
				})
				c.Ob("R-COPY-FILLED", sc.key(fn, "argument copy filled before decode"), p.InstrPos(al), !found, ifs(found, "handler arguments are decoded from a fresh buffer that was never filled with the request body ("+p.lineTrail(tr)+")"))
			}
		}
	}
	ruleCopyDestFresh(c, a, "R-COPY-DEST-FRESH")
	ruleUseAfterRelease(c, a, "R-UAR", uarAll)
}
