package main

import (
	"fmt"
	"go/token"
	"strings"

	"golang.org/x/tools/go/ssa"
)

// stripAddZero removes the `0 + x` go/ssa leaves for `offset + x` while offset is still the constant 0.
func stripAddZero(v ssa.Value) ssa.Value {
	for i := 0; i < 4; i++ {
		b, ok := v.(*ssa.BinOp)
		if !ok || b.Op != token.ADD {
			return v
		}
		if k, isK := constInt(b.X); isK && k == 0 {
			v = b.Y
			continue
		}
		if k, isK := constInt(b.Y); isK && k == 0 {
			v = b.X
			continue
		}
		return v
	}
	return v
}

// addOperands returns the two operands of an addition (after removing 0+).
func addOperands(v ssa.Value) (ssa.Value, ssa.Value, bool) {
	b, ok := v.(*ssa.BinOp)
	if !ok || b.Op != token.ADD {
		return nil, nil, false
	}
	return b.X, b.Y, true
}

// ruleVarintShape (C07): every inlined LEB128 writer has the shape of the documented
// varint encoding, the code header's field writers advance the offset by what they wrote,
// and the code header's reader advances by what the writer wrote.
func ruleVarintShape(c *Check, a *Analysis, rule string) {
	p := c.P
	c.Rule(rule, "every loop that emits varint continuation bytes (byte(t)|0x80) runs i = 0 .. size-2 over buf[base+i], shifts t by 7, and is followed by the final byte byte(t) at buf[base+size-1]; in the code header the value added to the offset after a field is exactly what was written (size; lengthSize+length with the payload copied at base+lengthSize; 1+length with byte(length) at base and the payload at base+1; 1 with a zero byte), and the reader advances by the decoder's result, by 1+data[offset] with the payload data[offset+1 : offset+s], or by 1", 20)
	sc := siteCounter{}
	loops := 0
	for _, fn := range p.Fns {
		eachInstr(fn, func(in ssa.Instruction) {
			st, ok := in.(*ssa.Store)
			if !ok {
				return
			}
			or, ok := st.Val.(*ssa.BinOp)
			if !ok || or.Op != token.OR {
				return
			}
			k, isK := constInt(or.Y)
			x := or.X
			if !isK {
				k, isK = constInt(or.X)
				x = or.Y
			}
			if !isK || k != 0x80 {
				return
			}
			ia, ok := st.Addr.(*ssa.IndexAddr)
			if !ok {
				return
			}
			loops++
			bad := varintLoopDefect(p, st, ia, x)
			c.Ob(rule, sc.key(fn, "varint continuation loop"), p.InstrPos(st), bad == "", ifs(bad != "", "inlined varint writer deviates from the documented encoding: "+bad+" — lengths / sequence numbers above 127 are written wrongly"))
		})
	}
	if loops < 10 {
		c.Undecided(rule, fmt.Sprintf("expected at least 10 inlined varint writers, found %d", loops))
	}
	// code header writers: what is added to the offset
	for _, name := range []string{"(*request).Marshal", "(*response).Marshal"} {
		fn := p.Fn(name)
		if fn == nil {
			c.Undecided(rule, name+" not found")
			continue
		}
		n := 0
		eachInstr(fn, func(in ssa.Instruction) {
			phi, ok := in.(*ssa.Phi)
			if !ok || !strings.HasSuffix(phi.Type().String(), "uint64") || len(phi.Edges) < 3 {
				return
			}
			// the per-field byte count: one edge is SizeofVarint(L)+L
			isN := false
			for _, e := range phi.Edges {
				if x, y, ok := addOperands(e); ok {
					if varintSizeOf(p, x, y) || varintSizeOf(p, y, x) {
						isN = true
					}
				}
			}
			if !isN {
				return
			}
			n++
			for i, e := range phi.Edges {
				pred := phi.Block().Preds[i]
				bad := writerArmDefect(p, e, pred)
				c.Ob(rule, sc.key(fn, "bytes written = offset advance"), p.InstrPos(phi), bad == "", ifs(bad != "", "a field writer of the code header advances the offset by something other than what it wrote: "+bad))
			}
		})
		if n < 2 {
			c.Undecided(rule, fmt.Sprintf("%s: expected at least 2 length-prefixed fields, found %d", name, n))
		}
	}
	// code header readers
	for _, name := range []string{"(*request).Unmarshal", "(*response).Unmarshal"} {
		fn := p.Fn(name)
		if fn == nil {
			c.Undecided(rule, name+" not found")
			continue
		}
		n := 0
		eachInstr(fn, func(in ssa.Instruction) {
			phi, ok := in.(*ssa.Phi)
			if !ok || !strings.HasSuffix(phi.Type().String(), "uint64") {
				return
			}
			// a byte count: some edge is a code.Decode* result
			isN := false
			for _, e := range phi.Edges {
				if cc, isC := e.(*ssa.Call); isC && strings.HasPrefix(calleeName(cc), "code.Decode") {
					isN = true
				}
			}
			if !isN {
				return
			}
			n++
			for i, e := range phi.Edges {
				bad := readerArmDefect(p, fn, e)
				if k, isK := constInt(e); bad == "" && isK && k == 1 {
					// the one-byte advance is for the zero length byte only
					pred := phi.Block().Preds[i]
					g, n := p.guardedBy(pred.Instrs[len(pred.Instrs)-1], func(cond ssa.Value) (bool, bool) {
						b, ok := cond.(*ssa.BinOp)
						if !ok || !isDataByte(b.X) {
							return false, false
						}
						kk, isKK := constInt(b.Y)
						if !isKK {
							return false, false
						}
						switch {
						case b.Op == token.GTR && kk == 0, b.Op == token.NEQ && kk == 0, b.Op == token.GEQ && kk == 1:
							return true, false
						case b.Op == token.EQL && kk == 0, b.Op == token.LSS && kk == 1, b.Op == token.LEQ && kk == 0:
							return true, true
						case b.Op == token.GEQ && kk == 0:
							return true, false // always true: the arm is dead
						}
						return false, false
					})
					if n > 0 && !g {
						bad = "the reader advances by one byte on an edge on which the length byte may be non-zero (the field's bytes are then parsed as the next field)"
					}
				}
				c.Ob(rule, sc.key(fn, "bytes consumed = bytes the writer wrote"), p.InstrPos(phi), bad == "", ifs(bad != "", "a field reader of the code header advances the offset wrongly: "+bad))
			}
		})
		if n < 2 {
			c.Undecided(rule, fmt.Sprintf("%s: expected at least 2 length-prefixed fields, found %d", name, n))
		}
		// the single-byte fast path only for lengths that fit one byte
		eachInstr(fn, func(in ssa.Instruction) {
			sl, ok := in.(*ssa.Slice)
			if !ok || sl.Low == nil || sl.High == nil {
				return
			}
			if _, isParam := sl.X.(*ssa.Parameter); !isParam {
				return
			}
			g, _ := p.guardedBy(sl, func(cond ssa.Value) (bool, bool) {
				b, ok := cond.(*ssa.BinOp)
				if !ok {
					return false, false
				}
				k, isK := constInt(b.Y)
				if !isK || !isDataByte(b.X) {
					return false, false
				}
				switch {
				case b.Op == token.GTR && k == 127, b.Op == token.GEQ && k == 128:
					return true, false // fits one byte on the false edge
				case b.Op == token.LEQ && k == 127, b.Op == token.LSS && k == 128:
					return true, true
				}
				return false, false
			})
			c.Ob(rule, sc.key(fn, "single-byte length path only for lengths <= 127"), p.InstrPos(sl), g, ifs(!g, "the reader takes data[offset] as the whole length on an edge on which it may be the first byte of a multi-byte varint"))
		})
	}
}

func isDataByte(v ssa.Value) bool {
	u, ok := v.(*ssa.UnOp)
	if !ok || u.Op != token.MUL {
		return false
	}
	ia, ok := u.X.(*ssa.IndexAddr)
	if !ok {
		return false
	}
	_, isParam := ia.X.(*ssa.Parameter)
	return isParam
}

func varintLoopDefect(p *Prog, st *ssa.Store, ia *ssa.IndexAddr, x ssa.Value) string {
	cv, ok := x.(*ssa.Convert)
	if !ok {
		return "the continuation byte is not byte(t)|0x80"
	}
	tphi, ok := cv.X.(*ssa.Phi)
	if !ok {
		return "the value being encoded is not carried round the loop"
	}
	shifted := false
	for _, e := range tphi.Edges {
		if b, ok := e.(*ssa.BinOp); ok && b.Op == token.SHR && b.X == ssa.Value(tphi) {
			if k, isK := constInt(b.Y); isK && k == 7 {
				shifted = true
			} else {
				return "the value is not shifted by 7 bits per byte"
			}
		}
	}
	if !shifted {
		return "the value is not shifted by 7 bits per byte"
	}
	bx, by, ok := addOperands(ia.Index)
	if !ok {
		return "the continuation byte is not stored at base+i"
	}
	var iphi *ssa.Phi
	var base ssa.Value
	if ph, ok := by.(*ssa.Phi); ok {
		iphi, base = ph, bx
	} else if ph, ok := bx.(*ssa.Phi); ok {
		iphi, base = ph, by
	} else {
		// `for i := range buf[base : base+size-1]`: go/ssa counts k = φ+1 from φ = -1 while k < len(slice)
		if d := rangeFormDefect(p, st, ia, tphi, bx, by); d != "no" {
			return d
		}
		return "the continuation byte is not stored at base+i"
	}
	init0, step1 := false, false
	for _, e := range iphi.Edges {
		if k, isK := constInt(e); isK {
			if k != 0 {
				return fmt.Sprintf("the byte index starts at %d instead of 0", k)
			}
			init0 = true
		} else if b, ok := e.(*ssa.BinOp); ok && b.Op == token.ADD && b.X == ssa.Value(iphi) {
			if k, isK := constInt(b.Y); isK && k == 1 {
				step1 = true
			}
		}
	}
	if !init0 || !step1 {
		return "the byte index does not run 0,1,2,…"
	}
	// loop test in the φ's block: i < size-1
	blk := iphi.Block()
	iff, ok := blk.Instrs[len(blk.Instrs)-1].(*ssa.If)
	if !ok {
		return "no loop test"
	}
	lt, ok := iff.Cond.(*ssa.BinOp)
	if !ok || lt.Op != token.LSS || lt.X != ssa.Value(iphi) {
		return "the loop test is not i < size-1"
	}
	sub, ok := lt.Y.(*ssa.BinOp)
	if !ok || sub.Op != token.SUB {
		return "the loop test is not i < size-1"
	}
	if k, isK := constInt(sub.Y); !isK || k != 1 {
		return "the loop does not stop one byte before the end (i < size-1)"
	}
	size := sub.X
	if st.Block() != blk.Succs[0] {
		return "the continuation byte is not written in the loop body"
	}
	// final byte in the exit block: buf[base+size-1] = byte(t)
	exit := blk.Succs[1]
	final := false
	for _, in := range exit.Instrs {
		s2, ok := in.(*ssa.Store)
		if !ok {
			continue
		}
		ia2, ok := s2.Addr.(*ssa.IndexAddr)
		if !ok || ia2.X != ia.X {
			continue
		}
		cv2, ok := s2.Val.(*ssa.Convert)
		if !ok || cv2.X != ssa.Value(tphi) {
			continue
		}
		sb, ok := ia2.Index.(*ssa.BinOp)
		if !ok || sb.Op != token.SUB {
			continue
		}
		if k, isK := constInt(sb.Y); !isK || k != 1 {
			return "the final byte is not stored at base+size-1"
		}
		ax, ay, ok := addOperands(sb.X)
		if !ok {
			continue
		}
		sameBase := func(v ssa.Value) bool {
			return v == base || sameConstOrExpr(p, v, base)
		}
		if (ay == size && sameBase(ax)) || (ax == size && sameBase(ay)) {
			final = true
		} else {
			return "the final byte is not stored at base+size-1 of the same size and base"
		}
	}
	if !final {
		return "the final byte byte(t) is not stored at base+size-1 after the loop"
	}
	return ""
}

func sameConstOrExpr(p *Prog, a, b ssa.Value) bool {
	ka, oka := constInt(a)
	kb, okb := constInt(b)
	if oka && okb {
		return ka == kb
	}
	return sameExpr(p, a, b)
}

// writerArmDefect checks one incoming value of the per-field byte count of a code header writer.
func writerArmDefect(p *Prog, e ssa.Value, pred *ssa.BasicBlock) string {
	if k, isK := constInt(e); isK {
		if k != 1 {
			return fmt.Sprintf("the empty-field arm advances by %d, it writes one byte", k)
		}
		// the zero byte
		for _, in := range pred.Instrs {
			if st, ok := in.(*ssa.Store); ok {
				if _, isIA := st.Addr.(*ssa.IndexAddr); isIA {
					if kv, isKv := constInt(st.Val); isKv {
						if kv != 0 {
							return fmt.Sprintf("the empty-field arm writes the length byte %d instead of 0", kv)
						}
						return ""
					}
				}
			}
		}
		return "the empty-field arm does not write the zero length byte"
	}
	x, y, ok := addOperands(e)
	if !ok {
		return "unrecognised byte count " + describe(e)
	}
	if !isVarintSizeCall(p, x) && isVarintSizeCall(p, y) {
		x, y = y, x
	}
	if cc, isC := x.(*ssa.Call); isC && isVarintSizeCall(p, x) {
		if !varintSizeOf(p, x, y) {
			return "the long arm advances by lengthSize + something other than the length"
		}
		// payload copied at base+lengthSize (searched in the loop's exit block = pred)
		for _, in := range pred.Instrs {
			if cp, ok := in.(*ssa.Call); ok && calleeName(cp) == "builtin copy" {
				sl, ok := cp.Call.Args[0].(*ssa.Slice)
				if !ok || sl.Low == nil {
					return "the payload is not copied behind the length"
				}
				ax, ay, ok := addOperands(sl.Low)
				if !ok || (ax != ssa.Value(cc) && ay != ssa.Value(cc)) {
					return "the payload is not copied at base+lengthSize"
				}
				return ""
			}
		}
		return "the long arm does not copy the payload"
	}
	// short arm: 1 + length
	k, isK := constInt(x)
	l := y
	if !isK {
		k, isK = constInt(y)
		l = x
	}
	if !isK {
		return "unrecognised byte count " + describe(e)
	}
	if k != 1 {
		return fmt.Sprintf("the short arm advances by %d+length, it writes 1+length bytes", k)
	}
	okLen, okCopy := false, false
	for _, in := range pred.Instrs {
		switch v := in.(type) {
		case *ssa.Store:
			if _, isIA := v.Addr.(*ssa.IndexAddr); isIA {
				if cv, ok := v.Val.(*ssa.Convert); ok && cv.X == l {
					okLen = true
				}
			}
		case *ssa.Call:
			if calleeName(v) == "builtin copy" {
				if sl, ok := v.Call.Args[0].(*ssa.Slice); ok && sl.Low != nil {
					if ax, ay, ok := addOperands(sl.Low); ok {
						k1, is1 := constInt(ay)
						if !is1 {
							k1, is1 = constInt(ax)
						}
						if is1 && k1 == 1 {
							okCopy = true
						} else if is1 {
							return fmt.Sprintf("the short arm copies the payload at base+%d instead of base+1", k1)
						}
					} else if _, isZero := constInt(sl.Low); isZero {
						return "the short arm copies the payload over its own length byte"
					}
				}
			}
		}
	}
	if !okLen {
		return "the short arm does not store byte(length) of the length it advances by"
	}
	if !okCopy {
		return "the short arm does not copy the payload at base+1"
	}
	return ""
}

// readerArmDefect checks one incoming value of the per-field byte count of a code header reader.
func readerArmDefect(p *Prog, fn *ssa.Function, e ssa.Value) string {
	if k, isK := constInt(e); isK {
		if k != 1 {
			return fmt.Sprintf("the empty-field arm advances by %d, the writer wrote one byte", k)
		}
		return ""
	}
	if cc, isC := e.(*ssa.Call); isC {
		if strings.HasPrefix(calleeName(cc), "code.Decode") {
			return ""
		}
		return "unrecognised byte count " + describe(e)
	}
	x, y, ok := addOperands(e)
	if !ok {
		return "unrecognised byte count " + describe(e)
	}
	k, isK := constInt(x)
	l := y
	if !isK {
		k, isK = constInt(y)
		l = x
	}
	cv, isCv := l.(*ssa.Convert)
	if !isK || !isCv || !isDataByte(cv.X) {
		return "unrecognised byte count " + describe(e)
	}
	if k != 1 {
		return fmt.Sprintf("the short arm advances by %d+data[offset], the writer wrote 1+length bytes", k)
	}
	// the payload slice data[offset+1 : offset+s] that uses this s
	found := false
	bad := ""
	eachInstr(fn, func(in ssa.Instruction) {
		sl, ok := in.(*ssa.Slice)
		if !ok || sl.High == nil || sl.Low == nil {
			return
		}
		hx, hy, ok := addOperands(sl.High)
		if !ok || (hx != e && hy != e) {
			return
		}
		found = true
		lx, ly, ok := addOperands(sl.Low)
		if !ok {
			bad = "the payload does not start at offset+1"
			return
		}
		k1, is1 := constInt(ly)
		if !is1 {
			k1, is1 = constInt(lx)
		}
		if !is1 || k1 != 1 {
			bad = "the payload does not start at offset+1"
		}
	})
	if !found {
		return "the short arm's payload is not data[offset+1 : offset+s]"
	}
	return bad
}

// isVarintSizeCall: v is code.SizeofVarint(…), or a call to a plain helper that returns
// code.SizeofVarint of one of its parameters (a varint writer returning the bytes written).
func isVarintSizeCall(p *Prog, v ssa.Value) bool {
	_, ok := varintSizeArg(p, v)
	return ok
}

// varintSizeArg returns the value whose varint size v is.
func varintSizeArg(p *Prog, v ssa.Value) (ssa.Value, bool) {
	cc, ok := v.(*ssa.Call)
	if !ok {
		return nil, false
	}
	if calleeName(cc) == "code.SizeofVarint" {
		return cc.Call.Args[0], true
	}
	h := cc.Common().StaticCallee()
	if h == nil || !p.isPlainHelper(h) {
		return nil, false
	}
	var res ssa.Value
	okAll := true
	eachInstrLocal(h, func(in ssa.Instruction) {
		r, isR := in.(*ssa.Return)
		if !isR {
			return
		}
		if len(r.Results) != 1 {
			okAll = false
			return
		}
		in2, ok2 := r.Results[0].(*ssa.Call)
		if !ok2 || calleeName(in2) != "code.SizeofVarint" {
			okAll = false
			return
		}
		prm, isP := in2.Call.Args[0].(*ssa.Parameter)
		if !isP {
			okAll = false
			return
		}
		for i, q := range h.Params {
			if q == prm && i < len(cc.Call.Args) {
				res = cc.Call.Args[i]
			}
		}
	})
	if !okAll || res == nil {
		return nil, false
	}
	return res, true
}

func varintSizeOf(p *Prog, sz, l ssa.Value) bool {
	a, ok := varintSizeArg(p, sz)
	return ok && a == l
}

// rangeFormDefect checks the range-over-subslice form of the varint loop. It returns "" when the
// loop is correct, a description when it is this form but wrong, and "no" when it is not this form.
func rangeFormDefect(p *Prog, st *ssa.Store, ia *ssa.IndexAddr, tphi *ssa.Phi, bx, by ssa.Value) string {
	strip := func(v ssa.Value) ssa.Value {
		if c, ok := v.(*ssa.Convert); ok {
			return c.X
		}
		return v
	}
	var k *ssa.BinOp
	var base ssa.Value
	if b, ok := strip(by).(*ssa.BinOp); ok && b.Op == token.ADD {
		k, base = b, bx
	} else if b, ok := strip(bx).(*ssa.BinOp); ok && b.Op == token.ADD {
		k, base = b, by
	} else {
		return "no"
	}
	phi, ok := k.X.(*ssa.Phi)
	if one, isK := constInt(k.Y); !ok || !isK || one != 1 {
		return "no"
	}
	from := false
	for _, e := range phi.Edges {
		if c, isK := constInt(e); isK {
			if c != -1 {
				return fmt.Sprintf("the range index starts at %d", c+1)
			}
			from = true
		}
	}
	if !from {
		return "no"
	}
	blk := k.Block()
	iff, ok := blk.Instrs[len(blk.Instrs)-1].(*ssa.If)
	if !ok {
		return "no"
	}
	lt, ok := iff.Cond.(*ssa.BinOp)
	if !ok || lt.Op != token.LSS || lt.X != ssa.Value(k) {
		return "no"
	}
	ln, ok := lt.Y.(*ssa.Call)
	if !ok || calleeName(ln) != "builtin len" {
		return "no"
	}
	sl, ok := ln.Call.Args[0].(*ssa.Slice)
	if !ok || sl.X != ia.X || sl.Low == nil || sl.High == nil {
		return "the loop does not range over buf[base : base+size-1]"
	}
	if !(sl.Low == base || sameConstOrExpr(p, sl.Low, base)) {
		return "the ranged sub-slice does not start at the base the bytes are written from"
	}
	hs, ok := sl.High.(*ssa.BinOp)
	if !ok || hs.Op != token.SUB {
		return "the ranged sub-slice does not end one byte before the end (base+size-1)"
	}
	if one, isK := constInt(hs.Y); !isK || one != 1 {
		return "the ranged sub-slice does not end one byte before the end (base+size-1)"
	}
	ax, ay, ok := addOperands(hs.X)
	if !ok {
		return "the ranged sub-slice does not end at base+size-1"
	}
	var size ssa.Value
	switch {
	case ax == base || sameConstOrExpr(p, ax, base):
		size = ay
	case ay == base || sameConstOrExpr(p, ay, base):
		size = ax
	default:
		return "the ranged sub-slice does not end at base+size-1"
	}
	if st.Block() != blk.Succs[0] {
		return "the continuation byte is not written in the loop body"
	}
	final := false
	for _, in := range blk.Succs[1].Instrs {
		s2, ok := in.(*ssa.Store)
		if !ok {
			continue
		}
		ia2, ok := s2.Addr.(*ssa.IndexAddr)
		if !ok || ia2.X != ia.X {
			continue
		}
		cv2, ok := s2.Val.(*ssa.Convert)
		if !ok || cv2.X != ssa.Value(tphi) {
			continue
		}
		sb, ok := ia2.Index.(*ssa.BinOp)
		if !ok || sb.Op != token.SUB {
			continue
		}
		if one, isK := constInt(sb.Y); !isK || one != 1 {
			return "the final byte is not stored at base+size-1"
		}
		fx, fy, ok := addOperands(sb.X)
		if ok && ((fy == size && (fx == base || sameConstOrExpr(p, fx, base))) || (fx == size && (fy == base || sameConstOrExpr(p, fy, base)))) {
			final = true
		} else {
			return "the final byte is not stored at base+size-1 of the same size and base"
		}
	}
	if !final {
		return "the final byte byte(t) is not stored at base+size-1 after the loop"
	}
	return ""
}
