package main

import (
	"fmt"
	"go/token"
	"strings"

	"golang.org/x/tools/go/ssa"
)

// guardedBy table (DESIGN.md §2.2), confirmed by reading every access.
type guardEntry struct {
	Lock   string // "Conn.mutex"
	Struct string
	Fields []string
}

var guardTable = []guardEntry{
	{"Conn.mutex", "Conn", []string{"seq", "pending", "streams", "closing", "shutdown"}},
	{"Transport.connsMu", "Transport", []string{"conns", "idleConns", "running"}},
	{"Transport.connsMu", "conns", []string{"Conns", "cursor"}},
	{"Transport.connsMu", "connQueue", []string{"front", "rear", "length"}},
	{"persistConn.mu", "persistConn", []string{"alive"}},
	{"Client.lock", "Client", []string{"targets", "list", "minHeap", "last", "pos", "pending", "seq", "lastTime"}},
	{"stream.mut", "stream", []string{"events"}},
	{"Server.mutex", "Server", []string{"codecs"}},
	{"Server.mut", "Server", []string{"listeners"}},
}

func guardLockOf(st, field string) string {
	for _, g := range guardTable {
		if g.Struct == st {
			for _, f := range g.Fields {
				if f == field {
					return g.Lock
				}
			}
		}
	}
	return ""
}

// siteOf builds a construct key: function name + construct description +
// ordinal among identical constructs in that function (never a line number).
type siteCounter map[string]int

func (sc siteCounter) key(fn *ssa.Function, construct string) string {
	k := fname(fn) + "#" + construct
	sc[k]++
	if sc[k] > 1 {
		return fmt.Sprintf("%s@%d", k, sc[k])
	}
	return k
}

// ruleLock checks that every access to the listed fields happens with the
// guarding lock held (E1). Accesses through an object allocated in the same
// function are exempt (constructors, composite literals).
func ruleLock(c *Check, a *Analysis, rule string, st string, fields ...string) {
	ls := a.Locks()
	sc := siteCounter{}
	for _, f := range fields {
		lock := guardLockOf(st, f)
		if lock == "" {
			c.Undecided(rule, "no guarded-by entry for "+st+"."+f)
			continue
		}
		accs := c.P.fieldAccesses(st, f)
		if len(accs) == 0 {
			c.Undecided(rule, "field "+st+"."+f+" not found in package (renamed?)")
			continue
		}
		for _, ac := range accs {
			if baseIsLocalAlloc(ac.Base) {
				continue
			}
			held := ls.Held(ac.Instr, lock)
			site := sc.key(ac.Fn, ac.Kind+" "+st+"."+f)
			det := ""
			if !held {
				det = fmt.Sprintf("%s of %s.%s in %s without %s held (lockset %s, entry lockset %s)", ac.Kind, st, f, fname(ac.Fn), lock, ls.at[ac.Instr], ls.entry[ac.Fn])
			}
			c.Ob(rule, site, c.P.InstrPos(ac.Instr), held, det)
		}
	}
}

// matchLoadCond builds a condMatch recognising a branch on the boolean field
// st.field (holds = the field is true).
func matchBoolField(st, field string) condMatch {
	return func(cond ssa.Value) (bool, bool) {
		if isLoadOf(cond, st, field) {
			return true, true
		}
		return false, false
	}
}

// matchFieldEq recognises `load(st.field) == k` (holdsOnTrue for ==, false for !=).
func matchFieldEqConst(st, field string, k int64) condMatch {
	return func(cond ssa.Value) (bool, bool) {
		b, ok := cond.(*ssa.BinOp)
		if !ok || (b.Op != token.EQL && b.Op != token.NEQ) {
			return false, false
		}
		x, y := b.X, b.Y
		if _, isC := x.(*ssa.Const); isC {
			x, y = y, x
		}
		if !isLoadOf(x, st, field) {
			return false, false
		}
		if v, ok := constInt(y); !ok || v != k {
			return false, false
		}
		return true, b.Op == token.EQL
	}
}

// isNilCmp recognises `v == nil` / `v != nil` on the given value.
func matchNonNil(v ssa.Value) condMatch {
	return func(cond ssa.Value) (bool, bool) {
		b, ok := cond.(*ssa.BinOp)
		if !ok || (b.Op != token.EQL && b.Op != token.NEQ) {
			return false, false
		}
		x, y := b.X, b.Y
		if c, isC := x.(*ssa.Const); isC && c.Value == nil {
			x, y = y, x
		}
		c, isC := y.(*ssa.Const)
		if !isC || c.Value != nil || x != v {
			return false, false
		}
		return true, b.Op == token.NEQ
	}
}

func describe(v ssa.Value) string {
	if v == nil {
		return "<nil>"
	}
	s := v.String()
	if len(s) > 60 {
		s = s[:60] + "…"
	}
	return strings.ReplaceAll(shortName(s), "\n", " ")
}

// fieldLoadsIn returns the loads of st.field in fn.
func (p *Prog) fieldLoadsIn(fn *ssa.Function, st, field string) []ssa.Instruction {
	var out []ssa.Instruction
	eachInstr(fn, func(in ssa.Instruction) {
		if v, ok := in.(ssa.Value); ok && isLoadOf(v, st, field) {
			out = append(out, in)
		}
	})
	return out
}

// fieldStoresIn returns the stores to st.field in fn.
func (p *Prog) fieldStoresIn(fn *ssa.Function, st, field string) []*ssa.Store {
	var out []*ssa.Store
	eachInstr(fn, func(in ssa.Instruction) {
		if s, ok := in.(*ssa.Store); ok {
			if fr, _, ok := fieldOfAddr(s.Addr); ok && fr.Struct == st && fr.Field == field {
				out = append(out, s)
			}
		}
	})
	return out
}

// invokesIn returns interface-method calls named iface.method in fn
// (iface may be "" to match any interface).
func invokesIn(fn *ssa.Function, iface, method string) []ssa.CallInstruction {
	var out []ssa.CallInstruction
	eachInstr(fn, func(in ssa.Instruction) {
		c, ok := in.(ssa.CallInstruction)
		if !ok || !c.Common().IsInvoke() || c.Common().Method.Name() != method {
			return
		}
		if iface != "" && namedOf(c.Common().Value.Type()) != iface {
			return
		}
		out = append(out, c)
	})
	return out
}
