package main

// Rules added after the second round of independent seeded changes (seeded/C??-C, -D).

import (
	"go/token"
	"go/types"
	"strings"

	"golang.org/x/tools/go/ssa"
)

// derivesFromObject: v is computed from a field of the object obj points to (loads of its
// fields, slices of them, conversions).
func derivesFromObject(p *Prog, v ssa.Value, obj interface{}, depth int) bool {
	if depth == 0 || v == nil {
		return false
	}
	v = p.canon(v)
	switch x := v.(type) {
	case *ssa.UnOp:
		if x.Op == token.MUL {
			if _, base, ok := fieldOfAddr(x.X); ok && p.varKey(base) == obj {
				return true
			}
		}
		return false
	case *ssa.Slice:
		return derivesFromObject(p, x.X, obj, depth-1)
	case *ssa.Convert:
		return derivesFromObject(p, x.X, obj, depth-1)
	case *ssa.ChangeType:
		return derivesFromObject(p, x.X, obj, depth-1)
	case *ssa.MakeInterface:
		return derivesFromObject(p, x.X, obj, depth-1)
	case *ssa.Phi:
		for _, e := range x.Edges {
			if derivesFromObject(p, e, obj, depth-1) {
				return true
			}
		}
	}
	return false
}

// ruleRecycleClean (C01/C11): an object returned to its pool carries nothing of its previous use.
func ruleRecycleClean(c *Check, a *Analysis, rule string) {
	p := c.P
	c.Rule(rule, "where a Call or Context is reset before it goes back to its pool, the value it is reset to contains nothing taken from the object itself (a recycled Call that kept its reply buffer would let the next call's response overwrite bytes the previous caller's reply still points into)", 1)
	sc := siteCounter{}
	n := 0
	for _, fn := range p.Fns {
		rel := a.Releases().sitesIn(fn)
		for _, r := range rel {
			if r.Via != "" || (r.Kind.Name != resCall.Name && r.Kind.Name != resContext.Name) {
				continue
			}
			key := p.varKey(r.Res)
			// an object handed straight to its sync.Pool was reset first (some users take objects
			// from the pool without initialising every field)
			if isCallTo(r.Instr, "(*sync.Pool).Put") {
				reset := false
				for _, st := range storesIn(fn) {
					if p.varKey(st.Addr) == key && p.dominatesInstr(st, r.Instr) {
						reset = true
					}
				}
				// or every field is cleared one by one
				if !reset {
					if pt, isPtr := r.Res.Type().Underlying().(*types.Pointer); isPtr {
						if stt, isSt := pt.Elem().Underlying().(*types.Struct); isSt {
							cleared := 0
							for i := 0; i < stt.NumFields(); i++ {
								for _, st := range storesIn(fn) {
									if fa, isFA := st.Addr.(*ssa.FieldAddr); isFA && fa.Field == i && p.varKey(fa.X) == key && p.dominatesInstr(st, r.Instr) && isZeroValue(st.Val) {
										cleared++
										break
									}
								}
							}
							reset = cleared == stt.NumFields()
						}
					}
				}
				for _, rs := range callsIn(fn, "(*Context).Reset") {
					if p.varKey(rs.Common().Args[0]) == key && p.dominatesInstr(rs.(ssa.Instruction), r.Instr) {
						reset = true
					}
				}
				n++
				c.Ob(rule, sc.key(fn, "reset before Pool.Put"), p.InstrPos(r.Instr), reset, ifs(!reset, "the object goes back to its pool without having been reset: code that takes objects straight from the pool inherits the previous user's buffers and flags"))
			}
			// whole-object stores *obj = … that reach the release
			for _, st := range storesIn(fn) {
				if p.varKey(st.Addr) != key || !p.dominatesInstr(st, r.Instr) {
					continue
				}
				n++
				clean := true
				what := ""
				if _, isConst := st.Val.(*ssa.Const); !isConst {
					// a composite literal: its cell must receive nothing derived from the object
					if ld, ok := st.Val.(*ssa.UnOp); ok && ld.Op == token.MUL {
						if al, ok := ld.X.(*ssa.Alloc); ok {
							for _, fs := range storesIn(fn) {
								if fr, base, ok := fieldOfAddr(fs.Addr); ok && base == ssa.Value(al) {
									if derivesFromObject(p, fs.Val, key, 6) {
										clean = false
										what = fr.String()
									}
								}
							}
						}
					} else if derivesFromObject(p, st.Val, key, 6) {
						clean = false
					}
				}
				// go/ssa writes `*obj = T{F: x}` as a zero store followed by stores into obj's fields
				for _, fs := range storesIn(fn) {
					if fr, base, ok := fieldOfAddr(fs.Addr); ok && p.varKey(base) == key && p.dominatesInstr(st, fs) && p.dominatesInstr(fs, r.Instr) {
						if derivesFromObject(p, fs.Val, key, 6) {
							clean = false
							what = fr.String()
						}
					}
				}
				c.Ob(rule, sc.key(fn, "reset before pooling keeps nothing"), p.InstrPos(st), clean, ifs(!clean, "the object is reset to a value that keeps "+what+" from its previous use and is then returned to the pool: the next user writes into memory the previous user still reads"))
			}
		}
	}
	if n == 0 {
		c.Undecided(rule, "no reset-before-pooling site found")
	}
}

// ruleDoneOwned (C02): completions on a channel the caller owns are never discarded by the library.
func ruleDoneOwned(c *Check, a *Analysis, rule string) {
	p := c.P
	c.Rule(rule, "the library drains a Done channel (ResetDone) only on the channel of the very Call it is returning to the pool; it never drains a channel supplied by a caller (other calls' completions may be waiting on it)", 1)
	sc := siteCounter{}
	n := 0
	for _, fn := range p.Fns {
		for _, cs := range callsIn(fn, "ResetDone") {
			n++
			arg := cs.Common().Args[0]
			ok := false
			// the argument is the Done of an object that this function releases afterwards
			for _, o := range p.origins(arg) {
				if fr, base, isF := fieldOfLoad(p.canon(o)); isF && fr.Struct == "Call" && fr.Field == "Done" {
					for _, r := range a.Releases().sitesIn(fn) {
						if r.Kind.Name == resCall.Name && r.Via == "" && p.varKey(r.Res) == p.varKey(base) && p.canReach(cs.(ssa.Instruction), r.Instr, never) {
							ok = true
						}
					}
					// or the Call object is retired on the spot (*call = Call{}): nobody waits on it any more
					for _, st := range storesIn(fn) {
						if _, isZero := st.Val.(*ssa.Const); isZero && p.varKey(st.Addr) == p.varKey(base) && p.canReach(cs.(ssa.Instruction), st, never) {
							ok = true
						}
					}
				}
			}
			c.Ob(rule, sc.key(fn, "drain only the recycled call's own channel"), p.InstrPos(cs), ok, ifs(!ok, "a Done channel that is not the channel of a Call being returned to the pool is drained: completions of other calls that share the channel are silently discarded (their callers wait forever)"))
		}
	}
	if n == 0 {
		c.Undecided(rule, "no ResetDone call found")
	}
}

// ruleSweepKeepsStreams (C03/C10): the terminal sweep does not empty the stream table before it stops the streams.
func ruleSweepKeepsStreams(c *Check, a *Analysis, rule string) {
	p := c.P
	c.Rule(rule, "in the reader's terminal critical section nothing removes entries from Conn.streams before the loop that stops every registered stream has run", 1)
	n := 0
	sc := siteCounter{}
	for _, m := range p.mapOps("Conn", "streams") {
		if m.Kind != "range" {
			continue
		}
		fn := m.Fn
		stops := callsIn(fn, "(*stream).stop")
		if len(stops) == 0 {
			continue
		}
		n++
		var bad ssa.Instruction
		for _, d := range p.mapOps("Conn", "streams") {
			if (d.Kind == "delete" || d.Kind == "update") && p.sameFn(d.Fn, fn) && p.canReach(d.Instr, m.Instr, never) {
				bad = d.Instr
			}
		}
		for _, s := range p.fieldStoresIn(fn, "Conn", "streams") {
			if p.canReach(s, m.Instr, never) {
				bad = s
			}
		}
		c.Ob(rule, sc.key(fn, "stream table intact until the stop loop"), p.InstrPos(m.Instr), bad == nil, ifs(bad != nil, "the stream table is modified at "+p.At(bad)+" before the loop that stops the registered streams: streams removed there are never stopped and their blocked readers never released"))
	}
	if n == 0 {
		c.Undecided(rule, "no loop stopping the entries of Conn.streams found")
	}
}

// ruleHeaderFresh (C06/C07/C12): header objects and the buffers they are encoded into are per call.
func ruleHeaderFresh(c *Check, a *Analysis, rule string) {
	p := c.P
	c.Rule(rule, "in the client/server codec's read and write functions the header object the Set*/Get* calls work on and the header Codec are created by that very call (NewRequest/NewResponse/NewCodec or a fresh struct), never shared through a field; and the buffer the header is encoded into is not the buffer the body was encoded into", 8)
	sc := siteCounter{}
	for _, name := range []string{"(*clientCodec).WriteRequest", "(*serverCodec).WriteResponse", "(*clientCodec).ReadResponseHeader", "(*serverCodec).ReadRequestHeader"} {
		fn := p.Fn(name)
		if fn == nil {
			c.Undecided(rule, name+" not found")
			continue
		}
		checked := map[ssa.Value]bool{}
		fresh := func(v ssa.Value) (bool, string) {
			for _, o := range p.origins(v) {
				o = p.canon(unwrap(o))
				switch x := o.(type) {
				case *ssa.Call:
					continue // a value produced by a call in this function (NewResponse(), NewCodec(), …)
				case *ssa.Alloc:
					continue
				case *ssa.UnOp:
					if fr, _, ok := fieldOfLoad(x); ok {
						return false, fr.String()
					}
				}
			}
			return true, ""
		}
		eachInstr(fn, func(in ssa.Instruction) {
			cc, ok := in.(*ssa.Call)
			if !ok {
				return
			}
			var obj ssa.Value
			kind := ""
			if cc.Common().IsInvoke() {
				m := cc.Common().Method.Name()
				iface := namedOf(cc.Common().Value.Type())
				if (iface == "Request" || iface == "Response") && (strings.HasPrefix(m, "Set") || strings.HasPrefix(m, "Get") || m == "Reset") {
					obj, kind = cc.Common().Value, "header object"
				}
				if iface == "Codec" && (m == "Marshal" || m == "Unmarshal") && len(cc.Common().Args) == 2 {
					if n := namedOf(unwrap(cc.Common().Args[1]).Type()); n == "Request" || n == "Response" {
						obj, kind = cc.Common().Value, "header codec"
					}
				}
			} else if cal := cc.Common().StaticCallee(); cal != nil && cal.Signature.Recv() != nil {
				if rn := namedOf(cal.Signature.Recv().Type()); rn == "pbRequest" || rn == "pbResponse" {
					obj, kind = cc.Common().Args[0], "header object"
				}
			}
			if obj == nil || checked[p.canon(obj)] {
				return
			}
			checked[p.canon(obj)] = true
			ok2, from := fresh(obj)
			c.Ob(rule, sc.key(fn, kind+" created per call"), p.InstrPos(in), ok2, ifs(!ok2, "the "+kind+" comes from "+from+", shared by every call on this codec: concurrent handlers writing responses (multiplexing) overwrite each other's sequence number, error text and reply"))
		})
	}
	// the header is not encoded over the body
	for _, name := range []string{"(*clientCodec).WriteRequest", "(*serverCodec).WriteResponse"} {
		fn := p.Fn(name)
		if fn == nil {
			continue
		}
		var bodyBufs []ssa.Value
		eachInstr(fn, func(in ssa.Instruction) {
			cc, ok := in.(*ssa.Call)
			if ok && cc.Common().IsInvoke() && cc.Common().Method.Name() == "Marshal" && len(cc.Common().Args) == 2 {
				if n := namedOf(unwrap(cc.Common().Args[1]).Type()); n != "Request" && n != "Response" {
					bodyBufs = append(bodyBufs, p.origins(cc.Common().Args[0])...)
				}
			}
		})
		eachInstr(fn, func(in ssa.Instruction) {
			cc, ok := in.(*ssa.Call)
			if !ok {
				return
			}
			var dst ssa.Value
			if cc.Common().IsInvoke() && cc.Common().Method.Name() == "Marshal" && len(cc.Common().Args) == 2 {
				if n := namedOf(unwrap(cc.Common().Args[1]).Type()); n == "Request" || n == "Response" {
					dst = cc.Common().Args[0]
				}
			}
			if n := calleeName(cc); n == "checkBuffer" {
				dst = cc.Common().Args[0]
			}
			if dst == nil {
				return
			}
			shared := false
			for _, o := range p.origins(dst) {
				for _, b := range bodyBufs {
					if p.canon(o) == p.canon(b) {
						shared = true
					}
				}
			}
			c.Ob(rule, sc.key(fn, "header buffer is not the body buffer"), p.InstrPos(in), !shared, ifs(shared, "the header is encoded into the very buffer that holds the encoded body it refers to: the header bytes overwrite the beginning of the body before it is copied behind them"))
		})
	}
}

// ruleStreamFreshValue (C09/C11): every delivered stream message has its own freshly filled buffer.
func ruleStreamFreshValue(c *Check, a *Analysis, rule string) {
	p := c.P
	c.Rule(rule, "on the client, every delivery of a stream message is dominated by a store of a fresh buffer into the stream call's Value for that message (a message whose copy is skipped would be delivered with the previous message's bytes, and that buffer released twice)", 2)
	fn, _ := readerFn(p)
	if fn == nil {
		c.Undecided(rule, "response reader not found")
		return
	}
	sc := siteCounter{}
	n := 0
	for _, f := range withClosures(fn) {
		for _, d := range callsIn(f, deliveryName(p)) {
			if d.Parent() != f && !p.isPlainHelper(d.Parent()) {
				continue
			}
			n++
			ok := false
			for _, st := range p.fieldStoresIn(f, "Call", "Value") {
				if !p.dominatesInstr(st, d.(ssa.Instruction)) {
					continue
				}
				for _, o := range p.origins(st.Val) {
					if cc, isC := p.canon(o).(*ssa.Call); isC && (calleeName(cc) == "GetBuffer" || strings.HasSuffix(calleeName(cc), ".GetBuffer")) {
						ok = true
					}
					if _, isMk := p.canon(o).(*ssa.MakeSlice); isMk {
						ok = true
					}
				}
			}
			c.Ob(rule, sc.key(f, "fresh Value before delivery"), p.InstrPos(d), ok, ifs(!ok, "a stream message can be delivered without a fresh buffer having been stored into the call's Value on that path: the reader sees the previous message again and its buffer goes back to the pool twice"))
		}
	}
	if n == 0 {
		c.Undecided(rule, "no client-side stream delivery found in the reader")
	}
}

var _ = types.Typ

// ruleCodeThresholds (C06): the single-byte length threshold of the code header is the varint
// boundary on both sides (an error text of exactly 128 bytes must not be written as 0x80).
func ruleCodeThresholds(c *Check, a *Analysis, rule string) {
	p := c.P
	c.Rule(rule, "the code header writes a field's length in one byte exactly for lengths 1..127 and the reader takes one byte exactly then (an error text whose length falls between the two thresholds would be unreadable and its call never completed)", 2)
	for _, st := range []string{"request", "response"} {
		w, r := p.Fn("(*"+st+").Marshal"), p.Fn("(*"+st+").Unmarshal")
		if w == nil || r == nil {
			c.Undecided(rule, st+": Marshal/Unmarshal not found")
			continue
		}
		wth := thresholds(p, w, st, false)
		rth := thresholds(p, r, st, true)
		ok := len(wth) == 2 && len(rth) == 2 && wth[0] == 0 && wth[1] == 127 && rth[0] == 0 && rth[1] == 127
		c.Ob(rule, "(*"+st+")#single-byte length threshold", w.Pos(), ok, ifs(!ok, "writer thresholds "+fmtInts(wth)+", reader thresholds "+fmtInts(rth)+"; the varint format requires [0 127] on both sides"))
	}
}

func fmtInts(v []int64) string {
	s := "["
	for i, x := range v {
		if i > 0 {
			s += " "
		}
		s += itoa(x)
	}
	return s + "]"
}

func itoa(x int64) string {
	if x == 0 {
		return "0"
	}
	neg := x < 0
	if neg {
		x = -x
	}
	b := ""
	for x > 0 {
		b = string(rune('0'+x%10)) + b
		x /= 10
	}
	if neg {
		b = "-" + b
	}
	return b
}

// ruleReplaceSlot (C13/C14): a dead pooled connection is replaced in the very slot it was read from.
func ruleReplaceSlot(c *Check, a *Analysis, rule string) {
	p := c.P
	c.Rule(rule, "in getConn a store into an element of an active list (replacement of a connection found dead) uses the very index value the examined element was loaded with (an index obtained by a second, state-advancing Cursor() call overwrites a live neighbour, which is then neither listed nor closed)", 1)
	gc := p.Fn("(*Transport).getConn")
	if gc == nil {
		c.Undecided(rule, "getConn not found")
		return
	}
	sc := siteCounter{}
	n := 0
	var loads []*ssa.IndexAddr
	eachInstr(gc, func(in ssa.Instruction) {
		if ia, ok := in.(*ssa.IndexAddr); ok && isLoadOf(p.canon(ia.X), "conns", "Conns") && ia.Referrers() != nil {
			for _, r := range *ia.Referrers() {
				if u, ok := r.(*ssa.UnOp); ok && u.Op == token.MUL {
					loads = append(loads, ia)
				}
			}
		}
	})
	eachInstr(gc, func(in ssa.Instruction) {
		st, ok := in.(*ssa.Store)
		if !ok {
			return
		}
		ia, ok := st.Addr.(*ssa.IndexAddr)
		if !ok || !isLoadOf(p.canon(ia.X), "conns", "Conns") {
			return
		}
		n++
		same := false
		for _, l := range loads {
			if p.canon(l.Index) == p.canon(ia.Index) && p.dominatesInstr(l, st) {
				same = true
			}
		}
		c.Ob(rule, sc.key(gc, "replacement goes into the examined slot"), p.InstrPos(st), same, ifs(!same, "the replacement connection is stored at index "+describe(ia.Index)+", which is not the index the dead connection was read from: the dead entry stays in the list and a live one is dropped without being closed"))
	})
	if n == 0 {
		c.Undecided(rule, "getConn does not replace entries of an active list")
	}
}

// ruleNormaliseOrder (C13): the connection limit has its default before the idle limit is clamped to it.
func ruleNormaliseOrder(c *Check, a *Analysis, rule string) {
	p := c.P
	if _, ok := c.rules[rule]; !ok {
		c.Rule(rule, "limits are normalised in the once-initialiser", 1)
	}
	for _, fn := range p.AllFns {
		var clamp ssa.Instruction
		eachInstrLocal(fn, func(in ssa.Instruction) {
			b, ok := in.(*ssa.BinOp)
			if ok && b.Op == token.GTR && isLoadOf(p.canon(b.X), "Transport", "MaxIdleConnsPerHost") && isLoadOf(p.canon(b.Y), "Transport", "MaxConnsPerHost") {
				clamp = in
			}
		})
		if clamp == nil {
			continue
		}
		ok := true
		det := ""
		for _, st := range p.fieldStoresIn(fn, "Transport", "MaxConnsPerHost") {
			if p.canReach(clamp, st, never) || !p.canReach(st, clamp, never) {
				ok = false
				det = "the idle limit is clamped against MaxConnsPerHost at " + p.At(clamp) + " before MaxConnsPerHost has received its default (" + p.At(st) + "): with a non-positive connection limit the idle limit becomes non-positive, retired connections are neither parked nor closed"
			}
		}
		c.Ob(rule, "once#connection limit defaulted before the idle limit is clamped to it", clamp.Pos(), ok, det)
	}
}

// ruleShrinkingBound (C15): a loop that removes an element per iteration does not re-read the container's length as its bound.
func ruleShrinkingBound(c *Check, a *Analysis, rule string) {
	p := c.P
	sc := siteCounter{}
	for _, name := range []string{"(*Transport).run", "(*Transport).CloseIdleConnections", "(*Transport).Close"} {
		fn := p.Fn(name)
		if fn == nil {
			continue
		}
		eachInstr(fn, func(in ssa.Instruction) {
			b, ok := in.(*ssa.BinOp)
			if !ok || b.Op != token.LSS {
				return
			}
			phi, ok := b.X.(*ssa.Phi)
			if !ok {
				return
			}
			inc := false
			for _, e := range phi.Edges {
				if ad, ok := e.(*ssa.BinOp); ok && ad.Op == token.ADD && ad.X == ssa.Value(phi) {
					inc = true
				}
			}
			cc, ok := b.Y.(*ssa.Call)
			if !inc || !ok || cc.Block() != b.Block() {
				return
			}
			if n := calleeName(cc); n != "(*connQueue).Length" && n != "builtin len" {
				return
			}
			// does the loop body remove elements of that container?
			removes := false
			for _, f2 := range []string{"(*connQueue).Dequeue", "(*conns).Delete"} {
				for _, d := range callsIn(fn, f2) {
					if p.canReach(in, d.(ssa.Instruction), never) && p.canReach(d.(ssa.Instruction), in, never) {
						removes = true
					}
				}
			}
			c.Ob(rule, sc.key(fn, "loop bound not re-read while elements are removed"), p.InstrPos(in), !removes, ifs(removes, "the loop counts i upwards against a length it re-reads every iteration while the body removes an element each time: it stops after half of the elements, the rest are dropped from the pool without being closed"))
		})
	}
}

// ruleCursorReset (C17): the rotation cursor is rewound only together with a new live list.
func ruleCursorReset(c *Check, a *Analysis, rule string) {
	p := c.P
	sc := siteCounter{}
	if _, ok := c.rules[rule]; !ok {
		c.Rule(rule, "cursor discipline", 1)
	}
	for _, s := range p.storesToField("Client", "pos") {
		st := s.Instr.(*ssa.Store)
		k, isK := constInt(st.Val)
		if !isK || k != 0 || baseIsLocalAlloc(s.Base) {
			continue
		}
		ok := false
		for _, ls := range p.fieldStoresIn(st.Parent(), "Client", "list") {
			// straight-line: same block, or the list store's block dominates through single-entry blocks only
			b := st.Block()
			for b != nil {
				if b == ls.Block() {
					ok = true
					break
				}
				if len(b.Preds) != 1 {
					break
				}
				b = b.Preds[0]
			}
			// the other order (pos reset first, list stored right after) is as good
			b = ls.Block()
			for b != nil {
				if b == st.Block() {
					ok = true
					break
				}
				if len(b.Preds) != 1 {
					break
				}
				b = b.Preds[0]
			}
		}
		c.Ob(rule, sc.key(s.Fn, "cursor rewound only with a new live list"), p.InstrPos(st), ok, ifs(!ok, "Client.pos is reset to 0 on a path on which Client.list is not replaced: every liveness re-check rewinds the rotation, so consecutive calls (and latency probes) keep hitting the first targets and the tail of the list starves"))
	}
}

// ruleHeapifyStart (C17): heapify sifts every internal node.
func ruleHeapifyStart(c *Check, a *Analysis, rule string) {
	p := c.P
	mh := p.Fn("minHeap")
	if mh == nil {
		return
	}
	if _, ok := c.rules[rule]; !ok {
		c.Rule(rule, "heap construction", 1)
	}
	// the loop variable that is passed to the sift step (or indexes the heap) starts at n/2-1
	found, ok := false, false
	eachInstr(mh, func(in ssa.Instruction) {
		phi, isPhi := in.(*ssa.Phi)
		if !isPhi || len(phi.Edges) != 2 {
			return
		}
		dec := false
		var init ssa.Value
		for _, e := range phi.Edges {
			if b, isB := e.(*ssa.BinOp); isB && b.Op == token.SUB && b.X == ssa.Value(phi) {
				if k, isK := constInt(b.Y); isK && k == 1 {
					dec = true
					continue
				}
			}
			init = e
		}
		if !dec || init == nil {
			return
		}
		found = true
		// accepted forms: n/2 - 1, n>>1 - 1, (n-2)/2, (n-2)>>1
		half := func(v ssa.Value) (ssa.Value, bool) {
			b, isB := v.(*ssa.BinOp)
			if !isB {
				return nil, false
			}
			k, isK := constInt(b.Y)
			if (b.Op == token.QUO && isK && k == 2) || (b.Op == token.SHR && isK && k == 1) {
				return b.X, true
			}
			return nil, false
		}
		isLen := func(v ssa.Value) bool {
			cc, isC := p.canon(v).(*ssa.Call)
			return isC && (calleeName(cc) == "(list).Len" || calleeName(cc) == "builtin len")
		}
		if b, isB := init.(*ssa.BinOp); isB && b.Op == token.SUB {
			if k, isK := constInt(b.Y); isK && k == 1 {
				if x, h := half(b.X); h && isLen(x) {
					ok = true
				}
			}
		}
		if x, h := half(init); h {
			if b, isB := x.(*ssa.BinOp); isB && b.Op == token.SUB && isLen(b.X) {
				if k, isK := constInt(b.Y); isK && k == 2 {
					ok = true
				}
			}
		}
	})
	if !found {
		c.Undecided(rule, "minHeap has no descending loop over the internal nodes")
		return
	}
	c.Ob(rule, "minHeap#sift starts at the last internal node (n/2-1)", mh.Pos(), ok, ifs(!ok, "heapify does not start at index n/2-1: for some sizes the last internal node is never sifted and the root is not the minimum — the least-time pick is not the fastest target"))
}

// rulePendingKeys (C01/C19): the pending table is only ever indexed by the sequence number the call was registered with.
func rulePendingKeys(c *Check, a *Analysis, rule string) {
	p := c.P
	c.Rule(rule, "every key used on Conn.pending originates from the connection's sequence counter read in the registering critical section, from the response header's Context.Seq, from a stream's recorded sequence number, or is the key of a range over the table itself — never from state that another goroutine fills in later", 6)
	sc := siteCounter{}
	for _, m := range p.mapOps("Conn", "pending") {
		if m.Key == nil {
			continue
		}
		ok := true
		why := ""
		for _, o := range p.origins(m.Key) {
			o = p.canon(o)
			switch {
			case isLoadOf(o, "Conn", "seq"), isLoadOf(o, "Context", "Seq"), isLoadOf(o, "stream", "seq"):
			case isRangeKeyOf(o, "Conn", "pending", p):
			default:
				if _, isPrm := o.(*ssa.Parameter); isPrm {
					continue // handed down by a caller that is checked at its own site
				}
				if b, isB := o.(*ssa.BinOp); isB && isLoadOf(p.canon(b.X), "Conn", "seq") {
					continue
				}
				ok = false
				why = describe(o)
			}
		}
		c.Ob(rule, sc.key(m.Fn, "pending["+m.Kind+"] key"), p.InstrPos(m.Instr), ok, ifs(!ok, "Conn.pending is indexed with "+why+": a value that is not (yet) the call's registered sequence number removes or overwrites another call's entry"))
	}
}

func isRangeKeyOf(v ssa.Value, st, field string, p *Prog) bool {
	e, ok := v.(*ssa.Extract)
	if !ok || e.Index != 1 {
		return false
	}
	nx, ok := e.Tuple.(*ssa.Next)
	if !ok {
		return false
	}
	r, ok := nx.Iter.(*ssa.Range)
	return ok && isLoadOf(p.canon(r.X), st, field)
}

// ruleNoRewait (C18): a woken waiter completes; it does not start a second full wait.
func ruleNoRewait(c *Check, a *Analysis, rule string) {
	p := c.P
	if _, ok := c.rules[rule]; !ok {
		c.Rule(rule, "bounded wait", 1)
	}
	dir := p.Fn("(*Client).director")
	if dir == nil {
		return
	}
	// no path from a timer creation / wait registration back to another one, and no self-call
	var waits []ssa.Instruction
	for _, w := range callsIn(dir, "(*Client).wait", "time.NewTimer") {
		waits = append(waits, w.(ssa.Instruction))
	}
	again := false
	for _, w := range waits {
		for _, w2 := range waits {
			if p.canReach(w, w2, never) && isCallTo(w2, "(*Client).wait") && isCallTo(w, "(*Client).wait") {
				again = true
			}
		}
	}
	self := len(callsIn(dir, "(*Client).director")) > 0
	for _, f := range withClosures(dir) {
		if f != dir && len(callsIn(f, "(*Client).director")) > 0 {
			self = true
		}
	}
	okc := !again && !self
	c.Ob(rule, "(*Client).director#one wait per call", dir.Pos(), okc, ifs(!okc, "after its wait a caller can enter a second full wait (director re-enters itself / registers again): a caller released while the targets flap waits a multiple of DialTimeout"))
}

// ruleDeadStaysDead (C18): while rebuilding the live list, a target found not alive is only ever
// re-marked with ErrDial (any other error value would flag it alive without listing it, and
// the detector, which probes only targets flagged dead, would never look at it again).
func ruleDeadStaysDead(c *Check, a *Analysis, rule string) {
	p := c.P
	if _, ok := c.rules[rule]; !ok {
		c.Rule(rule, "alive flag discipline", 1)
	}
	sc := siteCounter{}
	notAlive := negate(func(cond ssa.Value) (bool, bool) {
		if isLoadOf(p.canon(cond), "target", "alive") {
			return true, true
		}
		return false, false
	})
	for _, fn := range p.Fns {
		if recvName(topParent(fn)) != "Client" {
			continue
		}
		for _, up := range callsIn(fn, "(*target).Update") {
			g, _ := p.guardedBy(up.(ssa.Instruction), notAlive)
			if !g {
				continue
			}
			args := up.Common().Args
			ok := isGlobalLoad(p.canon(args[len(args)-1]), "ErrDial")
			c.Ob(rule, sc.key(fn, "not-alive target re-marked with ErrDial only"), p.InstrPos(up), ok, ifs(!ok, "a target found not alive is updated with "+describe(args[len(args)-1])+" instead of ErrDial: when that value is not ErrDial the target is flagged alive without being listed, and is never probed or used again"))
		}
	}
}

// isZeroValue: v is the zero value of its type (nil, 0, "", false).
func isZeroValue(v ssa.Value) bool {
	k, ok := v.(*ssa.Const)
	if !ok {
		return false
	}
	if k.Value == nil {
		return true
	}
	switch k.Value.ExactString() {
	case "0", `""`, "false":
		return true
	}
	return false
}
