package main

// E8 — trace-partitioned abstract interpretation of the server request path
// over the finite space of peer-controlled upgrade flags (2·2·2·4 = 32).
//
// Domain: constants for the four upgrade fields, Nil/NonNil/MaybeNil for
// pointers, ZeroVal/NonZeroVal/MaybeZero for funcs.Value, known/unknown
// booleans and integers. Unknown branch conditions fork the trace; a
// comparison against nil / funcs.ZeroValue refines the compared register and
// the heap location it was loaded from. The region is loop-free; a loop makes
// the result "undecided" (which fails the check). No solver is involved.

import (
	"fmt"
	"go/token"
	"go/types"
	"sort"
	"strings"

	"golang.org/x/tools/go/ssa"
)

type akind int

const (
	kUnknown akind = iota
	kInt
	kBool
	kNil
	kNonNil
	kMaybeNil
	kZeroVal
	kNonZeroVal
	kMaybeZero
	kPtr  // pointer to a tracked object
	kAddr // address of a field of a tracked object
	kTuple
	kClosure
	kStrEmpty
	kStrNonEmpty
	kStruct // a struct value (copied on load/store); obj holds its fields
)

type loc struct {
	obj   *aobj
	field string
}

type cmpInfo struct {
	op   token.Token
	x, y ssa.Value
	xv   aval
	yv   aval
}

type aval struct {
	k     akind
	n     int64
	b     bool
	obj   *aobj
	field string
	tup   []aval
	fn    *ssa.Function
	binds []aval
	src   *loc     // heap location this value was loaded from
	cmp   *cmpInfo // for unknown booleans produced by a comparison
}

type aobj struct {
	id     int
	name   string
	fields map[string]aval
	zero   bool // unset fields read as the zero value of their type
}

type astate struct {
	objs  map[int]*aobj
	memo  map[string]bool
	trace []string
}

func (s *astate) clone() (*astate, map[*aobj]*aobj) {
	n := &astate{objs: map[int]*aobj{}, memo: map[string]bool{}, trace: append([]string{}, s.trace...)}
	m := map[*aobj]*aobj{}
	for id, o := range s.objs {
		c := &aobj{id: o.id, name: o.name, fields: map[string]aval{}, zero: o.zero}
		n.objs[id] = c
		m[o] = c
	}
	fix := func(v aval) aval { return remap(v, m) }
	for id, o := range s.objs {
		for f, v := range o.fields {
			n.objs[id].fields[f] = fix(v)
		}
	}
	for k, v := range s.memo {
		n.memo[k] = v
	}
	return n, m
}

func remap(v aval, m map[*aobj]*aobj) aval {
	if v.obj != nil {
		if c, ok := m[v.obj]; ok {
			v.obj = c
		}
	}
	if v.src != nil {
		if c, ok := m[v.src.obj]; ok {
			v.src = &loc{c, v.src.field}
		}
	}
	if v.tup != nil {
		t := make([]aval, len(v.tup))
		for i := range v.tup {
			t[i] = remap(v.tup[i], m)
		}
		v.tup = t
	}
	if v.binds != nil {
		t := make([]aval, len(v.binds))
		for i := range v.binds {
			t[i] = remap(v.binds[i], m)
		}
		v.binds = t
	}
	if v.cmp != nil {
		c := *v.cmp
		c.xv = remap(c.xv, m)
		c.yv = remap(c.yv, m)
		v.cmp = &c
	}
	return v
}

type frame struct {
	fn   *ssa.Function
	env  map[ssa.Value]aval
	prev *ssa.BasicBlock
	path map[*ssa.BasicBlock]bool
}

func (f *frame) clone(m map[*aobj]*aobj) *frame {
	n := &frame{fn: f.fn, env: map[ssa.Value]aval{}, prev: f.prev, path: map[*ssa.BasicBlock]bool{}}
	for k, v := range f.env {
		n.env[k] = remap(v, m)
	}
	for k, v := range f.path {
		n.path[k] = v
	}
	return n
}

type flagViolation struct {
	flag   byte
	instr  ssa.Instruction
	what   string
	trace  []string
	method string
}

type flagInterp struct {
	p       *Prog
	region  map[*ssa.Function]bool
	nextID  int
	viol    map[string]flagViolation
	undec   map[string]bool
	traces  int
	steps   int
	checked map[string]int // obligation key -> number of evaluations
	flag    byte
	budget  int
	depth   int
	// streamElem is the abstract element of the per-connection stream table
	// (table-element invariant: met over all store sites in the region)
	streamElem *aobj
}

func (it *flagInterp) newObj(st *astate, name string, zero bool) *aobj {
	it.nextID++
	o := &aobj{id: it.nextID, name: name, fields: map[string]aval{}, zero: zero}
	st.objs[o.id] = o
	return o
}

func isFuncsValue(t types.Type) bool {
	n, ok := t.(*types.Named)
	return ok && n.Obj().Name() == "Value" && n.Obj().Pkg() != nil && strings.HasSuffix(n.Obj().Pkg().Path(), "hslam/funcs")
}

// zeroOf: the abstract zero value of a type.
func zeroOf(t types.Type) aval {
	if isFuncsValue(t) {
		return aval{k: kZeroVal}
	}
	switch u := t.Underlying().(type) {
	case *types.Pointer, *types.Interface, *types.Map, *types.Chan, *types.Signature, *types.Slice:
		return aval{k: kNil}
	case *types.Basic:
		if u.Info()&types.IsString != 0 {
			return aval{k: kStrEmpty}
		}
		if u.Info()&types.IsBoolean != 0 {
			return aval{k: kBool}
		}
		if u.Info()&types.IsInteger != 0 {
			return aval{k: kInt}
		}
	}
	return aval{k: kUnknown}
}

func fieldTypeOf(t types.Type, name string) types.Type {
	if p, ok := t.Underlying().(*types.Pointer); ok {
		t = p.Elem()
	}
	if s, ok := t.Underlying().(*types.Struct); ok {
		for i := 0; i < s.NumFields(); i++ {
			if s.Field(i).Name() == name || canonFieldName(namedOf(t), s.Field(i).Name()) == name {
				return s.Field(i).Type()
			}
		}
	}
	return nil
}

func (it *flagInterp) load(o *aobj, field string, t types.Type) aval {
	if v, ok := o.fields[field]; ok {
		v.src = &loc{o, field}
		return v
	}
	if o.zero && t != nil {
		v := zeroOf(t)
		v.src = &loc{o, field}
		return v
	}
	return aval{k: kUnknown, src: &loc{o, field}}
}

func (it *flagInterp) violate(in ssa.Instruction, what string, st *astate) {
	key := fmt.Sprintf("%s|%s", it.p.At(in), what)
	if _, ok := it.viol[key]; ok {
		return
	}
	it.viol[key] = flagViolation{flag: it.flag, instr: in, what: what, trace: append([]string{}, st.trace...)}
}

func (it *flagInterp) oblige(in ssa.Instruction, what string) {
	it.checked[fmt.Sprintf("%s#%s", fname(in.Parent()), what)]++
}

func mayBeNil(v aval) bool  { return v.k == kNil || v.k == kMaybeNil }
func mayBeZero(v aval) bool { return v.k == kZeroVal || v.k == kMaybeZero }

// eval returns the abstract value of an SSA operand.
func (it *flagInterp) eval(fr *frame, st *astate, v ssa.Value) aval {
	switch x := v.(type) {
	case *ssa.Const:
		if x.Value == nil {
			if isFuncsValue(x.Type()) {
				return aval{k: kZeroVal}
			}
			switch x.Type().Underlying().(type) {
			case *types.Struct:
				return aval{k: kUnknown}
			}
			return aval{k: kNil}
		}
		switch x.Value.Kind().String() {
		case "Bool":
			return aval{k: kBool, b: constStr(x) == "true"}
		case "Int":
			return aval{k: kInt, n: x.Int64()}
		case "String":
			if constStr(x) == `""` {
				return aval{k: kStrEmpty}
			}
			return aval{k: kStrNonEmpty}
		}
		return aval{k: kUnknown}
	case *ssa.Global:
		return aval{k: kNonNil}
	case *ssa.Function:
		return aval{k: kClosure, fn: x}
	case *ssa.Builtin:
		return aval{k: kNonNil}
	}
	if a, ok := fr.env[v]; ok {
		return a
	}
	return aval{k: kUnknown}
}

type cont func(ret []aval, st *astate)

// run interprets fn on the given arguments and calls k for every path end.
func (it *flagInterp) run(fn *ssa.Function, args []aval, binds []aval, st *astate, k cont) {
	if it.depth > 40 {
		it.undec["call depth exceeded in "+fname(fn)] = true
		return
	}
	it.depth++
	defer func() { it.depth-- }()
	fr := &frame{fn: fn, env: map[ssa.Value]aval{}, path: map[*ssa.BasicBlock]bool{}}
	for i, p := range fn.Params {
		if i < len(args) {
			fr.env[p] = args[i]
		}
	}
	for i, fv := range fn.FreeVars {
		if i < len(binds) {
			fr.env[fv] = binds[i]
		}
	}
	it.block(fr, fn.Blocks[0], 0, st, k)
}

func (it *flagInterp) block(fr *frame, b *ssa.BasicBlock, idx int, st *astate, k cont) {
	if idx == 0 {
		if fr.path[b] {
			it.undec["loop in region function "+fname(fr.fn)] = true
			return
		}
		fr.path[b] = true
		// phis
		pi := -1
		for i, p := range b.Preds {
			if p == fr.prev {
				pi = i
			}
		}
		vals := map[ssa.Value]aval{}
		for _, in := range b.Instrs {
			phi, ok := in.(*ssa.Phi)
			if !ok {
				break
			}
			if pi >= 0 {
				vals[phi] = it.eval(fr, st, phi.Edges[pi])
			}
		}
		for v, a := range vals {
			fr.env[v] = a
		}
	}
	for i := idx; i < len(b.Instrs); i++ {
		it.steps++
		if it.steps > it.budget {
			it.undec["step budget exceeded"] = true
			return
		}
		in := b.Instrs[i]
		switch x := in.(type) {
		case *ssa.Phi, *ssa.DebugRef:
			continue
		case *ssa.If:
			cv := it.eval(fr, st, x.Cond)
			if cv.k == kBool {
				nb := b.Succs[1]
				if cv.b {
					nb = b.Succs[0]
				}
				fr.prev = b
				it.block(fr, nb, 0, st, k)
				return
			}
			// fork
			for bi, outcome := range []bool{true, false} {
				st2, m := st.clone()
				fr2 := fr.clone(m)
				st2.trace = append(st2.trace, fmt.Sprintf("%s:%v", it.p.At(in), outcome))
				it.refine(fr2, st2, remap(cv, m), outcome)
				fr2.prev = b
				it.traces++
				it.block(fr2, b.Succs[bi], 0, st2, k)
			}
			return
		case *ssa.Jump:
			fr.prev = b
			it.block(fr, b.Succs[0], 0, st, k)
			return
		case *ssa.Return:
			var rs []aval
			for _, r := range x.Results {
				rs = append(rs, it.eval(fr, st, r))
			}
			k(rs, st)
			return
		case *ssa.Panic:
			return
		case *ssa.RunDefers, *ssa.Defer:
			continue
		case *ssa.Go:
			it.spawn(fr, st, x.Common(), in)
			continue
		case *ssa.Call:
			// calls may fork: continue in the continuation
			rest := func(ret []aval, st2 *astate, fr2 *frame) {
				if v := x.Value(); v != nil {
					if len(ret) == 1 {
						fr2.env[x] = ret[0]
					} else if len(ret) > 1 {
						fr2.env[x] = aval{k: kTuple, tup: ret}
					} else {
						fr2.env[x] = aval{k: kUnknown}
					}
				}
				it.block(fr2, b, i+1, st2, k)
			}
			if it.call(fr, st, x, in, rest) {
				return
			}
			continue
		case *ssa.Lookup:
			if x.CommaOk && isStreamTable(it.p, x.X) && it.streamElem != nil {
				for _, hit := range []bool{true, false} {
					st2, m := st.clone()
					fr2 := fr.clone(m)
					st2.trace = append(st2.trace, fmt.Sprintf("%s:stream-table-hit=%v", it.p.At(in), hit))
					val := aval{k: kNil}
					if hit {
						val = aval{k: kPtr, obj: st2.objs[it.streamElem.id]}
					}
					fr2.env[x] = aval{k: kTuple, tup: []aval{val, {k: kBool, b: hit}}}
					it.traces++
					it.block(fr2, b, i+1, st2, k)
				}
				return
			}
			fr.env[x] = it.instr(fr, st, in)
		default:
			if v, ok := in.(ssa.Value); ok {
				fr.env[v] = it.instr(fr, st, in)
			} else {
				it.effect(fr, st, in)
			}
		}
	}
}

// refine applies the outcome of an unknown condition.
func (it *flagInterp) refine(fr *frame, st *astate, cv aval, outcome bool) {
	if cv.src != nil {
		cv.src.obj.fields[cv.src.field] = aval{k: kBool, b: outcome}
	}
	if cv.cmp == nil {
		return
	}
	c := cv.cmp
	eq := (c.op == token.EQL) == outcome
	set := func(reg ssa.Value, old aval, nv aval) {
		nv.src = old.src
		if reg != nil {
			if _, isConst := reg.(*ssa.Const); !isConst {
				fr.env[reg] = nv
			}
		}
		if old.src != nil {
			cur := old.src.obj.fields[old.src.field]
			if cur.k == old.k || cur.k == kUnknown {
				old.src.obj.fields[old.src.field] = nv
			}
		}
	}
	one := func(reg ssa.Value, v, other aval) {
		switch {
		case other.k == kNil && (v.k == kMaybeNil || v.k == kUnknown):
			if eq {
				set(reg, v, aval{k: kNil})
			} else {
				set(reg, v, aval{k: kNonNil})
			}
		case other.k == kZeroVal && (v.k == kMaybeZero || v.k == kUnknown):
			if eq {
				set(reg, v, aval{k: kZeroVal})
			} else {
				set(reg, v, aval{k: kNonZeroVal})
			}
		case other.k == kInt && v.k == kUnknown && eq:
			set(reg, v, aval{k: kInt, n: other.n})
		}
	}
	one(c.x, c.xv, c.yv)
	one(c.y, c.yv, c.xv)
}

func (it *flagInterp) effect(fr *frame, st *astate, in ssa.Instruction) {
	switch x := in.(type) {
	case *ssa.Store:
		addr := it.eval(fr, st, x.Addr)
		val := it.eval(fr, st, x.Val)
		val.src = nil
		switch addr.k {
		case kAddr:
			addr.obj.fields[addr.field] = val
		case kPtr:
			if c, ok := x.Val.(*ssa.Const); ok && c.Value == nil {
				// *p = T{} : reset
				addr.obj.fields = map[string]aval{}
				addr.obj.zero = true
			} else if val.k == kStruct && val.obj != nil {
				// *p = structValue : copy the fields
				addr.obj.fields = map[string]aval{}
				for k, v := range val.obj.fields {
					addr.obj.fields[k] = v
				}
				addr.obj.zero = val.obj.zero
			} else {
				addr.obj.fields["$"] = val
			}
		case kNil, kMaybeNil:
			it.violate(in, "store through a nil pointer", st)
		}
	case *ssa.MapUpdate, *ssa.Send:
	}
}

func (it *flagInterp) instr(fr *frame, st *astate, in ssa.Instruction) aval {
	switch x := in.(type) {
	case *ssa.Alloc:
		o := it.newObj(st, x.Comment, true)
		return aval{k: kPtr, obj: o}
	case *ssa.FieldAddr:
		base := it.eval(fr, st, x.X)
		fr2, _, _ := fieldOfAddr(x)
		it.oblige(in, "deref "+fr2.String())
		switch base.k {
		case kPtr:
			return aval{k: kAddr, obj: base.obj, field: fr2.Field}
		case kNil, kMaybeNil:
			it.violate(in, "nil pointer dereference: field "+fr2.String()+" of a nil "+fr2.Struct, st)
		}
		return aval{k: kUnknown}
	case *ssa.IndexAddr:
		base := it.eval(fr, st, x.X)
		if base.k == kPtr {
			if k, ok := constInt(x.Index); ok {
				return aval{k: kAddr, obj: base.obj, field: fmt.Sprint(k)}
			}
		}
		return aval{k: kUnknown}
	case *ssa.Slice:
		base := it.eval(fr, st, x.X)
		if base.k == kPtr {
			return base
		}
		return aval{k: kUnknown}
	case *ssa.UnOp:
		switch x.Op {
		case token.MUL:
			if g, ok := x.X.(*ssa.Global); ok {
				if g.Name() == "ZeroValue" && isFuncsValue(x.Type()) {
					return aval{k: kZeroVal}
				}
				if _, isPtr := x.Type().Underlying().(*types.Pointer); isPtr {
					return aval{k: kNonNil}
				}
				return aval{k: kUnknown}
			}
			a := it.eval(fr, st, x.X)
			switch a.k {
			case kAddr:
				t := fieldTypeOfObj(x)
				return it.load(a.obj, a.field, t)
			case kPtr:
				if _, isStruct := x.Type().Underlying().(*types.Struct); isStruct && !isFuncsValue(x.Type()) {
					// a struct value: a private copy of the object's fields
					snap := it.newObj(st, a.obj.name+"(value)", a.obj.zero)
					for k, v := range a.obj.fields {
						snap.fields[k] = v
					}
					return aval{k: kStruct, obj: snap}
				}
				return it.load(a.obj, "$", x.Type())
			case kNil, kMaybeNil:
				it.violate(in, "load through a nil pointer", st)
			}
			return aval{k: kUnknown}
		case token.NOT:
			a := it.eval(fr, st, x.X)
			if a.k == kBool {
				return aval{k: kBool, b: !a.b}
			}
			if a.cmp != nil {
				c := *a.cmp
				if c.op == token.EQL {
					c.op = token.NEQ
				} else {
					c.op = token.EQL
				}
				return aval{k: kUnknown, cmp: &c}
			}
			return aval{k: kUnknown}
		}
		return aval{k: kUnknown}
	case *ssa.BinOp:
		return it.binop(fr, st, x)
	case *ssa.Phi:
		return aval{k: kUnknown}
	case *ssa.ChangeType:
		return it.eval(fr, st, x.X)
	case *ssa.Convert:
		return it.eval(fr, st, x.X)
	case *ssa.MakeInterface:
		a := it.eval(fr, st, x.X)
		if a.k == kUnknown {
			return aval{k: kNonNil}
		}
		return a
	case *ssa.ChangeInterface:
		return it.eval(fr, st, x.X)
	case *ssa.TypeAssert:
		a := it.eval(fr, st, x.X)
		a.src = nil
		if x.CommaOk {
			return aval{k: kTuple, tup: []aval{a, {k: kUnknown}}}
		}
		if a.k == kUnknown {
			return aval{k: kNonNil}
		}
		return a
	case *ssa.Extract:
		t := it.eval(fr, st, x.Tuple)
		if t.k == kTuple && x.Index < len(t.tup) {
			return t.tup[x.Index]
		}
		return aval{k: kUnknown}
	case *ssa.MakeClosure:
		var bs []aval
		for _, b := range x.Bindings {
			bs = append(bs, it.eval(fr, st, b))
		}
		return aval{k: kClosure, fn: x.Fn.(*ssa.Function), binds: bs}
	case *ssa.Lookup:
		if x.CommaOk {
			// decided by the caller (forks); see call/block handling below
			return aval{k: kTuple, tup: []aval{{k: kMaybeNil}, {k: kUnknown}}}
		}
		if _, isPtr := x.Type().Underlying().(*types.Pointer); isPtr {
			return aval{k: kMaybeNil}
		}
		return aval{k: kUnknown}
	case *ssa.MakeMap, *ssa.MakeChan, *ssa.MakeSlice:
		return aval{k: kNonNil}
	case *ssa.Field:
		base := it.eval(fr, st, x.X)
		if base.k == kStruct && base.obj != nil {
			if st2, ok := x.X.Type().Underlying().(*types.Struct); ok && x.Field < st2.NumFields() {
				v := it.load(base.obj, canonFieldName(namedOf(x.X.Type()), st2.Field(x.Field).Name()), x.Type())
				v.src = nil
				return v
			}
		}
		return aval{k: kUnknown}
	}
	return aval{k: kUnknown}
}

func fieldTypeOfObj(x *ssa.UnOp) types.Type { return x.Type() }

func (it *flagInterp) binop(fr *frame, st *astate, x *ssa.BinOp) aval {
	a, b := it.eval(fr, st, x.X), it.eval(fr, st, x.Y)
	nilish := func(v aval) (isNil, known bool) {
		switch v.k {
		case kNil:
			return true, true
		case kNonNil, kPtr, kAddr, kClosure:
			return false, true
		}
		return false, false
	}
	zeroish := func(v aval) (isZero, known bool) {
		switch v.k {
		case kZeroVal:
			return true, true
		case kNonZeroVal:
			return false, true
		}
		return false, false
	}
	switch x.Op {
	case token.EQL, token.NEQ:
		res := func(eq bool) aval { return aval{k: kBool, b: eq == (x.Op == token.EQL)} }
		if a.k == kInt && b.k == kInt {
			return res(a.n == b.n)
		}
		if a.k == kBool && b.k == kBool {
			return res(a.b == b.b)
		}
		an, ak := nilish(a)
		bn, bk := nilish(b)
		if ak && bk && (an || bn) {
			return res(an == bn)
		}
		az, azk := zeroish(a)
		bz, bzk := zeroish(b)
		if azk && bzk && (az || bz) {
			return res(az == bz)
		}
		return aval{k: kUnknown, cmp: &cmpInfo{x.Op, x.X, x.Y, a, b}}
	case token.LSS, token.GTR, token.LEQ, token.GEQ:
		if a.k == kInt && b.k == kInt {
			var r bool
			switch x.Op {
			case token.LSS:
				r = a.n < b.n
			case token.GTR:
				r = a.n > b.n
			case token.LEQ:
				r = a.n <= b.n
			case token.GEQ:
				r = a.n >= b.n
			}
			return aval{k: kBool, b: r}
		}
		return aval{k: kUnknown}
	case token.ADD, token.SUB, token.MUL, token.AND, token.OR, token.SHL, token.SHR:
		if x.Op == token.ADD && (a.k == kStrNonEmpty || b.k == kStrNonEmpty) {
			return aval{k: kStrNonEmpty}
		}
		if a.k == kInt && b.k == kInt {
			switch x.Op {
			case token.ADD:
				return aval{k: kInt, n: a.n + b.n}
			case token.SUB:
				return aval{k: kInt, n: a.n - b.n}
			case token.AND:
				return aval{k: kInt, n: a.n & b.n}
			case token.OR:
				return aval{k: kInt, n: a.n | b.n}
			}
		}
	}
	return aval{k: kUnknown}
}

// spawn interprets a closure handed to go / Schedule on a copy of the state.
func (it *flagInterp) spawn(fr *frame, st *astate, cc *ssa.CallCommon, in ssa.Instruction) {
	var target aval
	var args []aval
	if cc.IsInvoke() || strings.HasSuffix(calleeNameCommon(cc), ".Schedule") {
		if len(cc.Args) == 0 {
			return
		}
		target = it.eval(fr, st, cc.Args[len(cc.Args)-1])
	} else {
		target = it.eval(fr, st, cc.Value)
		for _, a := range cc.Args {
			args = append(args, it.eval(fr, st, a))
		}
	}
	if target.k != kClosure || target.fn == nil || target.fn.Blocks == nil {
		return
	}
	st2, m := st.clone()
	st2.trace = append(st2.trace, "spawn "+fname(target.fn))
	t := remap(target, m)
	var a2 []aval
	for _, a := range args {
		a2 = append(a2, remap(a, m))
	}
	it.run(t.fn, a2, t.binds, st2, func([]aval, *astate) {})
}

func calleeNameCommon(cc *ssa.CallCommon) string {
	if cc.IsInvoke() {
		return "invoke " + namedOf(cc.Value.Type()) + "." + cc.Method.Name()
	}
	switch v := cc.Value.(type) {
	case *ssa.Builtin:
		return "builtin " + v.Name()
	case *ssa.Function:
		return fname(v)
	case *ssa.MakeClosure:
		return fname(v.Fn.(*ssa.Function))
	}
	return "dynamic"
}

// call handles a call instruction. It returns true when the continuation has
// been taken over (the rest of the block was executed through `rest`).
func (it *flagInterp) call(fr *frame, st *astate, x *ssa.Call, in ssa.Instruction, rest func([]aval, *astate, *frame)) bool {
	cc := x.Common()
	name := calleeNameCommon(cc)
	var args []aval
	for _, a := range cc.Args {
		args = append(args, it.eval(fr, st, a))
	}
	set := func(v aval) {
		if x.Value() != nil {
			fr.env[x] = v
		}
	}
	needRecv := func(what string) {
		it.oblige(in, what)
		if len(args) > 0 && mayBeNil(args[0]) {
			it.violate(in, what+": receiver is nil", st)
		}
	}
	switch {
	case strings.HasSuffix(name, ".Schedule"):
		it.spawn(fr, st, cc, in)
		set(aval{k: kUnknown})
		return false
	case name == "(*funcs.Funcs).GetFunc":
		set(aval{k: kMaybeNil})
		return false
	case name == "(*funcs.Func).GetValueIn":
		needRecv("(*funcs.Func).GetValueIn")
		set(aval{k: kMaybeZero})
		return false
	case name == "(*funcs.Func).WithContext", name == "(*funcs.Func).ReturnOut":
		needRecv(name)
		if v, ok := st.memo[name]; ok {
			set(aval{k: kBool, b: v})
			return false
		}
		// fork on the predicate once per trace
		for _, outcome := range []bool{true, false} {
			st2, m := st.clone()
			fr2 := fr.clone(m)
			st2.memo[name] = outcome
			st2.trace = append(st2.trace, fmt.Sprintf("%s=%v", strings.TrimPrefix(name, "(*funcs.Func)."), outcome))
			it.traces++
			rest([]aval{{k: kBool, b: outcome}}, st2, fr2)
		}
		return true
	case name == "(*funcs.Func).ValueCall":
		needRecv("(*funcs.Func).ValueCall receiver")
		it.oblige(in, "ValueCall arguments non-zero")
		if len(args) > 1 && args[len(args)-1].k == kPtr {
			o := args[len(args)-1].obj
			var keys []string
			for f := range o.fields {
				keys = append(keys, f)
			}
			sort.Strings(keys)
			for _, f := range keys {
				if mayBeZero(o.fields[f]) {
					it.violate(in, "handler invoked with a zero funcs.Value argument (reflect: Call using zero Value argument)", st)
				}
			}
		}
		ret := aval{k: kZeroVal}
		if v, ok := st.memo["(*funcs.Func).ReturnOut"]; ok && v {
			ret = aval{k: kNonZeroVal}
		} else if !ok {
			ret = aval{k: kMaybeZero}
		}
		set(aval{k: kTuple, tup: []aval{ret, {k: kUnknown}}})
		return false
	case name == "funcs.ValueOf":
		set(aval{k: kNonZeroVal})
		return false
	case name == "(funcs.Value).Interface":
		it.oblige(in, "(funcs.Value).Interface on non-zero Value")
		if len(args) > 0 && mayBeZero(args[0]) {
			it.violate(in, "Interface() of a zero funcs.Value (reflect: call of reflect.Value.Interface on zero Value)", st)
		}
		set(aval{k: kUnknown})
		return false
	case name == "errors.New":
		// remember whether the text is known to be non-empty
		set(aval{k: kNonNil, b: len(args) > 0 && args[0].k == kStrNonEmpty})
		return false
	case name == "invoke error.Error":
		if recv := it.eval(fr, st, cc.Value); recv.k == kNonNil && recv.b {
			set(aval{k: kStrNonEmpty})
		} else {
			set(aval{k: kUnknown})
		}
		return false
	case name == "builtin len":
		switch {
		case len(args) == 1 && args[0].k == kStrEmpty:
			set(aval{k: kInt, n: 0})
		case len(args) == 1 && args[0].k == kStrNonEmpty:
			set(aval{k: kInt, n: 1}) // abstract: some positive length
		default:
			set(aval{k: kUnknown})
		}
		return false
	case strings.HasPrefix(name, "fmt.Errorf"), strings.HasPrefix(name, "context."):
		set(aval{k: kNonNil})
		return false
	case name == "(*sync.Pool).Get":
		set(aval{k: kNonNil})
		return false
	case name == "(*stream).Close", name == "(*stream).stop", name == "(*stream).trigger", name == "(*sync.WaitGroup).Add", name == "(*sync.WaitGroup).Done", name == "(*upgrade).Reset":
		needRecv(name)
		set(aval{k: kUnknown})
		return false
	case name == "(*upgrade).Unmarshal":
		// the flag constants of this run already are the result of Unmarshal
		set(aval{k: kTuple, tup: []aval{{k: kUnknown}, {k: kNil}}})
		return false
	case name == "invoke ServerCodec.ReadRequestHeader":
		// header fields become peer-controlled unknowns (flags stay as enumerated)
		set(aval{k: kUnknown})
		return false
	}
	// static callee inside the region: interpret
	if cal := cc.StaticCallee(); cal != nil && it.region[cal] {
		it.run(cal, args, nil, st, func(ret []aval, st2 *astate) {
			// continue the caller on the callee's end state; the caller frame is
			// shared along this path (paths never join)
			fr2 := fr
			if st2 != st {
				// the callee forked: rebuild the frame against the cloned objects
				m := map[*aobj]*aobj{}
				for id, o := range st.objs {
					if c, ok := st2.objs[id]; ok && c != o {
						m[o] = c
					}
				}
				fr2 = fr.clone(m)
			}
			rest(ret, st2, fr2)
		})
		return true
	}
	// closure value called on the spot
	if cv := it.eval(fr, st, cc.Value); !cc.IsInvoke() && cv.k == kClosure && cv.fn != nil && cv.fn.Blocks != nil && it.region[topParent(cv.fn)] {
		it.run(cv.fn, args, cv.binds, st, func(ret []aval, st2 *astate) {
			fr2 := fr
			if st2 != st {
				m := map[*aobj]*aobj{}
				for id, o := range st.objs {
					if c, ok := st2.objs[id]; ok && c != o {
						m[o] = c
					}
				}
				fr2 = fr.clone(m)
			}
			rest(ret, st2, fr2)
		})
		return true
	}
	// unknown callee
	if x.Value() != nil {
		if tup, ok := x.Type().(*types.Tuple); ok {
			ts := make([]aval, tup.Len())
			set(aval{k: kTuple, tup: ts})
		} else {
			set(aval{k: kUnknown})
		}
	}
	return false
}

// runFlagSpace is rule R-PANIC-FLAGS.
func runFlagSpace(c *Check, a *Analysis) {
	p := c.P
	c.Rule("R-PANIC-FLAGS", "for every value of the peer-controlled upgrade flags (all 32) and every outcome of the unknown tests, no trace of the server request path reaches a nil *funcs.Func / nil stream dereference, Interface() of a zero funcs.Value, or a handler call with a zero Value argument", 32)
	c.Rule("R-FLAGS-ENTRY", "at every in-package call of ServeRequest the context's upgrade and codec have been assigned (entry assumptions of the flag-space interpretation)", 2)
	sr := p.Fn("(*Server).ServeRequest")
	if sr == nil {
		c.Undecided("R-PANIC-FLAGS", "(*Server).ServeRequest not found")
		return
	}
	// entry assumptions
	for _, call := range p.Callers(sr) {
		fn := call.Parent()
		top := fn
		okU, okC := false, false
		family := withClosures(topParent(top))
		// the call sits in a plain helper (the loop tail moved out): the context was
		// prepared by the function the helper is in-line code of
		if p.isPlainHelper(topParent(top)) {
			for h := range p.homes(topParent(top)) {
				if h != topParent(top) {
					family = append(family, withClosures(topParent(h))...)
				}
			}
		}
		// the context may come from a helper that prepares it (extract-function refactoring)
		var ctxArg ssa.Value
		for i, prm := range sr.Params {
			if pointeeName(prm) == "Context" && i < len(call.Common().Args) {
				ctxArg = call.Common().Args[i]
			}
		}
		if ctxArg != nil {
			for _, o := range p.varOrigins(ctxArg) {
				if cc, ok := p.canon(o).(*ssa.Call); ok {
					if cal := cc.Common().StaticCallee(); cal != nil && cal.Pkg == p.RPC && cal.Blocks != nil {
						if len(p.fieldStoresIn(cal, "Context", "upgrade")) > 0 {
							okU = true
						}
						if len(p.fieldStoresIn(cal, "Context", "codec")) > 0 {
							okC = true
						}
					}
				}
			}
		}
		for _, f := range family {
			for _, s := range p.fieldStoresIn(f, "Context", "upgrade") {
				if f != fn || p.dominatesInstr(s, call) {
					okU = true
				}
			}
			for _, s := range p.fieldStoresIn(f, "Context", "codec") {
				if f != fn || p.dominatesInstr(s, call) {
					okC = true
				}
			}
		}
		c.Ob("R-FLAGS-ENTRY", fname(fn)+"#ctx.upgrade,ctx.codec set before ServeRequest", p.InstrPos(call), okU && okC, ifs(!(okU && okC), "ServeRequest called with a context whose upgrade/codec was not assigned"))
	}
	// region: package functions reachable from ServeRequest by static calls and closures
	region := map[*ssa.Function]bool{}
	var add func(f *ssa.Function)
	add = func(f *ssa.Function) {
		if f == nil || region[f] || f.Pkg != p.RPC || f.Blocks == nil {
			return
		}
		switch fname(f) {
		case "(*stream).Close", "(*stream).stop", "(*stream).trigger", "(*upgrade).Reset", "(*upgrade).Unmarshal", "(*Context).Reset", "GetBuffer", "PutBuffer", "getEvent":
			return
		}
		region[f] = true
		for _, g := range withClosures(f) {
			region[g] = true
			eachInstrLocal(g, func(in ssa.Instruction) {
				if cc, ok := in.(ssa.CallInstruction); ok {
					add(cc.Common().StaticCallee())
				}
			})
		}
	}
	add(sr)
	var names []string
	for f := range region {
		if f.Parent() == nil {
			names = append(names, fname(f))
		}
	}
	sort.Strings(names)
	totalTraces, totalSteps := 0, 0
	checked := map[string]int{}
	for flag := 0; flag < 256; flag += 8 {
		it := &flagInterp{p: p, region: region, viol: map[string]flagViolation{}, undec: map[string]bool{}, checked: map[string]int{}, flag: byte(flag), budget: 30_000_000}
		st := &astate{objs: map[int]*aobj{}, memo: map[string]bool{}}
		upg := it.newObj(st, "upgrade", true)
		upg.fields["NoRequest"] = aval{k: kInt, n: int64(flag >> 7 & 1)}
		upg.fields["NoResponse"] = aval{k: kInt, n: int64(flag >> 6 & 1)}
		upg.fields["Heartbeat"] = aval{k: kInt, n: int64(flag >> 5 & 1)}
		upg.fields["Stream"] = aval{k: kInt, n: int64(flag >> 3 & 3)}
		ctx := it.newObj(st, "Context", true)
		ctx.fields["upgrade"] = aval{k: kPtr, obj: upg}
		ctx.fields["codec"] = aval{k: kNonNil}
		ctx.fields["buffer"] = aval{k: kUnknown}
		ctx.fields["data"] = aval{k: kUnknown}
		ctx.fields["value"] = aval{k: kUnknown}
		ctx.fields["Upgrade"] = aval{k: kUnknown}
		ctx.fields["ServiceMethod"] = aval{k: kUnknown}
		ctx.fields["Seq"] = aval{k: kUnknown}
		srv := it.newObj(st, "Server", false)
		srv.fields["Funcs"] = aval{k: kNonNil}
		srv.fields["logger"] = aval{k: kNonNil}
		srv.fields["ctxPool"] = aval{k: kNonNil}
		srv.fields["upgradePool"] = aval{k: kNonNil}
		// table-element invariant: every context stored in the stream table has a non-nil stream
		sctx := it.newObj(st, "streamCtx", false)
		sctx.fields["stream"] = aval{k: kNonNil}
		args := make([]aval, len(sr.Params))
		for i, prm := range sr.Params {
			switch {
			case i == 0:
				args[i] = aval{k: kPtr, obj: srv}
			case pointeeName(prm) == "Context":
				args[i] = aval{k: kPtr, obj: ctx}
			case strings.Contains(prm.Type().String(), "WaitGroup"):
				args[i] = aval{k: kNonNil}
			default:
				args[i] = aval{k: kUnknown}
			}
		}
		it.streamElem = sctx
		it.run(sr, args, nil, st, func([]aval, *astate) {})
		totalTraces += it.traces + 1
		totalSteps += it.steps
		for k, n := range it.checked {
			checked[k] += n
		}
		site := fmt.Sprintf("flag=0x%02X(NoRequest=%d,NoResponse=%d,Heartbeat=%d,Stream=%d)", flag, flag>>7&1, flag>>6&1, flag>>5&1, flag>>3&3)
		for u := range it.undec {
			c.Undecided("R-PANIC-FLAGS", site+": "+u)
		}
		if len(it.viol) == 0 {
			c.Ob("R-PANIC-FLAGS", site, sr.Pos(), true, "")
			continue
		}
		var keys []string
		for k := range it.viol {
			keys = append(keys, k)
		}
		sort.Strings(keys)
		v := it.viol[keys[0]]
		det := fmt.Sprintf("upgrade byte 0x%02X: %s at %s [%d distinct crash site(s) for this byte]; branch decisions: %s", flag, v.what, p.At(v.instr), len(keys), strings.Join(v.trace, " "))
		c.Ob("R-PANIC-FLAGS", site, p.InstrPos(v.instr), false, det)
	}
	var obs []string
	for k, n := range checked {
		obs = append(obs, fmt.Sprintf("%s ×%d", k, n))
	}
	sort.Strings(obs)
	if len(obs) > 40 {
		obs = obs[:40]
	}
	c.Note(fmt.Sprintf("R-PANIC-FLAGS: exhaustive over 32 flag bytes; %d traces, %d abstract steps; region: %s", totalTraces, totalSteps, strings.Join(names, ", ")))
	c.extra("flag_space", map[string]interface{}{"exhaustive": true, "flag_bytes": 32, "traces": totalTraces, "abstract_steps": totalSteps, "region": names, "panic_obligations_evaluated": obs})
	if len(checked) < 4 {
		c.Undecided("R-PANIC-FLAGS", fmt.Sprintf("only %d kinds of panic obligations were reached: the interpretation no longer covers the handler call path", len(checked)))
	}
}
