package main

import (
	"go/token"
	"strings"

	"golang.org/x/tools/go/ssa"
)

func init() {
	register("C05", &propDef{
		Meta: PropMeta{
			Explanation: "Queue discipline decided statically: (1) every scheduler created in package rpc is created with exactly one worker (constant 1), so each is a FIFO; (2) in ServeRequest a normal request is dispatched through the connection's own queue whenever one exists — the global scheduler is reachable only when the queue is nil, there is no `go` dispatch — and the chain handleRequest→callService→sendResponse→WriteResponse contains no further hop; the queue handed to ServeRequest is created iff Server.pipelining; (3) in poll mode the frame read and its dispatch lie in one critical section of the per-connection receive lock, and the blocking loop dispatches without `go`; (4) in the client's response reader every completion of a user call (error arm and success arm) is performed inside a closure handed to Conn.readSched whenever that queue exists (inline completion is reachable only when it is nil; the internal blocking calls — ping, stream open/close — are exempt), and sends go through Conn.writeSched when set.",
			NotDecided:  "FIFO-ness of hslam/scheduler with one worker (trusted, read in its source); the order of completions produced by connection loss (map-order sweep).",
			Assumptions: []string{"scheduler.New(1, …) executes tasks in Schedule order on one worker"},
			Trusted:     commonTrusted,
		},
		Run: runC05,
	})
}

// matchNilOf recognises `v == nil` for values whose canon is a load of st.field
// or equals val. Holds (is nil) on the returned polarity.
func matchFieldNil(p *Prog, st, field string) condMatch {
	return func(cond ssa.Value) (bool, bool) {
		b, ok := cond.(*ssa.BinOp)
		if !ok || (b.Op != token.EQL && b.Op != token.NEQ) {
			return false, false
		}
		x, y := b.X, b.Y
		if nilConst(x) {
			x, y = y, x
		}
		if !nilConst(y) || !isLoadOf(p.canon(x), st, field) {
			return false, false
		}
		return true, b.Op == token.EQL
	}
}

func matchValueNil(p *Prog, v ssa.Value) condMatch {
	return func(cond ssa.Value) (bool, bool) {
		b, ok := cond.(*ssa.BinOp)
		if !ok || (b.Op != token.EQL && b.Op != token.NEQ) {
			return false, false
		}
		x, y := b.X, b.Y
		if nilConst(x) {
			x, y = y, x
		}
		if !nilConst(y) || p.canon(x) != p.canon(v) {
			return false, false
		}
		return true, b.Op == token.EQL
	}
}

func runC05(c *Check, a *Analysis) {
	p := c.P
	ruleLockBalance(c, a, "R-LOCK-BALANCE", "ServerContext.recving")
	rulePipeliningQueues(c, a, "R-PIPELINING-QUEUES")
	ruleSchedNil(c, a, "R-SCHED-NIL")
	ruleExecQueueAfterWait(c, a, "R-EXEC-QUEUE-AFTER-WAIT")
	ruleQueueConfig(c, a, "R-QUEUE-CONFIG")
	ruleQueuePerConn(c, a, "R-QUEUE-PER-CONN")
	ruleDecodeRouteConstant(c, a, "R-DECODE-ROUTE")
	ruleInlineReplies(c, a, "R-INLINE-REPLIES")
	ruleQuiesceBeforeClose(c, a, "R-QUIESCE-BEFORE-CLOSE")
	ls := a.Locks()
	sc := siteCounter{}

	// ---- R-ONE-WORKER
	c.Rule("R-ONE-WORKER", "every scheduler.New call in package rpc passes the constant 1 as the number of workers", 8)
	for _, fn := range p.Fns {
		for _, call := range callsIn(fn, "scheduler.New") {
			nargs := call.Common().Args
			if cv, isCall := call.(*ssa.Call); isCall {
				nargs = p.newArgs(cv)
			}
			if len(nargs) == 0 {
				continue
			}
			k, ok := constInt(nargs[0])
			good := ok && k == 1
			det := ""
			if !good {
				det = "scheduler created with " + describe(nargs[0]) + " workers: tasks of one connection can run concurrently and out of order"
			}
			c.Ob("R-ONE-WORKER", sc.key(fn, "scheduler.New(1,…)"), p.InstrPos(call), good, det)
		}
	}

	// ---- R-SERVER-QUEUE
	c.Rule("R-SERVER-QUEUE", "ServeRequest dispatches a request to the global scheduler only when the per-connection queue is nil, never with `go`; handleRequest/callService/sendResponse call each other directly; the queue passed to ServeRequest comes from scheduler.New guarded by Server.pipelining", 6)
	sr := p.Fn("(*Server).ServeRequest")
	if sr == nil {
		c.Undecided("R-SERVER-QUEUE", "(*Server).ServeRequest not found")
	} else {
		var schedParam ssa.Value
		for _, prm := range sr.Params {
			if prm.Name() == "sched" || (schedParam == nil && namedOf(prm.Type()) == "scheduler.Scheduler") {
				if schedParam == nil || prm.Name() == "sched" {
					schedParam = prm
				}
			}
		}
		if schedParam == nil {
			c.Undecided("R-SERVER-QUEUE", "ServeRequest has no scheduler parameter")
		}
		nq := 0
		for _, ev := range eventsOf(sr, "(*Server).handleRequest") {
			site := sc.key(sr, "dispatch handleRequest")
			switch x := ev.(type) {
			case *ssa.Go:
				c.Ob("R-SERVER-QUEUE", site, p.InstrPos(ev), false, "request dispatched with `go`: no per-connection order")
			case *ssa.Call:
				n := calleeName(x)
				switch {
				case n == "scheduler.Schedule":
					ok, _ := p.guardedBy(ev, matchValueNil(p, schedParam))
					det := ""
					if !ok {
						det = "the global (unordered, multi-worker) scheduler is reachable although the connection has its own queue: pipelined requests can execute concurrently / out of order"
					}
					c.Ob("R-SERVER-QUEUE", site, p.InstrPos(ev), ok, det)
				case strings.HasPrefix(n, "invoke ") && strings.HasSuffix(n, ".Schedule"):
					nq++
					c.Ob("R-SERVER-QUEUE", site, p.InstrPos(ev), true, "")
				default:
					// inline call: allowed only for stream traffic (not a normal request)
					g1, _ := p.guardedBy(ev, matchFieldEqConst("upgrade", "Stream", 1))
					g2, _ := p.guardedBy(ev, matchFieldEqConst("upgrade", "Stream", 2))
					det := ""
					if !g1 && !g2 {
						det = "a normal request is handled inline in the decode task instead of through the connection's queue"
					}
					c.Ob("R-SERVER-QUEUE", site, p.InstrPos(ev), g1 || g2, det)
				}
			}
		}
		if nq == 0 {
			c.Ob("R-SERVER-QUEUE", sc.key(sr, "queue dispatch exists"), sr.Pos(), false, "no dispatch through a per-connection queue in ServeRequest")
		}
		// callers pass a queue created iff pipelining
		for _, call := range p.Callers(sr) {
			arg := call.Common().Args[4]
			okNew := false
			for _, o := range p.origins(arg) {
				o = p.canon(o)
				// field of a per-connection struct: follow stores
				if fr, _, isF := fieldOfLoad(o); isF {
					for _, st := range p.storesToField(fr.Struct, fr.Field) {
						for _, o2 := range p.origins(st.Instr.(*ssa.Store).Val) {
							if cc, isC := o2.(*ssa.Call); isC && calleeName(cc) == "scheduler.New" {
								if g, _ := p.guardedBy(cc, matchBoolField("Server", "pipelining")); g {
									okNew = true
								}
							}
						}
					}
				}
				if cc, isC := o.(*ssa.Call); isC && calleeName(cc) == "scheduler.New" {
					if g, _ := p.guardedBy(cc, matchBoolField("Server", "pipelining")); g {
						okNew = true
					}
				}
			}
			det := ""
			if !okNew {
				det = "the queue argument of ServeRequest does not originate from scheduler.New guarded by Server.pipelining"
			}
			c.Ob("R-SERVER-QUEUE", sc.key(call.Parent(), "sched arg from pipelining"), p.InstrPos(call), okNew, det)
		}
	}
	// direct chain
	for _, pair := range [][2]string{{"(*Server).handleRequest", "(*Server).callService"}, {"(*Server).handleRequest", "(*Server).sendResponse"}, {"(*Server).callService", "(*Server).sendResponse"}} {
		fn := p.Fn(pair[0])
		if fn == nil {
			c.Undecided("R-SERVER-QUEUE", pair[0]+" not found")
			continue
		}
		for _, ev := range eventsOf(fn, pair[1]) {
			_, direct := ev.(*ssa.Call)
			direct = direct && calleeName(ev.(*ssa.Call)) == pair[1]
			det := ""
			if !direct {
				det = pair[1] + " is reached through go/Schedule from " + pair[0] + ": execution or response order is no longer the queue order"
			}
			c.Ob("R-SERVER-QUEUE", sc.key(fn, "direct "+pair[1]), p.InstrPos(ev), direct, det)
		}
	}
	if srp := p.Fn("(*Server).sendResponse"); srp != nil {
		for _, w := range invokesIn(srp, "ServerCodec", "WriteResponse") {
			_, direct := w.(*ssa.Call)
			c.Ob("R-SERVER-QUEUE", sc.key(srp, "direct WriteResponse"), p.InstrPos(w), direct, "WriteResponse not called directly")
		}
	}

	// ---- R-POLL-RECV
	c.Rule("R-POLL-RECV", "in every server read loop the frame read and its dispatch are serialised: in the poll callback both lie in one critical section of ServerContext.recving; the blocking loop dispatches without `go`", 3)
	for _, fn := range p.Fns {
		if !strings.HasPrefix(fname(topParent(fn)), "(*Server).") {
			continue
		}
		reads := invokesIn(fn, "socket.Messages", "ReadMessage")
		serves := eventsOf(fn, "(*Server).ServeRequest")
		if len(reads) == 0 || len(serves) == 0 {
			continue
		}
		poll := fn.Parent() != nil // the poll callback is a closure of listen
		for _, sv := range serves {
			site := sc.key(fn, "read+dispatch serialised")
			if _, isGo := sv.(*ssa.Go); isGo {
				c.Ob("R-POLL-RECV", site, p.InstrPos(sv), false, "frame dispatched with `go`: arrival order lost")
				continue
			}
			if poll {
				ok := true
				for _, rd := range reads {
					if !ls.SameSection(rd, sv, "ServerContext.recving") {
						ok = false
					}
				}
				det := ""
				if !ok {
					det = "ReadMessage and the dispatch of the frame are not in one critical section of the receive lock: two poll workers can dispatch frames of one connection out of order"
				}
				c.Ob("R-POLL-RECV", site, p.InstrPos(sv), ok, det)
			} else {
				c.Ob("R-POLL-RECV", site, p.InstrPos(sv), true, "")
			}
		}
	}

	// ---- R-CLIENT-QUEUE
	c.Rule("R-CLIENT-QUEUE", "in the client's response reader every completion of a user call (done() or hand-off to a completing function) executed inline is reachable only when Conn.readSched is nil (internal blocking calls with NoResponse set are exempt); Conn.write calls send inline only when Conn.writeSched is nil", 3)
	comp := computeCompletion(p)
	nReader := 0
	for _, l := range pendingOps(p, "lookup") {
		fn := l.Fn
		if len(pendingOps2(p, topParent(fn), "update")) > 0 {
			continue
		}
		nReader++
		for _, s := range comp.sitesIn(fn) {
			if s.What == "Error=" || strings.HasPrefix(s.What, "closure") {
				continue
			}
			if !p.sameVarOrigin(s.Var, l.Instr.(*ssa.Lookup)) {
				continue
			}
			site := sc.key(fn, "inline "+s.What)
			gNil, _ := p.guardedBy(s.Instr, matchFieldNil(p, "Conn", "readSched"))
			gInternal, _ := p.guardedBy(s.Instr, matchFieldEqConst("upgrade", "NoResponse", 1))
			det := ""
			if !gNil && !gInternal {
				det = "a response-driven completion runs inline in the reader although the connection has an ordered completion queue (Conn.readSched): with client pipelining this call can be signalled before earlier ones"
			}
			c.Ob("R-CLIENT-QUEUE", site, p.InstrPos(s.Instr), gNil || gInternal, det)
		}
		// closures that complete must be handed to readSched (or the global scheduler only when readSched is nil)
		eachInstr(fn, func(in ssa.Instruction) {
			cc, ok := in.(*ssa.Call)
			if !ok {
				return
			}
			n := calleeName(cc)
			if !strings.HasSuffix(n, ".Schedule") && n != "scheduler.Schedule" {
				return
			}
			mc, ok := cc.Common().Args[len(cc.Common().Args)-1].(*ssa.MakeClosure)
			if !ok {
				return
			}
			completes := false
			for _, b := range mc.Bindings {
				if cell := p.localCell(b); cell != nil && comp.closureCompletes(mc.Fn.(*ssa.Function), cell) && p.sameVarOrigin(b, l.Instr.(*ssa.Lookup)) {
					completes = true
				}
			}
			if !completes {
				return
			}
			site := sc.key(fn, "scheduled completion")
			if cc.Common().IsInvoke() && isLoadOf(p.canon(cc.Common().Value), "Conn", "readSched") {
				c.Ob("R-CLIENT-QUEUE", site, p.InstrPos(in), true, "")
				return
			}
			gNil, _ := p.guardedBy(in, matchFieldNil(p, "Conn", "readSched"))
			gInternal, _ := p.guardedBy(in, matchFieldEqConst("upgrade", "NoResponse", 1))
			det := ""
			if !gNil && !gInternal {
				det = "completion scheduled on " + n + " (not Conn.readSched) while Conn.readSched may be set"
			}
			c.Ob("R-CLIENT-QUEUE", site, p.InstrPos(in), gNil || gInternal, det)
		})
	}
	if nReader == 0 {
		c.Undecided("R-CLIENT-QUEUE", "response reader not found")
	}
	if w := p.Fn("(*Conn).write"); w == nil {
		c.Undecided("R-CLIENT-QUEUE", "(*Conn).write not found")
	} else {
		for _, s := range callsIn(w, "(*Conn).send") {
			g, _ := p.guardedBy(s.(ssa.Instruction), matchFieldNil(p, "Conn", "writeSched"))
			det := ""
			if !g {
				det = "send called inline although Conn.writeSched may be set"
			}
			c.Ob("R-CLIENT-QUEUE", sc.key(w, "inline send only without writeSched"), p.InstrPos(s), g, det)
		}
		nSched := 0
		for _, f := range withClosures(w)[1:] {
			if len(callsIn(f, "(*Conn).send")) > 0 {
				nSched++
			}
		}
		c.Ob("R-CLIENT-QUEUE", sc.key(w, "queued send exists"), w.Pos(), nSched > 0, "no send through Conn.writeSched")
	}
}

// sameVarOrigin: the variable v originates (only) from lookup l.
func (p *Prog) sameVarOrigin(v ssa.Value, l *ssa.Lookup) bool {
	os := p.varOrigins(v)
	if len(os) == 0 {
		return false
	}
	for _, o := range os {
		if o != ssa.Value(l) {
			return false
		}
	}
	return true
}
