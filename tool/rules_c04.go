package main

import (
	"fmt"
	"go/token"
	"strings"

	"golang.org/x/tools/go/ssa"
)

func init() {
	register("C04", &propDef{
		Meta: PropMeta{
			Explanation: "Exactly-one counting along the server's request path, decided by CFG reachability over all feasible paths (E3/E4): each successful frame read leads to exactly one ServeRequest (inline or one scheduled closure); in ServeRequest no path performs two dispatches (handleRequest / sendResponse) and every non-error path performs one (the silent drop of a stream message for an unknown stream is the documented exception); handleRequest performs exactly one of {sendResponse, callService}; callService invokes the handler exactly once and responds exactly once on every non-stream-message path and zero times on the stream-message path; sendResponse writes exactly one response; the heartbeat branch never reaches a method lookup; Transport and Client forward a call exactly once and never inside a loop (no retry); the pooled request Context is never used after it was returned to its pool.",
			NotDecided:  "Argument equality between what was sent and what the handler sees; that hslam/scheduler runs each task exactly once; behaviour at disconnect (teardown shape is covered by C08/C10).",
			Assumptions: []string{"scheduler.Schedule(task) runs task exactly once"},
			Trusted:     commonTrusted,
		},
		Run: runC04,
	})
}

// closureCallsTo: the closure body contains a plain call to one of names.
func closureCallsTo(cl *ssa.Function, names ...string) bool {
	return len(callsIn(cl, names...)) > 0
}

// eventsOf returns the instructions of fn that cause one execution of a
// function in names: a direct call, or handing a closure that calls it to
// Schedule / go.
func eventsOf(fn *ssa.Function, names ...string) []ssa.Instruction {
	var out []ssa.Instruction
	eachInstr(fn, func(in ssa.Instruction) {
		c, ok := in.(ssa.CallInstruction)
		if !ok {
			return
		}
		n := calleeName(c)
		for _, x := range names {
			if n == x {
				if _, isDefer := in.(*ssa.Defer); !isDefer {
					out = append(out, in)
				}
				return
			}
		}
		// closure handed to a queue or started as goroutine
		var mc *ssa.MakeClosure
		if g, isGo := in.(*ssa.Go); isGo {
			mc, _ = g.Call.Value.(*ssa.MakeClosure)
			if mc == nil {
				if f, ok := g.Call.Value.(*ssa.Function); ok && closureCallsTo(f, names...) {
					out = append(out, in)
				}
			}
		} else if strings.HasSuffix(n, ".Schedule") && len(c.Common().Args) > 0 {
			mc, _ = c.Common().Args[len(c.Common().Args)-1].(*ssa.MakeClosure)
		}
		if mc != nil && closureCallsTo(mc.Fn.(*ssa.Function), names...) {
			out = append(out, in)
		}
	})
	return out
}

func isIn(in ssa.Instruction, set []ssa.Instruction) bool {
	for _, x := range set {
		if x == in {
			return true
		}
	}
	return false
}

// atMostOnce: no event of set is reachable from another event of set
// (stop at `stop` instructions, e.g. the next frame read).
func atMostOnce(c *Check, rule, site string, fn *ssa.Function, set []ssa.Instruction, stop ipred, what string) {
	p := c.P
	for _, e := range set {
		var hit ssa.Instruction
		_, tr, found := p.reachFrom(fn, e, func(x ssa.Instruction) bool {
			if isIn(x, set) {
				hit = x
				return true
			}
			return false
		}, stop)
		det := ""
		if found {
			det = fmt.Sprintf("%s at %s and again at %s on one path (%s)", what, p.At(e), p.At(hit), p.lineTrail(tr))
		}
		c.Ob(rule, site+"/at-most-once", p.InstrPos(e), !found, det)
	}
}

// streamEqEdges: edges on which load(...upgrade.Stream) == k holds.
func streamEqEdges(p *Prog, fn *ssa.Function, k int64) map[edge]bool {
	cut, _ := p.guardEdges(fn, matchFieldEqConst("upgrade", "Stream", k))
	return cut
}

func runC04(c *Check, a *Analysis) {
	p := c.P
	sc := siteCounter{}
	// a push under a wrong sequence number answers somebody else's request a second time
	ruleStreamCtxStable(c, a, "R-STREAM-CTX-STABLE")
	ruleHeaderFresh(c, a, "R-HEADER-FRESH")
	ruleResetClean(c, a, "R-RESET-CLEAN")

	// ---- R-ONE-SERVE
	c.Rule("R-ONE-SERVE", "each successful Messages.ReadMessage in a server loop leads to exactly one ServeRequest (inline or one scheduled closure) before the next read or the return", 4)
	nLoops := 0
	for _, fn := range p.Fns {
		if !strings.HasPrefix(fname(topParent(fn)), "(*Server).") {
			continue
		}
		reads := invokesIn(fn, "socket.Messages", "ReadMessage")
		serves := eventsOf(fn, "(*Server).ServeRequest")
		if len(reads) == 0 || len(serves) == 0 {
			continue
		}
		nLoops++
		for _, rd := range reads {
			rdI := rd.(ssa.Instruction)
			// failure edges: err != nil, len(data) == 0
			cut := map[edge]bool{}
			tuple := rd.Value()
			for _, b := range fn.Blocks {
				iff, ok := b.Instrs[len(b.Instrs)-1].(*ssa.If)
				if !ok {
					continue
				}
				k, eq, ok := p.condFact(iff.Cond)
				if !ok {
					continue
				}
				if e, isE := k.v.(*ssa.Extract); isE && e.Tuple == ssa.Value(tuple) {
					switch {
					case e.Index == 1 && k.c == "nil":
						// err == nil: failure is the "!= nil" edge
						if eq {
							cut[edge{b, b.Succs[1]}] = true
						} else {
							cut[edge{b, b.Succs[0]}] = true
						}
					case e.Index == 0 && k.c == "len0":
						if eq {
							cut[edge{b, b.Succs[0]}] = true
						} else {
							cut[edge{b, b.Succs[1]}] = true
						}
					}
				}
			}
			site := sc.key(fn, "ReadMessage→ServeRequest")
			_, tr, found := p.reachCut(fn, rdI, func(x ssa.Instruction) bool { return isReturnLike(x) || x == rdI }, func(x ssa.Instruction) bool { return isIn(x, serves) }, cut)
			det := ""
			if found {
				det = "a successfully read frame is not served on path " + p.lineTrail(tr)
			}
			c.Ob("R-ONE-SERVE", site+"/at-least-once", p.InstrPos(rdI), !found, det)
			atMostOnce(c, "R-ONE-SERVE", site, fn, serves, func(x ssa.Instruction) bool { return x == rdI }, "ServeRequest dispatched")
		}
	}
	if nLoops < 2 {
		c.Undecided("R-ONE-SERVE", fmt.Sprintf("expected the blocking and the poll serve loops, found %d", nLoops))
	}

	// ---- R-DISPATCH (ServeRequest)
	c.Rule("R-DISPATCH", "ServeRequest: at most one dispatch (handleRequest event or direct sendResponse) on any path; exactly one on every path past a successful header decode (except the silent drop of a stream message for an unknown stream); the heartbeat branch answers without method lookup", 4)
	sr := p.Fn("(*Server).ServeRequest")
	if sr == nil {
		c.Undecided("R-DISPATCH", "(*Server).ServeRequest not found")
	} else {
		disp := append(eventsOf(sr, "(*Server).handleRequest"), eventsOf(sr, "(*Server).sendResponse")...)
		site := sc.key(sr, "dispatch")
		atMostOnce(c, "R-DISPATCH", site, sr, disp, nil, "request dispatched")
		// at least once: cut header-error edge and stream-miss edge
		cut := map[edge]bool{}
		for _, b := range sr.Blocks {
			iff, ok := b.Instrs[len(b.Instrs)-1].(*ssa.If)
			if !ok {
				continue
			}
			k, eq, ok := p.condFact(iff.Cond)
			if !ok {
				continue
			}
			if call, isC := k.v.(*ssa.Call); isC && (calleeName(call) == "(*Server).readRequestHeader" || calleeName(call) == "invoke ServerCodec.ReadRequestHeader") && k.c == "nil" {
				if eq {
					cut[edge{b, b.Succs[1]}] = true
				} else {
					cut[edge{b, b.Succs[0]}] = true
				}
			}
			// comma-ok miss of the stream table on the streaming branch
			if e, isE := k.v.(*ssa.Extract); isE && e.Index == 1 && k.c == "true" {
				if _, isL := e.Tuple.(*ssa.Lookup); isL && blockGuardedByStream(p, b, 2) {
					if eq {
						cut[edge{b, b.Succs[1]}] = true
					} else {
						cut[edge{b, b.Succs[0]}] = true
					}
				}
			}
		}
		_, tr, found := p.reachCut(sr, nil, isReturnLike, func(x ssa.Instruction) bool { return isIn(x, disp) }, cut)
		det := ""
		if found {
			det = "a decoded request is neither dispatched nor answered on path " + p.lineTrail(tr)
		}
		c.Ob("R-DISPATCH", site+"/at-least-once", sr.Pos(), !found, det)
		// heartbeat: the true edge of Heartbeat==1 reaches sendResponse and never handleRequest
		hbEdges, n := p.guardEdges(sr, matchFieldEqConst("upgrade", "Heartbeat", 1))
		if n == 0 {
			c.Undecided("R-DISPATCH", "no heartbeat test in ServeRequest")
		}
		for e := range hbEdges {
			hr := eventsOf(sr, "(*Server).handleRequest")
			_, _, reachHR := p.reachFromBlock(sr, e.to, func(x ssa.Instruction) bool { return isIn(x, hr) }, nil, nil)
			sends := eventsOf(sr, "(*Server).sendResponse")
			_, _, miss := p.reachFromBlock(sr, e.to, isReturnLike, func(x ssa.Instruction) bool { return isIn(x, sends) }, nil)
			det := ""
			if reachHR {
				det = "heartbeat branch reaches handleRequest (method lookup / handler) — Ping must never invoke a handler"
			} else if miss {
				det = "heartbeat branch can return without answering"
			}
			c.Ob("R-DISPATCH", sc.key(sr, "heartbeat answered without lookup"), p.InstrPos(e.to.Instrs[0]), !reachHR && !miss, det)
		}
	}

	// ---- R-HANDLE (handleRequest)
	c.Rule("R-HANDLE", "handleRequest performs exactly one of {sendResponse, callService} on every path", 2)
	if hr := p.Fn("(*Server).handleRequest"); hr == nil {
		c.Undecided("R-HANDLE", "(*Server).handleRequest not found")
	} else {
		ev := append(eventsOf(hr, "(*Server).sendResponse"), eventsOf(hr, "(*Server).callService")...)
		site := sc.key(hr, "respond-or-call")
		atMostOnce(c, "R-HANDLE", site, hr, ev, nil, "sendResponse/callService")
		_, tr, ok := p.mustPass(hr, nil, func(x ssa.Instruction) bool { return isIn(x, ev) })
		det := ""
		if !ok {
			det = "a path through handleRequest neither calls the service nor answers (" + p.lineTrail(tr) + ")"
		}
		c.Ob("R-HANDLE", site+"/at-least-once", hr.Pos(), ok, det)
	}

	// ---- R-CALL (callService)
	c.Rule("R-CALL", "callService: on every path that is not a stream message the handler (Func.ValueCall) is invoked exactly once and sendResponse exactly once; on the stream-message path neither", 5)
	if cs := p.Fn("(*Server).callService"); cs == nil {
		c.Undecided("R-CALL", "(*Server).callService not found")
	} else {
		vc := eventsOf(cs, "(*funcs.Func).ValueCall")
		sr := eventsOf(cs, "(*Server).sendResponse")
		site := sc.key(cs, "handler")
		atMostOnce(c, "R-CALL", site, cs, vc, nil, "handler invoked")
		atMostOnce(c, "R-CALL", sc.key(cs, "respond"), cs, sr, nil, "sendResponse")
		cut := streamEqEdges(p, cs, 2)
		if len(cut) == 0 {
			c.Undecided("R-CALL", "no `Stream == streaming` test in callService")
		}
		for name, set := range map[string][]ssa.Instruction{"handler": vc, "respond": sr} {
			_, tr, found := p.reachCut(cs, nil, isReturnLike, func(x ssa.Instruction) bool { return isIn(x, set) }, cut)
			det := ""
			if found {
				det = fmt.Sprintf("a non-stream-message path through callService has no %s event (%s)", name, p.lineTrail(tr))
			}
			c.Ob("R-CALL", sc.key(cs, name+" at-least-once"), cs.Pos(), !found, det)
		}
		for e := range cut {
			all := append(append([]ssa.Instruction{}, vc...), sr...)
			w, _, found := p.reachFromBlock(cs, e.to, func(x ssa.Instruction) bool { return isIn(x, all) }, nil, nil)
			det := ""
			if found {
				det = "the stream-message path invokes a handler or writes a response at " + p.At(w)
			}
			c.Ob("R-CALL", sc.key(cs, "stream message: no handler, no response"), p.InstrPos(e.to.Instrs[0]), !found, det)
		}
	}

	// ---- R-RESPOND (sendResponse)
	c.Rule("R-RESPOND", "sendResponse writes exactly one response (ServerCodec.WriteResponse) on every path", 2)
	if sr := p.Fn("(*Server).sendResponse"); sr == nil {
		c.Undecided("R-RESPOND", "(*Server).sendResponse not found")
	} else {
		var wr []ssa.Instruction
		for _, w := range invokesIn(sr, "ServerCodec", "WriteResponse") {
			wr = append(wr, w)
		}
		site := sc.key(sr, "WriteResponse")
		atMostOnce(c, "R-RESPOND", site, sr, wr, nil, "WriteResponse")
		_, tr, ok := p.mustPass(sr, nil, func(x ssa.Instruction) bool { return isIn(x, wr) })
		det := ""
		if !ok {
			det = "a path through sendResponse writes no response (" + p.lineTrail(tr) + ")"
		}
		c.Ob("R-RESPOND", site+"/at-least-once", sr.Pos(), ok, det)
	}

	// ---- R-NO-RETRY
	c.Rule("R-NO-RETRY", "Transport and Client forward each call to the next layer at most once per invocation and never inside a loop", 12)
	for _, fn := range p.Fns {
		if fn.Parent() != nil || fn.Signature.Recv() == nil {
			continue
		}
		recv := namedOf(fn.Signature.Recv().Type())
		if recv != "Transport" && recv != "Client" {
			continue
		}
		var fwd []ssa.Instruction
		eachInstr(fn, func(in ssa.Instruction) {
			cc, ok := in.(ssa.CallInstruction)
			if !ok {
				return
			}
			n := calleeName(cc)
			for _, m := range []string{"Call", "Go", "RoundTrip", "CallWithContext", "NewStream"} {
				if n == "(*Conn)."+m || n == "invoke RoundTripper."+m {
					fwd = append(fwd, in)
				}
			}
		})
		if len(fwd) == 0 {
			continue
		}
		site := sc.key(fn, "forward")
		for _, f := range fwd {
			loop := p.inLoop(f)
			det := ""
			if loop {
				det = "forwarding call inside a loop (retry)"
			}
			c.Ob("R-NO-RETRY", site+"/not-in-loop", p.InstrPos(f), !loop, det)
		}
		atMostOnce(c, "R-NO-RETRY", site, fn, fwd, nil, "call forwarded")
	}

	ruleUseAfterRelease(c, a, "R-UAR", uarServer)
}

// blockGuardedByStream: block b is only reachable through an edge on which
// upgrade.Stream == k holds.
func blockGuardedByStream(p *Prog, b *ssa.BasicBlock, k int64) bool {
	if len(b.Instrs) == 0 {
		return false
	}
	ok, _ := p.guardedBy(b.Instrs[0], matchFieldEqConst("upgrade", "Stream", k))
	return ok
}

var _ = token.NoPos
