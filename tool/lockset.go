package main

// E1 — must-lockset analysis (forward dataflow, join = intersection) with
// interprocedural entry locksets, and E2 — same-critical-section queries.
//
// A lock is identified by (declaring struct, field) of the mutex, e.g.
// "Conn.mutex". Aliasing between two objects of the same struct type is not
// modelled (see DESIGN.md, trusted base): in this package every lock is
// reached through the receiver or one captured context.

import (
	"sort"
	"strings"

	"golang.org/x/tools/go/ssa"
)

type lockset map[string]bool // nil = TOP (unreached)

func (l lockset) clone() lockset {
	if l == nil {
		return nil
	}
	c := lockset{}
	for k := range l {
		c[k] = true
	}
	return c
}

func meet(a, b lockset) lockset {
	if a == nil {
		return b.clone()
	}
	if b == nil {
		return a.clone()
	}
	c := lockset{}
	for k := range a {
		if b[k] {
			c[k] = true
		}
	}
	return c
}

func eqLS(a, b lockset) bool {
	if (a == nil) != (b == nil) || len(a) != len(b) {
		return false
	}
	for k := range a {
		if !b[k] {
			return false
		}
	}
	return true
}

func (l lockset) String() string {
	var ks []string
	for k := range l {
		ks = append(ks, k)
	}
	sort.Strings(ks)
	return "{" + strings.Join(ks, ",") + "}"
}

// lockKeyOf names the mutex a Lock/Unlock receiver denotes.
func lockKeyOf(v ssa.Value) string {
	if fr, _, ok := fieldOfAddr(v); ok {
		return fr.String()
	}
	if fr, _, ok := fieldOfLoad(v); ok {
		return fr.String()
	}
	return ""
}

type lockOp struct {
	key     string
	acquire bool
}

// lockOpOf recognises sync.Mutex / sync.RWMutex operations (plain calls only;
// a deferred Unlock keeps the lock until the function returns).
func lockOpOf(in ssa.Instruction) (lockOp, bool) {
	c, ok := in.(*ssa.Call)
	if !ok {
		return lockOp{}, false
	}
	n := calleeName(c)
	var acq bool
	switch n {
	case "(*sync.Mutex).Lock", "(*sync.RWMutex).Lock", "(*sync.RWMutex).RLock":
		acq = true
	case "(*sync.Mutex).Unlock", "(*sync.RWMutex).Unlock", "(*sync.RWMutex).RUnlock":
		acq = false
	default:
		return lockOp{}, false
	}
	args := c.Common().Args
	if len(args) == 0 {
		return lockOp{}, false
	}
	k := lockKeyOf(args[0])
	if k == "" {
		return lockOp{}, false
	}
	return lockOp{k, acq}, true
}

// Locksets holds the analysis result.
type Locksets struct {
	p     *Prog
	entry map[*ssa.Function]lockset
	at    map[ssa.Instruction]lockset // lockset immediately BEFORE the instruction
}

// externallyCallable: the function can be entered from outside the package
// with no locks held.
func externallyCallable(fn *ssa.Function) bool {
	if fn.Parent() != nil {
		return false
	}
	if fn.Object() == nil || !fn.Object().Exported() {
		return fn.Name() == "init" || strings.HasPrefix(fn.Name(), "init#")
	}
	if fn.Signature.Recv() != nil {
		rn := namedOf(fn.Signature.Recv().Type())
		if rn != "" && !isExportedName(rn) {
			return false
		}
	}
	return true
}

func isExportedName(s string) bool { return s != "" && s[0] >= 'A' && s[0] <= 'Z' }

// closureEntryFrom returns, for closure fn, the instructions in the parent at
// which the closure runs synchronously under the parent's locks (direct call,
// or handed to sync.Once.Do). ok=false means the closure escapes (go, defer,
// Schedule, stored): it starts with the empty lockset.
func (ls *Locksets) closureSyncSites(fn *ssa.Function) ([]ssa.Instruction, bool) {
	par := fn.Parent()
	if par == nil {
		return nil, false
	}
	var sites []ssa.Instruction
	ok := true
	found := false
	eachInstrLocal(par, func(in ssa.Instruction) {
		mc, isMC := in.(*ssa.MakeClosure)
		if !isMC || mc.Fn != fn {
			return
		}
		found = true
		for _, r := range *mc.Referrers() {
			switch u := r.(type) {
			case *ssa.Call:
				if u.Common().Value == mc {
					sites = append(sites, u)
					continue
				}
				if calleeName(u) == "(*sync.Once).Do" {
					sites = append(sites, u)
					continue
				}
				ok = false
			default:
				ok = false
			}
		}
	})
	// closures without captured variables appear as plain *ssa.Function values
	if !found {
		eachInstrLocal(par, func(in ssa.Instruction) {
			for _, op := range in.Operands(nil) {
				if *op == ssa.Value(fn) {
					if u, isCall := in.(*ssa.Call); isCall && (u.Common().Value == ssa.Value(fn) || calleeName(u) == "(*sync.Once).Do") {
						sites = append(sites, u)
						found = true
					} else {
						ok = false
						found = true
					}
				}
			}
		})
	}
	if !found || !ok {
		return nil, false
	}
	return sites, true
}

// addressTaken: fn is used as a value other than as the callee of a call.
func (ls *Locksets) addressTaken(fn *ssa.Function) bool {
	taken := false
	for _, g := range ls.p.AllFns {
		eachInstrLocal(g, func(in ssa.Instruction) {
			for _, op := range in.Operands(nil) {
				if *op == ssa.Value(fn) {
					if c, ok := in.(ssa.CallInstruction); ok && c.Common().Value == ssa.Value(fn) {
						if _, plain := in.(*ssa.Call); plain {
							continue
						}
					}
					taken = true
				}
			}
		})
	}
	return taken
}

// ComputeLocksets runs the interprocedural fixed point.
func ComputeLocksets(p *Prog) *Locksets {
	ls := &Locksets{p: p, entry: map[*ssa.Function]lockset{}, at: map[ssa.Instruction]lockset{}}
	// roots start with the empty lockset, the rest with TOP
	root := map[*ssa.Function]bool{}
	dead := map[*ssa.Function]bool{}
	boundSync := map[*ssa.Function]bool{}
	syncSites := map[*ssa.Function][]ssa.Instruction{}
	for _, fn := range p.AllFns {
		if fn.Parent() == nil {
			if sites := boundOnceSites(p, fn); len(sites) > 0 && len(p.Callers(fn)) == 0 {
				syncSites[fn] = sites
				boundSync[fn] = true
				continue
			}
		}
		if fn.Parent() != nil {
			sites, ok := ls.closureSyncSites(fn)
			if !ok {
				root[fn] = true
			} else {
				syncSites[fn] = sites
			}
			continue
		}
		if len(p.Callers(fn)) == 0 && !externallyCallable(fn) && !ls.addressTaken(fn) && ls.deadMethod(fn) {
			// method of an unexported type that is never called and whose type is
			// never converted to an interface: unreachable outside the tests
			dead[fn] = true
			continue
		}
		if externallyCallable(fn) || len(p.Callers(fn)) == 0 || ls.addressTaken(fn) {
			root[fn] = true
			continue
		}
		// every caller must be a plain call; go/defer callers start empty
		for _, c := range p.Callers(fn) {
			if _, plain := c.(*ssa.Call); !plain {
				root[fn] = true
			}
		}
	}
	for _, fn := range p.AllFns {
		if root[fn] {
			ls.entry[fn] = lockset{}
		} else {
			ls.entry[fn] = nil
		}
	}
	for iter := 0; iter < 50; iter++ {
		changed := false
		for _, fn := range p.AllFns {
			ls.flow(fn)
		}
		for _, fn := range p.AllFns {
			if root[fn] {
				continue
			}
			var in lockset
			if fn.Parent() != nil || boundSync[fn] {
				for _, s := range syncSites[fn] {
					in = meet(in, ls.at[s])
				}
			} else {
				for _, c := range p.Callers(fn) {
					in = meet(in, ls.at[c])
				}
			}
			if !eqLS(in, ls.entry[fn]) {
				ls.entry[fn] = in
				changed = true
			}
		}
		if !changed {
			break
		}
	}
	for _, fn := range p.AllFns {
		if ls.entry[fn] == nil && !dead[fn] {
			ls.entry[fn] = lockset{}
		}
	}
	for _, fn := range p.AllFns {
		ls.flow(fn)
	}
	return ls
}

func (ls *Locksets) flow(fn *ssa.Function) {
	if len(fn.Blocks) == 0 {
		return
	}
	in := map[*ssa.BasicBlock]lockset{}
	out := map[*ssa.BasicBlock]lockset{}
	entry := ls.entry[fn]
	if entry == nil {
		// unreached so far: leave everything TOP
		for _, b := range fn.Blocks {
			for _, x := range b.Instrs {
				ls.at[x] = nil
			}
		}
		return
	}
	in[fn.Blocks[0]] = entry.clone()
	work := []*ssa.BasicBlock{fn.Blocks[0]}
	inq := map[*ssa.BasicBlock]bool{fn.Blocks[0]: true}
	for len(work) > 0 {
		b := work[0]
		work = work[1:]
		inq[b] = false
		cur := in[b].clone()
		for _, x := range b.Instrs {
			ls.at[x] = cur.clone()
			if op, ok := lockOpOf(x); ok {
				if op.acquire {
					cur[op.key] = true
				} else {
					delete(cur, op.key)
				}
			}
		}
		if eqLS(out[b], cur) && out[b] != nil {
			continue
		}
		out[b] = cur
		for _, s := range b.Succs {
			n := meet(in[s], cur)
			if !eqLS(n, in[s]) || in[s] == nil {
				in[s] = n
				if !inq[s] {
					inq[s] = true
					work = append(work, s)
				}
			}
		}
	}
	// unreachable blocks
	for _, b := range fn.Blocks {
		if in[b] == nil {
			for _, x := range b.Instrs {
				if _, ok := ls.at[x]; !ok {
					ls.at[x] = nil
				}
			}
		}
	}
}

// Held reports whether lock key is definitely held just before in.
// Unreachable instructions hold everything.
func (ls *Locksets) Held(in ssa.Instruction, key string) bool {
	s, ok := ls.at[in]
	if !ok || s == nil {
		return true
	}
	return s[key]
}

// SameSection: a and b (same function) lie in one critical section of key:
// the lock is held at both and no path a→b that does not revisit a releases
// the lock in between.
func (ls *Locksets) SameSection(a, b ssa.Instruction, key string) bool {
	return ls.sameSectionDepth(a, b, key, 0)
}

func (ls *Locksets) sameSectionDepth(a, b ssa.Instruction, key string, depth int) bool {
	if a.Parent() != b.Parent() {
		if depth >= 2 || !ls.Held(a, key) || !ls.Held(b, key) {
			return false
		}
		isUnlock := func(in ssa.Instruction) bool {
			op, ok := lockOpOf(in)
			return ok && !op.acquire && op.key == key
		}
		p := ls.p
		// b inside a plain helper: every call of the helper is in a's section and the helper
		// does not release the lock before b
		if fb := b.Parent(); p.isPlainHelper(fb) {
			clean := true
			eachInstrLocal(fb, func(u ssa.Instruction) {
				if isUnlock(u) && p.canReach(u, b, never) {
					clean = false
				}
			})
			if clean {
				all := len(p.callers[fb]) > 0
				for _, cs := range p.callers[fb] {
					if !ls.sameSectionDepth(a, cs.(ssa.Instruction), key, depth+1) {
						all = false
					}
				}
				if all {
					return true
				}
			}
		}
		// a inside a plain helper: the helper does not release the lock after a, and every
		// call of the helper is in b's section
		if fa := a.Parent(); p.isPlainHelper(fa) {
			clean := true
			eachInstrLocal(fa, func(u ssa.Instruction) {
				if isUnlock(u) && p.canReach(a, u, never) {
					clean = false
				}
			})
			if clean {
				all := len(p.callers[fa]) > 0
				for _, cs := range p.callers[fa] {
					if !ls.sameSectionDepth(cs.(ssa.Instruction), b, key, depth+1) {
						all = false
					}
				}
				if all {
					return true
				}
			}
		}
		return false
	}
	if !ls.Held(a, key) || !ls.Held(b, key) {
		return false
	}
	p := ls.p
	isUnlock := func(in ssa.Instruction) bool {
		op, ok := lockOpOf(in)
		return ok && !op.acquire && op.key == key
	}
	// is there an unlock u reachable from a (not crossing a again) from which b
	// is reachable (not crossing a)?
	fn := a.Parent()
	bad := false
	eachInstrLocal(fn, func(u ssa.Instruction) {
		if bad || !isUnlock(u) {
			return
		}
		avoidA := func(in ssa.Instruction) bool { return in == a }
		if p.canReach(a, u, avoidA) && p.canReach(u, b, avoidA) {
			bad = true
		}
	})
	return !bad
}

// deadMethod: fn is a method of an unexported named type that is never
// converted to an interface anywhere in the package.
func (ls *Locksets) deadMethod(fn *ssa.Function) bool {
	if fn.Signature.Recv() == nil {
		return false
	}
	rn := namedOf(fn.Signature.Recv().Type())
	if rn == "" || isExportedName(rn) {
		return false
	}
	conv := false
	for _, g := range ls.p.AllFns {
		eachInstrLocal(g, func(in ssa.Instruction) {
			if mi, ok := in.(*ssa.MakeInterface); ok && namedOf(mi.X.Type()) == rn {
				conv = true
			}
		})
	}
	return !conv
}

// boundOnceSites: the call sites `once.Do(x.m)` where the bound method value
// x.m denotes fn (so fn runs synchronously under the caller's locks).
func boundOnceSites(p *Prog, fn *ssa.Function) []ssa.Instruction {
	var out []ssa.Instruction
	if fn.Object() == nil {
		return nil
	}
	for _, g := range p.AllFns {
		eachInstrLocal(g, func(in ssa.Instruction) {
			c, ok := in.(*ssa.Call)
			if !ok || calleeName(c) != "(*sync.Once).Do" || len(c.Call.Args) < 2 {
				return
			}
			mc, ok := c.Call.Args[1].(*ssa.MakeClosure)
			if !ok {
				return
			}
			w := mc.Fn.(*ssa.Function)
			if w.Synthetic != "" && w.Object() == fn.Object() {
				out = append(out, in)
			}
		})
	}
	return out
}

// ---- lock balance (may-analysis) -------------------------------------------

// mayLocks computes, for every instruction of fn, the set of locks that MAY be
// held just before it (join = union), counting only locks acquired inside fn.
func (ls *Locksets) mayLocks(fn *ssa.Function) map[ssa.Instruction]lockset {
	at := map[ssa.Instruction]lockset{}
	if len(fn.Blocks) == 0 {
		return at
	}
	in := map[*ssa.BasicBlock]lockset{fn.Blocks[0]: {}}
	work := []*ssa.BasicBlock{fn.Blocks[0]}
	for len(work) > 0 {
		b := work[0]
		work = work[1:]
		cur := in[b].clone()
		for _, x := range b.Instrs {
			at[x] = cur.clone()
			if op, ok := lockOpOf(x); ok {
				if op.acquire {
					cur[op.key] = true
				} else {
					delete(cur, op.key)
				}
			}
		}
		for _, s := range b.Succs {
			old := in[s]
			n := lockset{}
			for k := range old {
				n[k] = true
			}
			for k := range cur {
				n[k] = true
			}
			if old == nil || len(n) != len(old) {
				in[s] = n
				work = append(work, s)
			}
		}
	}
	return at
}

// deferredUnlocks returns the lock keys fn releases through `defer mu.Unlock()`.
func deferredUnlocks(fn *ssa.Function) map[string]bool {
	out := map[string]bool{}
	eachInstrLocal(fn, func(in ssa.Instruction) {
		d, ok := in.(*ssa.Defer)
		if !ok {
			return
		}
		n := calleeNameCommon(d.Common())
		if n == "(*sync.Mutex).Unlock" || n == "(*sync.RWMutex).Unlock" || n == "(*sync.RWMutex).RUnlock" {
			if len(d.Call.Args) > 0 {
				if k := lockKeyOf(d.Call.Args[0]); k != "" {
					out[k] = true
				}
			}
		}
	})
	return out
}

// ruleLockBalance: every lock a function takes is released on every path to
// every return (or by a deferred unlock); no lock is taken while it is
// already definitely held by the same function; no unlock without a lock.
func ruleLockBalance(c *Check, a *Analysis, rule string, locks ...string) {
	p := c.P
	ls := a.Locks()
	want := map[string]bool{}
	for _, l := range locks {
		want[l] = true
	}
	c.Rule(rule, "every acquisition of "+strings.Join(locks, " / ")+" is released on every path to every return of the acquiring function (explicitly or by a deferred unlock), and the lock is never re-acquired while definitely held", 2)
	sc := siteCounter{}
	for _, fn := range p.AllFns {
		uses := false
		eachInstrLocal(fn, func(in ssa.Instruction) {
			if op, ok := lockOpOf(in); ok && want[op.key] {
				uses = true
			}
		})
		if !uses {
			continue
		}
		may := ls.mayLocks(fn)
		def := deferredUnlocks(fn)
		for k := range def {
			if !want[k] {
				continue
			}
			// the deferred unlock runs at every return: the lock must be held there
			eachInstrLocal(fn, func(in ssa.Instruction) {
				if _, isRet := in.(*ssa.Return); !isRet || (len(in.Block().Preds) == 0 && in.Block() != fn.Blocks[0]) {
					return
				}
				d := firstDeferOf(fn, k)
				if d == nil || !p.dominatesInstr(d, in) {
					return
				}
				held := ls.at[in] == nil || ls.at[in][k]
				c.Ob(rule, sc.key(fn, "deferred unlock finds "+k+" held"), p.InstrPos(in), held, ifs(!held, "the deferred unlock of "+k+" runs on a path on which the lock is not held"))
			})
		}
		eachInstrLocal(fn, func(in ssa.Instruction) {
			if _, isRet := in.(*ssa.Return); isRet {
				if len(in.Block().Preds) == 0 && in.Block() != fn.Blocks[0] {
					return // recover block
				}
				for k := range may[in] {
					if !want[k] || def[k] {
						continue
					}
					// feasibility: is this return reachable from a Lock(k) without passing an Unlock(k)?
					leaked := false
					var trail string
					eachInstrLocal(fn, func(l ssa.Instruction) {
						op, ok := lockOpOf(l)
						if !ok || !op.acquire || op.key != k || leaked {
							return
						}
						if _, tr, found := p.reachFrom(fn, l, func(x ssa.Instruction) bool { return x == in }, func(x ssa.Instruction) bool {
							o2, ok2 := lockOpOf(x)
							return ok2 && !o2.acquire && o2.key == k
						}); found {
							leaked = true
							trail = p.lineTrail(tr)
						}
					})
					c.Ob(rule, sc.key(fn, "return releases "+k), p.InstrPos(in), !leaked, ifs(leaked, "a path returns with "+k+" still held ("+trail+"): the next caller that needs the lock blocks forever"))
				}
				for k := range want {
					if !may[in][k] {
						// still count the obligation when the function takes this lock at all
						takes := false
						eachInstrLocal(fn, func(l ssa.Instruction) {
							if op, ok := lockOpOf(l); ok && op.acquire && op.key == k {
								takes = true
							}
						})
						if takes {
							c.Ob(rule, sc.key(fn, "return releases "+k), p.InstrPos(in), true, "")
						}
					}
				}
			}
			if op, ok := lockOpOf(in); ok && want[op.key] && !op.acquire {
				// an unlock must find the lock held on every path (unlock of an unlocked mutex is a fatal error)
				held := ls.at[in] == nil || ls.at[in][op.key]
				c.Ob(rule, sc.key(fn, "unlock finds "+op.key+" held"), p.InstrPos(in), held, ifs(!held, op.key+" is unlocked on a path on which it is not held: fatal 'unlock of unlocked mutex' (and the data it guards was touched without it)"))
			}
			if op, ok := lockOpOf(in); ok && want[op.key] && op.acquire {
				// definitely held already (by this function, not by the caller contract)
				held := ls.at[in] != nil && ls.at[in][op.key] && !ls.entry[fn][op.key]
				c.Ob(rule, sc.key(fn, "no re-lock of "+op.key), p.InstrPos(in), !held, ifs(held, op.key+" is locked while this function already holds it: self-deadlock"))
			}
		})
	}
}

func firstDeferOf(fn *ssa.Function, key string) ssa.Instruction {
	var res ssa.Instruction
	eachInstrLocal(fn, func(in ssa.Instruction) {
		d, ok := in.(*ssa.Defer)
		if !ok || res != nil {
			return
		}
		n := calleeNameCommon(d.Common())
		if (n == "(*sync.Mutex).Unlock" || n == "(*sync.RWMutex).Unlock" || n == "(*sync.RWMutex).RUnlock") && len(d.Call.Args) > 0 && lockKeyOf(d.Call.Args[0]) == key {
			res = in
		}
	})
	return res
}
